#!/venv/bin/python
"""Store behaviour-preserving refactorings produced by sub-agents under /verif/twins/<id>/ after checking that each
applies to /repo HEAD and keeps the pinned suite at 217 passed + 2 collection errors."""
import json, os, shutil, subprocess, sys, glob, re
SRC = os.environ.get("TWIN_SRC", "/tmp/wt2"); OUT = "/verif/twins"; PY = "/venv/bin/python"; PREFIX = os.environ.get("TWIN_PREFIX", "")
def sh(cmd, cwd):
    p = subprocess.run(cmd, cwd=cwd, shell=True, capture_output=True, text=True, timeout=900)
    return p.returncode, p.stdout + p.stderr
for rdir in sorted(glob.glob(f"{SRC}/R*/out/r*")):
    tid = f"{PREFIX}{rdir.split(chr(47))[3]}-{os.path.basename(rdir)}"
    dest = os.path.join(OUT, tid)
    if os.path.exists(os.path.join(dest, "meta.json")):
        continue
    patch = os.path.join(rdir, "patch.diff")
    if not os.path.exists(patch):
        continue
    d = f"/tmp/twinscratch_{os.getpid()}"
    shutil.rmtree(d, ignore_errors=True); os.makedirs(d)
    sh(f"git -C /repo archive HEAD | tar -x -C {d}", "/")
    try:
        rc, out = sh(f"patch -p1 --no-backup-if-mismatch < {patch}", d)
        if rc != 0:
            print(tid, "PATCH DOES NOT APPLY"); continue
        rc, out = sh(f"{PY} -m pytest -q -p no:cacheprovider --timeout=900 --continue-on-collection-errors 2>&1 | tail -3", d)
        m = re.search(r"(\d+) passed", out); e = re.search(r"(\d+) error", out); f = re.search(r"(\d+) failed", out)
        suite = (int(m.group(1)) if m else 0, int(e.group(1)) if e else 0, int(f.group(1)) if f else 0)
        ok = suite == (217, 2, 0)
        print(tid, "OK" if ok else "REJECT", suite)
        if not ok:
            continue
        os.makedirs(dest, exist_ok=True)
        shutil.copy(patch, os.path.join(dest, "patch.diff"))
        meta = {}
        try: meta = json.load(open(os.path.join(rdir, "meta.json")))
        except Exception: pass
        meta.update({"id": tid, "kind": "behaviour-preserving refactoring (silent twin)",
                     "origin": "fresh sub-agent given only the assigned files and a scratch worktree",
                     "what_i_ran": ["patch -p1 on a scratch copy of /repo HEAD", "pinned suite: %d passed, %d collection errors, %d failed" % suite]})
        json.dump(meta, open(os.path.join(dest, "meta.json"), "w"), indent=1, ensure_ascii=False)
    finally:
        shutil.rmtree(d, ignore_errors=True)
