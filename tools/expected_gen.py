#!/venv/bin/python
"""seeded/LAST_RUN.txt (output of seed_run.py --all-checks) -> seeded/EXPECTED.json:
{variant: {"reported_by": [props], "refused_by": [props exiting 2]}}.
The thorough tier uses it as the regression reference of the checker: a check listed under
reported_by for a variant must keep reporting it."""
import json, re, sys
src = sys.argv[1] if len(sys.argv) > 1 else "/verif/seeded/LAST_RUN.txt"
out = {}
for line in open(src):
    m = re.match(r"(C\d\d-(?:r\d)?m\d)\s+(\w+)\s+by=(\S+)\s+err=(\S+)", line)
    if m:
        out[m.group(1)] = {"reported_by": [] if m.group(3) == "-" else m.group(3).split(","),
                           "refused_by": [] if m.group(4) == "-" else m.group(4).split(",")}
json.dump(out, open("/verif/seeded/EXPECTED.json", "w"), indent=1, sort_keys=True)
print(len(out), "variants;", sum(1 for v in out.values() if v["reported_by"]), "reported by at least one check")
