#!/venv/bin/python
"""Run checks against seeded mutants on scratch copies (development aid).

usage: seed_run.py [--props C01,C02] [--all-checks | --smart] [mutant ids...]
--smart: the mutant's own check plus the checks EXPECTED.json lists as reporting it; every check for a mutant that has no
entry there or that nothing reported (regression run: a fifth of the cost of --all-checks).
For each mutant: copy /repo/pycaption to a scratch dir, apply patch, run
`VERIF_REPO=<scratch> ./check <prop>` for the mutant's own property (or for every
implemented property with --all-checks). Prints which checks report a VIOLATION.
"""
import json, os, shutil, subprocess, sys, glob, tempfile
from concurrent.futures import ThreadPoolExecutor

VERIF = os.environ.get("VERIF_DIR", "/verif")


def implemented():
    return sorted(os.path.basename(p)[:-3].upper() for p in glob.glob(f"{VERIF}/sa/props/c[0-9][0-9].py"))


def run_one(mid, props):
    d = tempfile.mkdtemp(prefix="seedrun_")
    try:
        shutil.copytree("/repo/pycaption", os.path.join(d, "pycaption"))
        p = subprocess.run(f"patch -p1 --no-backup-if-mismatch < {VERIF}/seeded/{mid}/patch.diff", cwd=d, shell=True,
                           capture_output=True, text=True)
        if p.returncode != 0:
            return mid, {"_patch": "DOES NOT APPLY"}
        res = {}
        env = dict(os.environ, VERIF_REPO=d, VERIF_EVIDENCE_DIR=os.path.join(d, "ev"))
        for pr in props:
            r = subprocess.run([f"{VERIF}/check", pr], capture_output=True, text=True, env=env)
            viol = [l for l in r.stdout.splitlines() if l.startswith("  R-")][:3]
            res[pr] = (r.returncode, viol, [l for l in r.stdout.splitlines() if l.startswith("ANALYSIS-ERROR")][:2])
        return mid, res
    finally:
        shutil.rmtree(d, ignore_errors=True)


def main():
    args = sys.argv[1:]
    allchecks = "--all-checks" in args
    smart = "--smart" in args
    args = [a for a in args if a not in ("--all-checks", "--smart")]
    expected = {}
    if smart:
        try:
            expected = json.load(open(os.environ.get("SEED_EXPECTED", f"{VERIF}/seeded/EXPECTED.json")))
        except (OSError, ValueError):
            expected = {}
    props = None
    ids = []
    i = 0
    while i < len(args):
        if args[i] == "--props":
            props = args[i + 1].split(","); i += 2
        else:
            ids.append(args[i]); i += 1
    impl = implemented()
    mids = sorted(os.path.basename(p) for p in glob.glob(f"{VERIF}/seeded/C*-*m*"))
    obsolete = []
    for m_ in list(mids):
        try:
            if json.load(open(f"{VERIF}/seeded/{m_}/meta.json")).get("obsolete"):
                obsolete.append(m_)
                mids.remove(m_)
        except (OSError, ValueError):
            pass
    if ids:
        mids = [m for m in mids if m in ids or m.split("-")[0] in ids]
    jobs = []
    for m in mids:
        own = m.split("-")[0]
        ps = props or (impl if allchecks else ([own] if own in impl else []))
        if smart and not props:
            rep = (expected.get(m) or {}).get("reported_by") or []
            ps = sorted(set([own] + rep)) if rep else impl
        if ps:
            jobs.append((m, ps))
    with ThreadPoolExecutor(int(os.environ.get("SEED_JOBS", "16"))) as ex:
        results = list(ex.map(lambda j: run_one(*j), jobs))
    for m_ in obsolete:
        print(f"{m_:8s} OBSOLETE (see meta.json: no longer a property-breaking change on the repaired tree)")
    caught = 0
    for mid, res in results:
        det = [p for p, v in res.items() if isinstance(v, tuple) and v[0] == 1]
        err = [p for p, v in res.items() if isinstance(v, tuple) and v[0] == 2]
        own = mid.split("-")[0]
        status = "CAUGHT" if det else ("ERROR2" if err else "missed")
        if det:
            caught += 1
        print(f"{mid:8s} {status:7s} by={','.join(det) or '-'} err={','.join(err) or '-'}")
        for p in det[:2]:
            for l in res[p][1][:2]:
                print("        ", l.strip()[:200])
        for p in err[:2]:
            for l in res[p][2][:1]:
                print("        ", l.strip()[:200])
        if "_patch" in res:
            print("        ", res["_patch"])
    print(f"caught {caught}/{len(results)}")


main()
