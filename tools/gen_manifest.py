#!/venv/bin/python
"""Regenerate /verif/MANIFEST.json from the per-property metadata below and the set of implemented
checks (sa/props/cNN.py that are listed in CLAIMED)."""
import json, os, glob

V = "/verif"
META = {
 "C01": dict(technique="abstract interpretation over exact linear forms (ast) + regular-language inclusion on re._parser ASTs",
    text="Decides, for all inputs at once, named clauses of C01 from the source: every timestamp field of the SRT/WebVTT/DFXP/SAMI/MicroDVD readers is scaled by the coefficient the format's grammar requires (symbolic evaluation of the loop-free conversion functions into rational polynomial forms compared with an oracle written from the format specs), fraction fields are padded on the right and cut to their width, every grammar-conformant stamp is in the language of the repository's regexes (shortest counter-example otherwise), group roles match, no truncation of a twice-rounded float reaches Caption.start/end, readers only append in document order, Caption refuses non-numeric times. It does not decide the behaviour as a whole: cue segmentation by str.splitlines/BeautifulSoup and the scanning loops are not decided.",
    note="Trusted: CPython ast/re._parser; int/float/Fraction(str) semantics; IEEE-754 correctly rounded operations; the oracle tables in sa/spec/time_grammar.py. Rule instances are confirmed by hand on the pinned tree (floor: 10 conversion sites)."),
 "C05": dict(technique="constant folding of module tables (no import) compared with an independent CEA-608 generator; dispatch-table extraction",
    text="Decides the table clauses of C05 only: CHARACTERS/SPECIAL_CHARS/EXTENDED_CHARS, all 480 preamble address codes, tab offsets and the control-code dispatch of SCCReader._translate_command agree with a generator written from the CEA-608 bit layout; the word classes the dispatcher tests in order are disjoint; the row/column -> safe-area map has the right coefficients; small pure predicates (style classification, back-space condition, tab-offset window) are folded over their whole finite domain. The decoder's behaviour over command sequences (doubling memory, row adjacency, italic extent) is NOT decided by this family.",
    note="Trusted: the transcription of CEA-608-E in sa/spec/cea608.py (both readings accepted where published tables differ); constant folding implements Python semantics for the whitelisted pure subset."),
 "C10": dict(technique="def-use / effect analysis on the AST: mutable defaults, definite re-initialisation of per-call state, set-order flows, global mutation",
    text="Decides the structural necessary conditions of C10: no mutable default argument escapes (R-DEFAULTS), every piece of reader state that is written or mutated during read() is definitely re-created before its first use in that call (R-STATE), no module- or class-level mutable object is mutated from read-reachable code (R-GLOBALMUT), no hash-ordered set is iterated into a result (R-HASHORDER), no nondeterministic source is called (R-NONDET). Equality of two result sets as such is not decided.",
    note="Trusted: the call-graph over-approximation (unresolved receivers fall back to all in-package methods of that name); library objects (bs4, html.parser) are opaque."),
 "C18": dict(technique="structural rules on the class AST (eq/hash/init attribute sets, store sites) + regular-language equality on the size pattern",
    text="Decides: for the six geometry value classes (and Region) attributes hashed <= attributes compared = attributes initialised minus the documented exception, __eq__ is a conjunction of same-attribute equalities with a type test, __bool__ never depends on a magnitude (so `other and ...` cannot make equal zero values unequal), no method other than __init__ stores through self, a parameter or an alias of either; the size pattern built from UnitEnum EQUALS the reference size language over printable ASCII (shortest witness otherwise), printed sizes (2 decimals) are a sub-language of parsed sizes, the padding shorthand expands in TTML order. Float equality of particular magnitudes is not decided.",
    note="Trusted: re._parser is the parser used at run time; Enum identity semantics; the reference grammar in sa/spec/geometry_spec.py."),
}
CLAIMED = ["C01", "C05", "C10", "C18"]

def main():
    props = [json.loads(l) for l in open(f"{V}/properties.jsonl")]
    checks, na = [], []
    for p in props:
        i = p["id"]
        if i in CLAIMED and os.path.exists(f"{V}/sa/props/{i.lower()}.py"):
            m = META[i]
            checks.append({
                "property_id": i,
                "quick_cmd": f"./check {i} --tier quick",
                "thorough_cmd": f"./check {i} --tier thorough",
                "evidence_file": f"/verif/evidence/{i}.json",
                "replay_cmd_template": f"./check {i} --replay {{path}}",
                "engine": "sa",
                "technique": m["technique"],
                "level_claimed": {"category": "other", "text": m["text"], "design_ref": f"DESIGN.md section 4, {i}"},
                "level_note": m["note"],
            })
        else:
            na.append({"property_id": i, "reason": META.get(i, {}).get("na") or
                       "check not built yet in this session (see DESIGN.md section 4 for the planned static rules)"})
    man = {
        "version": 1,
        "setup_cmd": "true",
        "hooks": {"guard": "PYCAPTION_VERIF",
                  "enable": "none: static analysis reads /repo/pycaption/**/*.py as text; no hooks or instrumentation exist",
                  "baseline_off_cmd": "cd /repo && /venv/bin/python -m pytest -q -p no:cacheprovider --timeout=900 --continue-on-collection-errors",
                  "source_commits": [], "add_only": True},
        "engines": [{"name": "sa", "path": "/verif/sa", "serves_properties": CLAIMED,
                     "kind_free_text": "repository-specific static analysis: ast index/call resolution, constant folding, "
                                       "symbolic linear forms, regular-language engine, effect/taint abstract interpretation, path rules"}],
        "checks": checks,
        "notes": "Static analysis only (ast, re._parser; pycaption is never imported or run by a check). Exit 0/1 per the "
                 "interface; exit 2 + 'ANALYSIS-ERROR' = the analysis cannot give a verdict (anchor vanished / unsupported "
                 "construct) - never a property verdict. Known findings: /verif/known_findings.json. See DESIGN.md.",
        "not_applicable": na,
    }
    json.dump(man, open(f"{V}/MANIFEST.json", "w"), indent=1)
    print("checks:", [c["property_id"] for c in checks], "na:", len(na))

main()
