#!/venv/bin/python
"""Regenerate /verif/MANIFEST.json from the per-property metadata below and the set of implemented
checks (sa/props/cNN.py that are listed in CLAIMED)."""
import json, os, glob

V = "/verif"
META = {
 "C01": dict(technique="abstract interpretation over exact linear forms (ast) + regular-language inclusion on re._parser ASTs",
    text="Decides, for all inputs at once, named clauses of C01 from the source: every timestamp field of the SRT/WebVTT/DFXP/SAMI/MicroDVD readers is scaled by the coefficient the format's grammar requires (symbolic evaluation of the loop-free conversion functions into rational polynomial forms compared with an oracle written from the format specs), fraction fields are padded on the right and cut to their width (and, digit by digit, every digit of a 1..9-digit DFXP second fraction has its decimal weight: symbolic digit strings), every grammar-conformant stamp is in the language of the repository's regexes (shortest counter-example otherwise), group roles match, no truncation of a twice-rounded float reaches Caption.start/end, readers only append in document order, Caption refuses non-numeric times. It does not decide the behaviour as a whole: cue segmentation by str.splitlines/BeautifulSoup and the scanning loops are not decided.",
    note="Trusted: CPython ast/re._parser; int/float/Fraction(str) semantics; IEEE-754 correctly rounded operations; the oracle tables in sa/spec/time_grammar.py. Rule instances are confirmed by hand on the pinned tree (floor: 10 conversion sites)."),
 "C05": dict(technique="constant folding of module tables (no import) compared with an independent CEA-608 generator; dispatch-table extraction",
    text="Decides the table clauses of C05 only: CHARACTERS/SPECIAL_CHARS/EXTENDED_CHARS, all 480 preamble address codes, tab offsets and the control-code dispatch of SCCReader._translate_command agree with a generator written from the CEA-608 bit layout; the word classes the dispatcher tests in order are disjoint; the row/column -> safe-area map has the right coefficients; small pure predicates (style classification, back-space condition, tab-offset window) are folded over their whole finite domain; the duplicate filter (_handle_double_command) is folded as a finite-state transducer from every reachable state on a representative 12-word alphabet and checked against the doubling obligations (a doubled control/special code counts once, twice-doubled counts twice, address+tab-offset in all three transmission forms, text never a duplicate, only the immediately preceding word counts) - one obligation fails on the pinned tree (known finding: tab offset after a DOUBLED address code is dropped). The pop-on buffer object (InstructionNodeCreator + position tracker + italics pipeline) is constructed and folded inside the checker's evaluator on every caption of one or two rows over {plain/italic preamble, column 0/4, tab offset, mid-row italics on/off} (three rows in the thorough tier) and read back against the CEA-608 meaning: consecutive rows are lines of one chunk, other rows start a repositioned chunk at (row, column + offset), every character appears once on its line, a character is italic exactly when the last attribute code before it was italic; the italics pipeline alone is folded on every node sequence up to length 4 (6 thorough). Beyond those scopes (longer captions, back-space and extended-character replacement sequences, re-addressed rows) the decoder's behaviour is NOT decided.",
    note="Trusted: the transcription of CEA-608-E in sa/spec/cea608.py (both readings accepted where published tables differ); constant folding implements Python semantics for the whitelisted pure subset."),
 "C10": dict(technique="def-use / effect analysis on the AST: mutable defaults, definite re-initialisation of per-call state, set-order flows, global mutation",
    text="Decides the structural necessary conditions of C10: no mutable default argument escapes (R-DEFAULTS), every piece of reader state that is written or mutated during read() is definitely re-created before its first use in that call (R-STATE), no module- or class-level mutable object is mutated from read-reachable code (R-GLOBALMUT), no hash-ordered set is iterated into a result (R-HASHORDER), no nondeterministic source is called (R-NONDET). Equality of two result sets as such is not decided.",
    note="Trusted: the call-graph over-approximation (unresolved receivers fall back to all in-package methods of that name); library objects (bs4, html.parser) are opaque."),
 "C18": dict(technique="structural rules on the class AST (eq/hash/init attribute sets, store sites) + regular-language equality on the size pattern",
    text="Decides: for the six geometry value classes (and Region) attributes hashed <= attributes compared = attributes initialised minus the documented exception, __eq__ is a conjunction of same-attribute equalities with a type test, __bool__ never depends on a magnitude (so `other and ...` cannot make equal zero values unequal), no method other than __init__ stores through self, a parameter or an alias of either; the size pattern built from UnitEnum EQUALS the reference size language over printable ASCII (shortest witness otherwise), printed sizes (2 decimals) are a sub-language of parsed sizes, the padding shorthand expands in TTML order. Float equality of particular magnitudes is not decided.",
    note="Trusted: re._parser is the parser used at run time; Enum identity semantics; the reference grammar in sa/spec/geometry_spec.py."),
}
CLAIMED = ["C01", "C05", "C10", "C18"]

META.update({
 "C02": dict(technique="symbolic extraction of formatter templates + exhaustive finite fold over the abstract timedelta; def-use of emitted stamps",
    text="Decides the formatter and emission clauses of C02 from source: the shared hh:mm:ss.mmm formatter and the WebVTT formatter are extracted symbolically (divmod/floor forms, format specs) and folded over ALL 86 400 values of timedelta.seconds plus millisecond boundaries against the reference rendering (carries, zero padding, hours shown exactly when non-zero); MicroDVD us*fps/10^6 and SAMI us//1000 have the right coefficients and integer kind; each writer's timing template prints this caption's start then end; SAMI blank-sync test is `start != previous end`; merging is guarded by equality of both start and end. Not decided: value-dependent SAMI blank-sync placement, WebVTT splitting.",
    note="Trusted: datetime.timedelta normalisation facts (listed in the evidence), str.format semantics for 'd' specs, the reference renderings in the check."),
 "C06": dict(technique="linear-form abstract interpretation of the timecode arithmetic + exactly-once path rule on the word dispatcher",
    text="Decides: _translate_time is (3600h+60m+s+f/30) x (1001/1000 for ':' | 1 for ';') x 10^6 - offset with the clamp testing the returned value; read() scales the offset by 10^6; every path through _translate_word counts exactly one frame after handling the word; thresholds (5 frames + 1 us, 4 s default over all trailing open captions, 0 < d < 50000 -> CaptionReadTimingError); EOC/EDM def-use of get_time(); the doubling memory is written only by the doubling handler. Not decided: which captions a stream yields, ordering.",
    note="Trusted: the structural match of get_time()'s stamp re-assembly (an unrecognised rewrite is ANALYSIS-ERROR); control-code values from sa/spec/cea608.py."),
 "C12": dict(technique="constant folding of the alignment maps over their enums, symbolic evaluation of the WebVTT cue-setting arithmetic on geometry objects",
    text="Decides: external/internal alignment maps are mutual inverses for every enum member and use the TTML vocabulary; WEBVTT_VERSION_OF is total; attribute names written == read with the right factories; a layout gets a region iff any component is present; WebVTT position/line/size are origin.x+padding.start / origin.y+padding.before / extent.h-padding.start-padding.end (percent), align omitted exactly for centre; raw cue settings flow verbatim from the timing line into the output; fallback node>caption>language>set>default; WebVTT's `lang` is read only after its None default was replaced; layouts are sound dictionary keys; the cue-splitting test has no extra condition. Not decided: effective layout per character after re-reading.",
    note="Trusted: Size.__add__/__sub__ semantics are read from the source by the same evaluator; bs4 is opaque."),
 "C13": dict(technique="linear-form abstract interpretation per unit (piecewise on the finite unit enum), must-raise and guard dominance, layout-level coverage",
    text="Decides: Size.as_percentage_of has the specified coefficient for each of the five units and each axis, refuses (RelativizationError) when no or both dimensions are given for every absolute unit; axis routing of Point/Stretch/Padding/Layout; fit_to_screen replaces an axis exactly when origin+extent exceeds 90/95 with 90-x / 95-y and fills a missing extent to the edges; the writer entry point applies relativize then fit, each guarded only by its own option; every layout level a writer consumes was relativized (F14 = known finding for DFXP language/set level); WebVTT prints only sizes that passed as_percentage_of or is_relative() on every feasible path, and is_relative() means what that guard assumes (Size: exactly percentages, folded over unit x value; composites: every present part, folded on stubs); each level is sanitised unconditionally. Not decided: float results for particular magnitudes.",
    note="Trusted: geometry objects are truthy (C18 R-BOOL-STRUCTURAL); the oracle constants in sa/spec/geometry_spec.py."),
 "C15": dict(technique="path rule on the scan loop (every path adds, none replaces) + structural identity of the measured text",
    text="Decides C15's mechanism completely at the level of shape: on every path through the scan loop this caption's offenders are ADDED to the accumulator and nothing replaces earlier entries; the scan runs after the final flush and walks the collection get_all() returns from; the measured text is the whole joined caption split at line breaks with limit 32; a non-empty message raises CaptionLineLengthError before any return and every start time contributes. The line lengths themselves come from the decoder (C05/C16) and are not decided.",
    note="Trusted: Caption.get_text_nodes' shape (checked), defaultdict(list) semantics."),
 "C16": dict(technique="pairing/ordering path rules over the buffer handlers (store-before-discard, discard-after-store), must-call ordering",
    text="Thin claim, pairing and ordering only: in every handler that replaces the active buffer (mode-switch flush, roll-up, RDC/RUx/EOC branches) each path stores the buffer exactly once before discarding it and discards it after storing it (no loss, no duplicate emission), the erase command excepted; read() flushes after the last line and before collecting; the flush observer is registered before the first activation and sees the old key; _roll_up stores at the old time, then takes the new time, then force-ends the previous captions; is_empty() is folded on the buffer object for every command sequence up to length 3 (empty exactly when no character was written); every trailing open caption gets an end; the duplicate filter drops exactly the second copy of a doubled code and never text (finite-state fold shared with C05). Character conservation as such is NOT decided.",
    note="Trusted: loops summarised as zero-or-one iteration (exact for these per-statement obligations)."),
 "C17": dict(technique="table rules (parity, inverse, CEA-608 reference), symbolic fold of the timecode formatter, mod-5 length automaton of the word assembler",
    text="Decides: every byte the writer can emit (character tables, PAC bytes, literal command words, filler, fallback) has odd parity; writer PAC bytes address (row,0) by the reader's map and the CEA-608 reference; CHARACTER_TO_CODE inverts CHARACTERS; every line passes textwrap.fill(.,32); the hh:mm:ss:ff formatter equals the reference on 2 880 boundary timecodes; pre-roll = payload words + the literal command words actually written, compared against the pre-rolled start; HEADER shared with detect; the encoder (_text_to_code) is folded on every encodable character in both alignment states on one- and two-row captions: whole 4-hex words only, doubled address word per row on rows 16-k..15, and the words decode back to the text with the reader's tables. Not decided: timing slack, re-read equality.",
    note="Trusted: textwrap defaults (break at spaces, split long words)."),
 "C19": dict(technique="linear forms of the retiming assignments, boundary operator, merge-key and separator guards",
    text="Decides: new start/end are t*skew+offset (both), the keep-test reads the new start with `>= 0`, kept captions are appended in order with nodes untouched, the iterated list is not modified, and the result is stored back under the same language unconditionally (set_captions has no guard); merge_concurrent_captions compares (start,end) of consecutive captions as numbers (grouping in a mapping keyed by the times is reported: it merges non-adjacent captions); merge() inserts exactly one unconditional break between captions, appends all nodes in order and keeps the first caption's times. Not decided: maximality of runs, idempotence.",
    note="Trusted: -"),
 "C20": dict(technique="constant folding of the reader order, exception-freedom scan with guard recognition, marker agreement + regular-language inclusion for MicroDVD",
    text="Decides: probe order, first-accept loop and emptiness guard of detect_format; every construct of the six detect methods that can raise on a non-empty str is discharged by a recognised guard (length test in a short-circuit/if, index 0 of splitlines, except IndexError); readers construct without arguments; each writer's skeleton contains its reader's marker, no earlier sniffer's marker occurs in a later skeleton, every document MicroDVDWriter can produce is in the sniffer's language (shortest counter-example otherwise). Not decided: that the detected reader reads the document.",
    note="Trusted: non-empty str has >= 1 line under splitlines(); bs4 keeps the skeleton's root tags."),
})
CLAIMED += ["C02", "C06", "C12", "C13", "C15", "C16", "C17", "C19", "C20"]

META.update({
 "C03": dict(technique="interprocedural string-provenance (taint) abstract interpretation to raw-markup sinks; replacement-table rule; blank-line structural rule",
    text="Decides: on every flow from caption TEXT to a raw sink of the three DFXP writers and the SAMI writer (tag.string with prettify(formatter=None)) and to the WebVTT document, the context's sanitiser is applied exactly once (zero = injection, two = double escaping), recognised by what the sanitiser does (escape(), replace chains), not by its name; XML character data additionally may not contain ']]>'; the WebVTT encoder's table neutralises & < --> with '&' first; a BREAK can never produce an empty line in SRT / WebVTT / MicroDVD (placeholder guards, newline-collapse loops). Not decided: what a conformant parser makes of the output.",
    note="Trusted: bs4 formatter=None substitutes nothing; saxutils.escape replaces & < >; the abstract interpreter's library summaries (sa/engines/absint_lib.py); unresolved calls are havocked (counted in the evidence)."),
 "C04": dict(technique="regular-language inclusion/equality on re._parser ASTs (shortest witness) + decode-once structural rules on the two-stage SAMI parse",
    text="Decides: SAMI hands references of markup characters (&amp; &lt; numeric) to the second parser still encoded and looks entity names up verbatim; WebVTT decodes '&amp;' last and its table inverts the writer's encoder on the hazard set; references are decoded only after the tags are stripped; the &apos; workaround cannot create a reference; the DFXP/SAMI text-capture pattern is checked for totality (it is not: known finding with witness 'a\\na') and, separately, for single-line text after an indentation prefix (holds); a text node is dropped only when nothing matched; OTHER_SPAN_PATTERN / VOICE_SPAN_PATTERN equal the reference WebVTT tag language; numeric references (known finding); br / '|' / newline become BREAK nodes. Not decided: parser libraries' entity tables, nesting, whitespace.",
    note="Trusted: the reference WebVTT tag language in the check; html.parser calls the handlers as documented."),
 "C07": dict(technique="taint abstract interpretation over ALL model strings to raw sinks; flag-automaton (typestate) extraction of the span routine; dominance/ordering path rules",
    text="Decides: every model string (text, style values, class names, style ids, language codes, the force option) reaching a raw sink of DFXPWriter / SinglePositioningDFXPWriter / LegacyDFXPWriter is escaped exactly once for that sink's context (hand-written double-quoted attributes need \" too; quoteattr is summarised as escaping & < > only); the span routine's extracted (state x input)->(tokens,state) table alternates <span>/</span> for EVERY node sequence; style= / region= references are written only after the lookup of that id in the document; every positioning query marks its region, create->queries->cleanup->serialise, clean-up iterates a materialised list; one div per language and one p(begin,end) per caption. Not decided: id uniqueness/NCName-ness, XML character range.",
    note="Trusted: as C03; the region bookkeeping of bs4 find()."),
 "C08": dict(technique="sibling cross-checks between each writer and the reader of the same format (language inclusion, exactness kinds, inverse tables)",
    text="Decides only the pairwise agreement clauses: the stamp language every writer prints is inside what its reader accepts (DFXP, WebVTT stamp and timing line, MicroDVD line, SRT fields, SAMI integers); the readers are exact on the writers' grid (no truncation of twice-rounded floats in SRT/MicroDVD, same default frame rate on both sides, the MicroDVD rate header needs BOTH fields 0); WebVTT encode/decode tables are mutual inverses with '&' first/last; style vocabularies agree. Equality after a chain and idempotence are NOT decided.",
    note="Trusted: as C01-C04."),
 "C09": dict(technique="interprocedural effect analysis (ownership regions, per-call state, shared-object mutation, set-order flows) by abstract interpretation of every writer's write()",
    text="Decides, for the nine discovered writers: no mutation site is reachable whose receiver may be reachable from the caption-set argument (deepcopy moves the name to a COPY region; copy hooks on model classes are forbidden), no writer attribute written or mutated during write() is read in its left-over value, no module-/class-level object is mutated, no hash-ordered set is iterated into the output, no clock/random/environment call; geometry methods never store through self/parameters/aliases. Byte identity across processes as such is not decided.",
    note="Trusted: deepcopy semantics; bs4/lxml serialise deterministically; calls the analysis cannot resolve are havocked and counted (0 on the pinned tree)."),
 "C11": dict(technique="table folds of the style vocabularies, flag-automaton product with the flat-span grammar, ordering rules on the italics pipeline",
    text="Decides: italics/bold/underline map to the same CSS property / TTML attribute / WebVTT tag on the writer and reader side (folded over the finite key set); the extracted span automata of DFXPWriter, LegacyDFXPWriter and SAMIWriter (with its helper inlined) stay balanced on every word of the flat-span grammar (start end)*; WebVTT closes tags in reverse order at node level (cue grouping folded on every combination of the three styles) and cue level; SCC nodes leave a buffer only through _format_italics, and that pipeline - folded from source on every node sequence up to length 4 (6 in the thorough tier) over {italics on, italics off, text, break, reposition} - yields balanced spans, no repositioning inside a span, all texts in order, each italic exactly when it was sent while italics were on; style resolution mutates no shared object and translates every inline declaration. Not decided: that the same characters are styled after a trip.",
    note="Trusted: -"),
 "C14": dict(technique="set-order effect analysis + def-use identity of language labels + structural fallback/neighbour rules",
    text="Decides: no reader or writer iterates a hash-ordered set of languages; inside every language loop the caption lookup and the label use the loop's own language variable; a DFXP div without xml:lang falls back to a loop-invariant value computed from tt/xml:lang then DEFAULT_LANGUAGE_CODE; force selects only a present language; WebVTT's lang option is replaced only when None; a SAMI sync for a secondary language is inserted after the last earlier / before the first later sync. SAMI sync ordering for arbitrary interleavings is not decided.",
    note="Trusted: dict preserves insertion order."),
})
CLAIMED += ["C03", "C04", "C07", "C08", "C09", "C11", "C14"]

def main():
    props = [json.loads(l) for l in open(f"{V}/properties.jsonl")]
    checks, na = [], []
    for p in props:
        i = p["id"]
        if i in CLAIMED and os.path.exists(f"{V}/sa/props/{i.lower()}.py"):
            m = META[i]
            checks.append({
                "property_id": i,
                "quick_cmd": f"./check {i} --tier quick",
                "thorough_cmd": f"./check {i} --tier thorough",
                "evidence_file": f"/verif/evidence/{i}.json",
                "replay_cmd_template": f"./check {i} --replay {{path}}",
                "engine": "sa",
                "technique": m["technique"],
                "level_claimed": {"category": "other", "text": m["text"], "design_ref": f"DESIGN.md section 4, {i}"},
                "level_note": m["note"],
            })
        else:
            na.append({"property_id": i, "reason": META.get(i, {}).get("na") or
                       "check not built yet in this session (see DESIGN.md section 4 for the planned static rules)"})
    man = {
        "version": 1,
        "setup_cmd": "true",
        "hooks": {"guard": "PYCAPTION_VERIF",
                  "enable": "none: static analysis reads /repo/pycaption/**/*.py as text; no hooks or instrumentation exist",
                  "baseline_off_cmd": "cd /repo && /venv/bin/python -m pytest -q -p no:cacheprovider --timeout=900 --continue-on-collection-errors",
                  "source_commits": [], "add_only": True},
        "engines": [{"name": "sa", "path": "/verif/sa", "serves_properties": sorted(CLAIMED),
                     "kind_free_text": "repository-specific static analysis: ast index/call resolution, constant folding, "
                                       "symbolic linear forms, regular-language engine, effect/taint abstract interpretation, path rules"}],
        "checks": checks,
        "notes": "Static analysis only (ast, re._parser; pycaption is never imported or run by a check). Exit 0/1 per the "
                 "interface; exit 2 + 'ANALYSIS-ERROR' = the analysis cannot give a verdict (anchor vanished / unsupported "
                 "construct) - never a property verdict. Known findings: /verif/known_findings.json. See DESIGN.md.",
        "not_applicable": na,
    }
    json.dump(man, open(f"{V}/MANIFEST.json", "w"), indent=1)
    print("checks:", [c["property_id"] for c in checks], "na:", len(na))

main()
