#!/venv/bin/python
"""Development aid: generic mutants that pass the pinned suite (mut_tests.py) and were not reported by the
check they were generated under - are they reported by ANY of the 20 checks?  Lists the true survivors.
usage: mut_allchecks.py   (reads /tmp/mut_tests_*.txt and /tmp/mutants/*/ ; writes /tmp/mut_survivors.txt)"""
import glob, json, os, re, sys
sys.path.insert(0, "/verif")
from concurrent.futures import ProcessPoolExecutor
PROPS = [f"C{i:02d}" for i in range(1, 21)]


def job(m):
    from sa.core.tree import SourceTree
    from sa.cli import run_property
    from sa.core import report as rep
    from sa.core.tree import AnalysisError
    tree = SourceTree.load("/repo").overlay({m["path"]: m["src"]})
    by, refused = [], []
    for p in PROPS:
        try:
            r = run_property(p, tree)
            new, known, stale = rep.split_violations(r)
            if new:
                by.append(p)
            elif r.analysis_errors:
                refused.append(p)
        except AnalysisError:
            refused.append(p)
        except Exception:
            refused.append(p + "!")
    return m["path"], m["desc"], by, refused


def main():
    wanted = set()
    for f in glob.glob("/tmp/mut_tests_C*.txt"):
        for line in open(f):
            mm = re.match(r"PASSES-TESTS (\S+) (.*)$", line.strip())
            if mm:
                wanted.add((mm.group(1), mm.group(2)))
    muts = {}
    for f in glob.glob("/tmp/mutants/*/*.json"):
        m = json.load(open(f))
        k = (m["path"], m["desc"])
        if k in wanted and k not in muts:
            muts[k] = m
    print(len(muts), "distinct test-passing mutants")
    with ProcessPoolExecutor(16) as ex:
        res = list(ex.map(job, muts.values(), chunksize=2))
    with open("/tmp/mut_survivors.txt", "w") as f:
        surv = [r for r in res if not r[2]]
        f.write(f"test-passing mutants={len(res)} reported by some check={len(res) - len(surv)} "
                f"refused only={sum(1 for r in surv if r[3])} silent everywhere={sum(1 for r in surv if not r[3])}\n")
        for path, desc, by, refused in sorted(res):
            tag = "REPORTED " + ",".join(by) if by else ("REFUSED " + ",".join(refused) if refused else "SILENT")
            f.write(f"{tag:30s} {path} {desc}\n")
    print(open("/tmp/mut_survivors.txt").readline())


main()
