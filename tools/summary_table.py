#!/venv/bin/python
"""seeded/LAST_RUN.txt -> the per-property summary table of DESIGN.md 0.8 (markdown on stdout)"""
import re, collections
rows = collections.OrderedDict()
for line in open("/verif/seeded/LAST_RUN.txt"):
    m = re.match(r"(C\d\d)-(\S+)\s+(CAUGHT|missed|ERROR2|OBSOLETE)\s*(?:by=(\S+)\s+err=(\S+))?", line)
    if not m:
        continue
    prop, mid, status, by, err = m.groups()
    r = rows.setdefault(prop, {"n": 0, "rep": 0, "own": 0, "other": [], "refused": [], "missed": [], "obsolete": []})
    if status == "OBSOLETE":
        r["obsolete"].append(mid)
        continue
    r["n"] += 1
    bys = [] if by in (None, "-") else by.split(",")
    if status == "CAUGHT":
        r["rep"] += 1
        if prop in bys:
            r["own"] += 1
        else:
            r["other"].append(f"{mid} ({', '.join(bys)})")
    elif status == "ERROR2":
        r["refused"].append(mid)
    else:
        r["missed"].append(mid)
print("| property | reported / seeded | by own check | only by another property's check | refused (exit 2) | silent |")
print("|----------|-------------------|--------------|----------------------------------|------------------|--------|")
tot = collections.Counter()
for prop, r in rows.items():
    print(f"| {prop} | {r['rep']} / {r['n']} | {r['own']} | {'; '.join(r['other']) or '—'} | {', '.join(r['refused']) or '—'} | {', '.join(r['missed']) or '—'} |")
    tot.update({"n": r["n"], "rep": r["rep"], "own": r["own"], "other": len(r["other"]), "refused": len(r["refused"]), "missed": len(r["missed"]),
                "obsolete": len(r["obsolete"])})
print(f"| all | {tot['rep']} / {tot['n']} | {tot['own']} | {tot['other']} | {tot['refused']} | {tot['missed']} |")
print(f"\n({tot['obsolete']} further patches are marked obsolete: no longer property-breaking on the repaired tree.)")
