#!/venv/bin/python
"""Run checks against the behaviour-preserving twins in /verif/twins.
Usage: twin_run.py [--props C01,C04] [twin-id ...]  (default: all checks x all twins)
A twin must never produce a violation; exit 2 (ANALYSIS-ERROR) is tolerated but reported."""
import json, os, shutil, subprocess, sys, tempfile
from concurrent.futures import ThreadPoolExecutor
V = os.environ.get("VERIF_DIR", "/verif")
PROPS = [f"C{i:02d}" for i in range(1, 21)]


def one(tid, props):
    d = f"{V}/twins/{tid}"
    tmp = tempfile.mkdtemp(prefix="twin-", dir="/tmp")
    try:
        shutil.copytree("/repo/pycaption", f"{tmp}/pycaption")
        r = subprocess.run(["git", "apply", "--unsafe-paths", f"--directory={tmp}", f"{d}/patch.diff"],
                           cwd=tmp, capture_output=True, text=True)
        if r.returncode:
            r = subprocess.run(["patch", "-p1", "-d", tmp, "-i", f"{d}/patch.diff"], capture_output=True, text=True)
            if r.returncode:
                return tid, [("apply", "FAILED", r.stdout + r.stderr)]
        out = []
        for p in props:
            env = dict(os.environ, VERIF_REPO=tmp, VERIF_EVIDENCE_DIR=f"{tmp}/ev")
            c = subprocess.run([f"{V}/check", p], capture_output=True, text=True, env=env, timeout=900)
            if c.returncode != 0:
                lines = [l for l in c.stdout.splitlines() if l.startswith(("VIOLATION", "ANALYSIS-ERROR", "  "))][:6]
                out.append((p, c.returncode, "\n".join(lines)))
        return tid, out
    finally:
        shutil.rmtree(tmp, ignore_errors=True)


def main():
    args = sys.argv[1:]
    props = PROPS
    if args and args[0] == "--props":
        props = args[1].split(","); args = args[2:]
    ids = args or sorted(d for d in os.listdir(f"{V}/twins") if os.path.isdir(f"{V}/twins/{d}"))
    def _obsolete(t):
        try:
            return bool(json.load(open(f"{V}/twins/{t}/meta.json")).get("obsolete"))
        except (OSError, ValueError):
            return False
    for t in [t for t in ids if _obsolete(t)]:
        print(f"{t}: OBSOLETE (see meta.json)")
    ids = [t for t in ids if not _obsolete(t)]
    fa = e2 = 0
    with ThreadPoolExecutor(int(os.environ.get("TWIN_JOBS", "8"))) as ex:
        for tid, out in ex.map(lambda t: one(t, props), ids):
            if not out:
                print(f"{tid}: silent"); continue
            for p, rc, txt in out:
                kind = "FALSE-ALARM" if rc == 1 else f"exit{rc}"
                fa += rc == 1; e2 += rc != 1
                print(f"{tid}: {p} {kind}\n{txt}")
    print(f"false alarms={fa} other-nonzero={e2} twins={len(ids)}")
    sys.exit(1 if fa else 0)


main()
