#!/venv/bin/python
"""Run every check on every silent twin (scratch copies); a VIOLATION is a false alarm, exit 2 an unrecognised shape."""
import os, shutil, subprocess, sys, glob, tempfile
from concurrent.futures import ThreadPoolExecutor
V = "/verif"
props = sorted(os.path.basename(p)[:-3].upper() for p in glob.glob(f"{V}/sa/props/c[0-9][0-9].py"))
only = sys.argv[1:]
def run(t):
    d = tempfile.mkdtemp(prefix="twinrun_")
    try:
        shutil.copytree("/repo/pycaption", os.path.join(d, "pycaption"))
        p = subprocess.run(f"patch -p1 --no-backup-if-mismatch -s < {V}/twins/{t}/patch.diff", cwd=d, shell=True, capture_output=True, text=True)
        if p.returncode != 0:
            return t, {"_": "DOES NOT APPLY"}
        env = dict(os.environ, VERIF_REPO=d, VERIF_EVIDENCE_DIR=os.path.join(d, "ev"))
        res = {}
        for pr in props:
            r = subprocess.run([f"{V}/check", pr], capture_output=True, text=True, env=env)
            if r.returncode != 0:
                lines = [l.strip() for l in r.stdout.splitlines() if l.startswith("  R-") or l.startswith("ANALYSIS-ERROR")]
                res[pr] = (r.returncode, lines[:2])
        return t, res
    finally:
        shutil.rmtree(d, ignore_errors=True)
twins = sorted(os.path.basename(p) for p in glob.glob(f"{V}/twins/*"))
if only: twins = [t for t in twins if t in only or t.split('-')[0] in only]
with ThreadPoolExecutor(8) as ex:
    results = list(ex.map(run, twins))
fa = er = 0
for t, res in results:
    if not res:
        print(f"{t:8s} silent"); continue
    for pr, v in res.items():
        if pr == "_": print(f"{t:8s} {v}"); continue
        rc, lines = v
        fa += rc == 1; er += rc == 2
        print(f"{t:8s} {pr} {'FALSE-ALARM' if rc == 1 else 'exit2'}")
        for l in lines: print("          ", l[:230])
print(f"twins={len(results)} false_alarms={fa} exit2={er}")
