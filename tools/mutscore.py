#!/venv/bin/python
"""Development aid: run a property's check on EVERY generic single-site AST mutant inside the functions the
check covers (not the capped sample of the thorough tier) and list the survivors for triage.
usage: mutscore.py C05 [C06 ...]   -> /tmp/mutscore_<prop>.txt"""
import sys, os, time
sys.path.insert(0, "/verif")
from concurrent.futures import ProcessPoolExecutor
from sa.core.tree import SourceTree
from sa.cli import run_property
from sa import selfval_impl as SV


def main():
    for prop in sys.argv[1:]:
        t0 = time.time()
        tree = SourceTree.load(os.environ.get("VERIF_REPO", "/repo"))
        rep = run_property(prop, tree)
        muts, total = SV.generic_mutants(tree, sorted(rep.analysed), 0, 10 ** 6)
        with ProcessPoolExecutor(max_workers=16) as ex:
            res = list(ex.map(SV._generic_job, [(prop, tree.files, p, s) for p, d, s in muts], chunksize=4))
        import json, shutil
        d = f"/tmp/mutants/{prop}"
        shutil.rmtree(d, ignore_errors=True)
        os.makedirs(d)
        for n, ((p, desc, srcx), r) in enumerate(zip(muts, res)):
            if r["status"] == "clean":
                json.dump({"path": p, "desc": desc, "src": srcx}, open(f"{d}/{n:04d}.json", "w"))
        fired = {}
        for r in res:
            for ru in r.get("rules", []):
                fired[ru] = fired.get(ru, 0) + 1
        json.dump(fired, open(f"/verif/seeded/generic_fired_{prop}.json", "w"), indent=1, sort_keys=True)
        with open(f"/tmp/mutscore_{prop}.txt", "w") as f:
            k = sum(1 for r in res if r["status"] == "violation")
            e = sum(1 for r in res if r["status"] == "analysis-error")
            f.write(f"{prop}: sites={len(muts)} reported={k} refused={e} survived={len(muts) - k - e}\n")
            for (p, d, s), r in zip(muts, res):
                if r["status"] == "clean":
                    f.write(f"SURVIVED {p} {d}\n")
            for (p, d, s), r in zip(muts, res):
                if r["status"] == "analysis-error":
                    f.write(f"REFUSED  {p} {d} :: {r.get('detail', '')[:100]}\n")
        print(open(f"/tmp/mutscore_{prop}.txt").readline().strip(), f"({time.time() - t0:.0f}s)")


main()
