#!/venv/bin/python
"""sa/spec/anchor_fingerprints.json: per private routine of pycaption a digest of its body with private names anonymised
(sa/core/tree.py, anchor relocation).  Regenerate ONLY when the rules are re-anchored on a new pinned tree."""
import ast, json, os, sys
sys.path.insert(0, "/verif")
from sa.core.tree import SourceTree, fingerprint, scopes_of, _private, class_shape
t = SourceTree.load(os.environ.get("VERIF_REPO", "/repo"))
out = {}
for rel in sorted(t.files):
    tree = ast.parse(t.files[rel])
    for scope, fns in scopes_of(tree).items():
        for name, f in fns.items():
            if _private(name):
                out.setdefault(rel, {}).setdefault(scope, {})[name] = fingerprint(f)
    for st in tree.body:
        if isinstance(st, ast.ClassDef):
            fp, names = class_shape(st)
            if names:
                out.setdefault("__classes__", {}).setdefault(rel, {})[st.name] = {"fp": fp, "names": names}
json.dump(out, open("/verif/sa/spec/anchor_fingerprints.json", "w"), indent=1, sort_keys=True)
print(sum(len(f) for r, s in out.items() if r != "__classes__" for f in s.values()), "private routines;", sum(len(c) for c in out.get("__classes__", {}).values()), "classes")
