#!/bin/sh
# usage: seed_rebase.sh <mutant-id> <file> <python-replace-script>
# Re-creates seeded/<id>/patch.diff against /repo HEAD by applying a textual edit (old->new strings read
# from a python snippet on stdin defining `edits=[(old,new),...]`), then re-verifies suite + demo.
set -e
ID=$1; FILE=$2
D=$(mktemp -d /tmp/rebase_XXXX)
git -C /repo archive HEAD | tar -x -C $D
cd $D
cp $FILE $FILE.orig
/venv/bin/python - "$FILE" <<PY
import sys
exec(open('/tmp/edits.py').read())
p=sys.argv[1]; s=open(p).read()
for a,b in edits:
    assert s.count(a)==1,(a,s.count(a))
    s=s.replace(a,b)
open(p,'w').write(s)
PY
diff -u $FILE.orig $FILE | sed "s#^--- $FILE.orig.*#--- a/$FILE#; s#^+++ $FILE.*#+++ b/$FILE#" > /tmp/new.patch || true
rm $FILE.orig
/venv/bin/python -m pytest -q -p no:cacheprovider --timeout=900 --continue-on-collection-errors 2>&1 | tail -1
cp /verif/seeded/$ID/demo.py _demo.py
/venv/bin/python _demo.py > /tmp/demo_mut.txt 2>&1 && echo "DEMO PASSES WITH MUTANT (bad)" || echo "demo fails with mutant (good): $?"
patch -R -p1 < /tmp/new.patch > /dev/null
/venv/bin/python _demo.py > /dev/null 2>&1 && echo "demo passes clean (good)" || echo "DEMO FAILS CLEAN (bad)"
cp /tmp/new.patch /verif/seeded/$ID/patch.diff
cd /; rm -rf $D
