#!/venv/bin/python
"""Verify mutants produced by sub-agents and store the good ones under /verif/seeded/<id>/.

For each /tmp/wt/<P>/out/mN: copy /repo's working tree to a scratch dir, apply the
patch, run the pinned suite (must stay 217 passed + 2 collection errors), run the
demo (must exit 1), undo, run the demo (must exit 0).
"""
import json, os, shutil, subprocess, sys, glob, re

SRC = os.environ.get("SEED_SRC", "/tmp/wt")
PREFIX = os.environ.get("SEED_PREFIX", "")     # e.g. "r2" -> ids Cxx-r2mN
OUT = "/verif/seeded"
PY = "/venv/bin/python"


def sh(cmd, cwd, timeout=900):
    p = subprocess.run(cmd, cwd=cwd, shell=True, capture_output=True, text=True, timeout=timeout)
    return p.returncode, p.stdout + p.stderr


def scratch():
    d = "/tmp/seedscratch_%d_%s" % (os.getpid(), os.environ.get("SEED_SHARD", "0"))
    if os.path.exists(d):
        shutil.rmtree(d)
    os.makedirs(d)
    sh("git -C /repo archive HEAD | tar -x -C %s" % d, "/")
    return d


def main():
    only = sys.argv[1:]
    for mdir in sorted(glob.glob(f"{SRC}/C*/out/m*")):
        prop = mdir.split("/")[3]
        mid = f"{prop}-{PREFIX}{os.path.basename(mdir)}"
        if only and prop not in only and mid not in only:
            continue
        dest = os.path.join(OUT, mid)
        if os.path.exists(os.path.join(dest, "meta.json")) and not only:
            continue
        patch = os.path.join(mdir, "patch.diff")
        demo = os.path.join(mdir, "demo.py")
        if not (os.path.exists(patch) and os.path.exists(demo)):
            print(mid, "SKIP missing files"); continue
        d = scratch()
        try:
            rc, out = sh(f"patch -p1 --no-backup-if-mismatch < {patch}", d)
            if rc != 0:
                print(mid, "PATCH DOES NOT APPLY on current HEAD:", out[-300:]); continue
            rc, out = sh(f"{PY} -m pytest -q -p no:cacheprovider --timeout=900 --continue-on-collection-errors 2>&1 | tail -3", d)
            m = re.search(r"(\d+) passed", out)
            e = re.search(r"(\d+) error", out)
            f = re.search(r"(\d+) failed", out)
            suite = (int(m.group(1)) if m else 0, int(e.group(1)) if e else 0, int(f.group(1)) if f else 0)
            shutil.copy(demo, os.path.join(d, "_demo.py"))
            rc_mut, out_mut = sh(f"{PY} _demo.py", d)
            sh(f"patch -R -p1 < {patch}", d)
            rc_clean, out_clean = sh(f"{PY} _demo.py", d)
            ok = suite == (217, 2, 0) and rc_mut == 1 and rc_clean == 0
            print(mid, "OK" if ok else "REJECT", "suite", suite, "demo_mut", rc_mut, "demo_clean", rc_clean)
            if not ok:
                print("   mut:", out_mut[-300:].replace("\n", " | "))
                print("   clean:", out_clean[-300:].replace("\n", " | "))
                continue
            os.makedirs(dest, exist_ok=True)
            shutil.copy(patch, os.path.join(dest, "patch.diff"))
            shutil.copy(demo, os.path.join(dest, "demo.py"))
            meta = {}
            try:
                meta = json.load(open(os.path.join(mdir, "meta.json")))
            except Exception:
                pass
            head = subprocess.check_output(["git", "-C", "/repo", "log", "-1", "--format=%h"]).decode().strip()
            meta.update({
                "id": mid, "property": prop, "origin": "fresh sub-agent given only the property text and a scratch worktree",
                "verified_on_repo_commit": head,
                "what_i_ran": [
                    "scratch copy of /repo HEAD; patch -p1 < patch.diff",
                    "pinned suite: %d passed, %d collection errors, %d failed" % suite,
                    "demo.py with patch: exit %d; without patch: exit %d" % (rc_mut, rc_clean)],
                "demo_output_with_patch": out_mut[-600:],
            })
            json.dump(meta, open(os.path.join(dest, "meta.json"), "w"), indent=1, ensure_ascii=False)
        finally:
            shutil.rmtree(d, ignore_errors=True)


main()
