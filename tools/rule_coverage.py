#!/venv/bin/python
"""Which rules have been SEEN FIRING?  Runs every check on every seeded patch (scratch copies) and
records, per (check, rule), the seeded variants on which that rule reported a new violation; rules of
the unchanged tree that never fired on any variant are listed (a rule that cannot fire is worthless).
Writes /verif/seeded/RULE_COVERAGE.json."""
import glob, json, os, shutil, subprocess, sys, tempfile
sys.path.insert(0, "/verif")
from concurrent.futures import ProcessPoolExecutor
PROPS = [f"C{i:02d}" for i in range(1, 21)]


def job(vid):
    from sa.core.tree import SourceTree, AnalysisError
    from sa.cli import run_property
    from sa.core import report as rep
    d = tempfile.mkdtemp(prefix="rulecov_")
    try:
        shutil.copytree("/repo/pycaption", os.path.join(d, "pycaption"))
        p = subprocess.run(f"patch -p1 -s --no-backup-if-mismatch < /verif/seeded/{vid}/patch.diff", cwd=d, shell=True,
                           capture_output=True)
        if p.returncode:
            return vid, None
        os.environ["VERIF_REPO"] = d
        tree = SourceTree.load(d)
        out = {}
        for pr in PROPS:
            try:
                r = run_property(pr, tree)
                new, known, stale = rep.split_violations(r)
                for inst in new:
                    out.setdefault(pr, set()).add(inst.rule)
            except Exception:
                pass
        return vid, {k: sorted(v) for k, v in out.items()}
    finally:
        shutil.rmtree(d, ignore_errors=True)


def main():
    from sa.core.tree import SourceTree
    from sa.cli import run_property
    base = SourceTree.load("/repo")
    rules = {}
    for pr in PROPS:
        r = run_property(pr, base)
        rules[pr] = sorted({i.rule for i in r.instances})
    vids = sorted(os.path.basename(os.path.dirname(p)) for p in glob.glob("/verif/seeded/C*/patch.diff"))
    with ProcessPoolExecutor(16) as ex:
        res = dict(ex.map(job, vids))
    fired = {}
    for vid, d in res.items():
        for pr, rs in (d or {}).items():
            for ru in rs:
                fired.setdefault(pr, {}).setdefault(ru, []).append(vid)
    # rules also seen firing on generic single-site mutants (tools/mutscore.py writes these)
    generic = {}
    for pr in PROPS:
        f = f"/verif/seeded/generic_fired_{pr}.json"
        if os.path.exists(f):
            generic[pr] = json.load(open(f))
    never = {pr: [ru for ru in rules[pr] if ru not in fired.get(pr, {}) and ru not in generic.get(pr, {})] for pr in PROPS}
    json.dump({"rules_on_the_unchanged_tree": rules, "fired_on_seeded_variants": fired,
               "fired_on_generic_mutants (count)": generic, "never_seen_firing": never},
              open("/verif/seeded/RULE_COVERAGE.json", "w"), indent=1, sort_keys=True)
    tot = sum(len(v) for v in rules.values())
    nv = sum(len(v) for v in never.values())
    print(f"rules={tot} seen firing={tot - nv} never seen firing={nv}")
    for pr in PROPS:
        if never[pr]:
            print(pr, never[pr])


main()
