#!/venv/bin/python
"""Development aid: which generic mutants that a check does NOT report also pass the pinned test suite?
Those are the realistic undetected changes worth triaging for property relevance.
usage: mut_tests.py C05 ...   reads /tmp/mutants/<prop>/*.json (written by mutscore.py), writes /tmp/mut_tests_<prop>.txt"""
import glob, json, os, shutil, subprocess, sys
from concurrent.futures import ThreadPoolExecutor
import threading

N = 16
pool = []
lock = threading.Lock()


def worker_dir(k):
    d = f"/tmp/mutw_{k}"
    if not os.path.exists(d):
        os.makedirs(d)
        subprocess.run(f"git -C /repo archive HEAD | tar -x -C {d}", shell=True, check=True)
    return d


def run(job):
    with lock:
        k = pool.pop()
    try:
        d = worker_dir(k)
        m = json.load(open(job))
        target = os.path.join(d, m["path"])
        orig = open(target).read()
        open(target, "w").write(m["src"])
        try:
            p = subprocess.run(["/venv/bin/python", "-m", "pytest", "-q", "-p", "no:cacheprovider", "--timeout=120",
                                "--continue-on-collection-errors"], cwd=d, capture_output=True, text=True, timeout=600)
            tail = p.stdout.strip().splitlines()[-1] if p.stdout.strip() else ""
        except subprocess.TimeoutExpired:
            tail = "timeout"
        finally:
            open(target, "w").write(orig)
        ok = "217 passed" in tail and "failed" not in tail
        return job, m, ok, tail
    finally:
        with lock:
            pool.append(k)


def main():
    pool.extend(range(N))
    for prop in sys.argv[1:]:
        jobs = sorted(glob.glob(f"/tmp/mutants/{prop}/*.json"))
        with ThreadPoolExecutor(N) as ex:
            res = list(ex.map(run, jobs))
        with open(f"/tmp/mut_tests_{prop}.txt", "w") as f:
            passing = [(m, t) for j, m, ok, t in res if ok]
            f.write(f"{prop}: unreported mutants={len(res)} of which pass the pinned suite={len(passing)}\n")
            for m, t in passing:
                f.write(f"PASSES-TESTS {m['path']} {m['desc']}\n")
        print(open(f"/tmp/mut_tests_{prop}.txt").readline().strip())
    for k in range(N):
        shutil.rmtree(f"/tmp/mutw_{k}", ignore_errors=True)


main()
