"""Command line: ./check <ID> [--tier quick|thorough]

Exit 0: every rule instance OK or a listed known finding.
Exit 1: a new violation (a line `VIOLATION property=<id> replay=<path>` is printed).
Exit 2: ANALYSIS-ERROR - the analysis could not give a verdict (never a property verdict).
"""
import argparse
import importlib
import os
import sys
import time
import traceback

from .core.tree import SourceTree, AnalysisError
from .core.index import Index
from .core import report as rep


class Ctx:
    def __init__(self, tree, tier="quick", seed=0, only=None):
        self.tree = tree
        self.index = Index(tree)
        self.tier = tier
        self.seed = seed
        self.only = only
        self._cache = {}

    def memo(self, key, fn):
        if key not in self._cache:
            self._cache[key] = fn()
        return self._cache[key]


def run_property(prop_id, tree, tier="quick", seed=0, only=None):
    mod = importlib.import_module(f"sa.props.{prop_id.lower()}")
    ctx = Ctx(tree, tier, seed, only)
    report = rep.Report(prop_id)
    mod.run(ctx, report)
    return report


def main(argv=None):
    ap = argparse.ArgumentParser()
    ap.add_argument("prop")
    ap.add_argument("--tier", default=os.environ.get("VERIF_TIER", "quick"))
    ap.add_argument("--only", default=None)
    ap.add_argument("--replay", default=None)
    args = ap.parse_args(argv)
    tier = args.tier if args.tier in ("quick", "thorough") else "quick"
    try:
        seed = int(os.environ.get("VERIF_SEED", "0"))
    except ValueError:
        seed = 0
    t0 = time.time()
    prop = args.prop.upper()
    try:
        tree = SourceTree.load()
        report = run_property(prop, tree, tier, seed, args.only)
        selfval = None
        if tier == "thorough":
            from .selfval import run_selfval
            selfval = run_selfval(prop, tree, report, seed)
        status = rep.finalize(report, tier, seed, t0, selfval=selfval)
        if selfval is not None and selfval.get("failures"):
            for f in selfval["failures"][:20]:
                print(f"ANALYSIS-ERROR: property={prop} self-validation: {f}")
            if status == 0:
                status = 2
        return status
    except AnalysisError as e:
        print(f"ANALYSIS-ERROR: property={prop} {e}")
        return 2
    except Exception:
        traceback.print_exc()
        print(f"ANALYSIS-ERROR: property={prop} internal error in the checker (see traceback)")
        return 2


class _SafeOut:
    """stdout that survives a reader closing the pipe early (`| head`): the verdict is the exit status"""

    def __init__(self, f):
        self.f = f
        self.dead = False

    def write(self, s):
        if not self.dead:
            try:
                return self.f.write(s)
            except BrokenPipeError:
                self.dead = True
        return len(s)

    def flush(self):
        if not self.dead:
            try:
                self.f.flush()
            except BrokenPipeError:
                self.dead = True

    def __getattr__(self, k):
        return getattr(self.f, k)


if __name__ == "__main__":
    sys.stdout.reconfigure(line_buffering=True)
    sys.stdout = _SafeOut(sys.stdout)
    code = main()
    sys.stdout.flush()
    os._exit(code)
