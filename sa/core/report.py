"""Verdict protocol, known findings, evidence files."""
import json
import os
import time

VERIF_DIR = os.path.dirname(os.path.dirname(os.path.dirname(os.path.abspath(__file__))))
KNOWN_FINDINGS = os.path.join(VERIF_DIR, "known_findings.json")
EVIDENCE_DIR = os.environ.get("VERIF_EVIDENCE_DIR") or os.path.join(VERIF_DIR, "evidence")


class Instance:
    __slots__ = ("rule", "module", "qualname", "construct", "verdict", "detail", "line", "clause")

    def __init__(self, rule, module, qualname, construct, verdict, detail=None, line=None, clause=None):
        self.rule = rule
        self.module = module
        self.qualname = qualname
        self.construct = construct
        self.verdict = verdict      # OK | VIOLATION | INFO
        self.detail = detail
        self.line = line
        self.clause = clause

    def key(self):
        return (self.rule, self.module, self.qualname, self.construct)

    def as_dict(self):
        d = {"rule": self.rule, "module": self.module, "qualname": self.qualname,
             "construct": self.construct, "verdict": self.verdict}
        if self.line is not None:
            d["line"] = self.line
        if self.clause is not None:
            d["clause"] = self.clause
        if self.detail is not None:
            d["detail"] = self.detail
        return d

    def where(self):
        loc = f"{self.module}"
        if self.line:
            loc += f":{self.line}"
        return f"{loc} {self.qualname}"


class Report:
    def __init__(self, prop_id):
        self.prop_id = prop_id
        self.instances = []
        self.assumptions = []
        self.analysed = {}      # function key -> note
        self.notes = []
        self.not_decided = []
        self.counters = {}
        self.analysis_errors = []

    def section(self, name, func, *args, **kw):
        """Run one part of a property's analysis; an AnalysisError in it is
        recorded (exit 2 unless a violation is reported elsewhere) instead of
        hiding what the other parts found."""
        from .tree import AnalysisError
        try:
            return func(*args, **kw)
        except AnalysisError as e:
            self.analysis_errors.append(f"{name}: {e}")
            return None

    def structural_section(self, name, decided_by, func, *args, **kw):
        """A part whose rules recognise one SPELLING of a routine, for a clause that a fold decides on its own (named in
        `decided_by`).  When the spelling is not recognised the part is skipped with an INFO instance - the clause is
        still decided - instead of refusing the whole property."""
        from .tree import AnalysisError
        try:
            return func(*args, **kw)
        except AnalysisError as e:
            self._add("INFO", "R-STRUCTURE", ("pycaption", name), f"{name}: structural rules skipped (spelling not recognised)",
                      {"reason": str(e)[:300], "clause_decided_by": decided_by}, None)
            return None
        except (TypeError, AttributeError, IndexError, KeyError, ValueError) as e:
            # the recogniser tripped over a shape it was not written for: the same as "not recognised"
            self._add("INFO", "R-STRUCTURE", ("pycaption", name), f"{name}: structural rules skipped (spelling not recognised)",
                      {"reason": f"recogniser: {type(e).__name__}: {e}"[:300], "clause_decided_by": decided_by}, None)
            return None

    def _add(self, verdict, rule, where, construct, detail=None, clause=None):
        module, qualname, line = _where(where)
        inst = Instance(rule, module, qualname, construct, verdict, detail, line, clause)
        self.instances.append(inst)
        return inst

    def ok(self, rule, where, construct, detail=None, clause=None):
        return self._add("OK", rule, where, construct, detail, clause)

    def violation(self, rule, where, construct, detail=None, clause=None):
        return self._add("VIOLATION", rule, where, construct, detail, clause)

    def info(self, rule, where, construct, detail=None, clause=None):
        return self._add("INFO", rule, where, construct, detail, clause)

    def check(self, cond, rule, where, construct, detail=None, clause=None):
        return (self.ok if cond else self.violation)(rule, where, construct, detail, clause)

    def recognise(self, cond, rule, where, construct, detail=None, clause=None):
        """for a rule that matches ONE spelling: an OK instance when the spelling is there, otherwise the part is not
        recognised (AnalysisError - to be used inside a structural_section, whose clause a fold decides)"""
        from .tree import AnalysisError
        if not cond:
            raise AnalysisError(f"{construct}: spelling not recognised")
        return self.ok(rule, where, construct, detail, clause)

    def assume(self, text):
        if text not in self.assumptions:
            self.assumptions.append(text)

    def covered(self, fn, note=""):
        key = fn if isinstance(fn, str) else fn.key
        self.analysed[key] = note

    def count(self, name, n=1):
        self.counters[name] = self.counters.get(name, 0) + n

    def violations(self):
        return [i for i in self.instances if i.verdict == "VIOLATION"]


def _where(where):
    """where: FunctionInfo | (module_path, qualname[, line]) | (FunctionInfo, node)"""
    if isinstance(where, tuple):
        if len(where) == 2 and hasattr(where[0], "qualname"):
            fn, node = where
            return fn.module.path, fn.qualname, getattr(node, "_orig_lineno", getattr(node, "lineno", None))
        if len(where) == 2:
            return where[0], where[1], None
        return where
    if hasattr(where, "qualname"):
        return where.module.path, where.qualname, getattr(where.node, "lineno", None)
    if hasattr(where, "path"):
        return where.path, "<module>", None
    return str(where), "", None


def load_known_findings():
    if not os.path.exists(KNOWN_FINDINGS):
        return {"findings": [], "fixed": []}
    with open(KNOWN_FINDINGS, encoding="utf-8") as fh:
        return json.load(fh)


def split_violations(report):
    """(new violations, [(instance, known-finding entry)], stale known keys)"""
    kf = load_known_findings()
    mine = [f for f in kf.get("findings", []) if f.get("property") == report.prop_id]
    known_keys = {}
    for f in mine:
        c = f["construct"]
        known_keys[(f["rule"], c["module"], c["qualname"], c["what"])] = f
    matched = set()
    new, known = [], []
    for inst in report.violations():
        k = inst.key()
        if k in known_keys:
            matched.add(k)
            known.append((inst, known_keys[k]))
        else:
            new.append(inst)
    return new, known, [k for k in known_keys if k not in matched]


def finalize(report, tier, seed, t0, extra_coverage=None, selfval=None, quiet=False):
    """Apply the known-findings file, print the verdict lines, write evidence.
    Returns the exit status (0 or 1; stale known findings -> 2)."""
    kf = load_known_findings()
    mine = [f for f in kf.get("findings", []) if f.get("property") == report.prop_id]
    known_keys = {}
    for f in mine:
        c = f["construct"]
        known_keys[(f["rule"], c["module"], c["qualname"], c["what"])] = f
    matched = set()
    new_violations = []
    known_hits = []
    for inst in report.violations():
        k = inst.key()
        if k in known_keys:
            matched.add(k)
            known_hits.append((inst, known_keys[k]))
        else:
            new_violations.append(inst)
    stale = [k for k in known_keys if k not in matched]

    os.makedirs(os.path.join(EVIDENCE_DIR, "replay"), exist_ok=True)
    lines = []
    for inst, f in known_hits:
        lines.append(f"KNOWN-FINDING: property={report.prop_id} {inst.rule} at {inst.where()}: "
                     f"{f.get('failing_input', inst.construct)}")
    replay_paths = []
    for n, inst in enumerate(new_violations, 1):
        path = os.path.join(EVIDENCE_DIR, "replay", f"{report.prop_id}-{n}.json")
        with open(path, "w", encoding="utf-8") as fh:
            json.dump({"property": report.prop_id, "instance": inst.as_dict(),
                       "replay_cmd": f"cd {VERIF_DIR} && ./check {report.prop_id} --only '{inst.rule}'"},
                      fh, indent=1, ensure_ascii=False, default=str)
        replay_paths.append(path)
        lines.append(f"  {inst.rule} [{inst.clause or '-'}] {inst.where()}: {inst.construct}"
                     + (f" -- {_short(inst.detail)}" if inst.detail is not None else ""))
        lines.append(f"VIOLATION property={report.prop_id} replay={path}")
    status = 1 if new_violations else 0
    for e in report.analysis_errors:
        lines.append(f"ANALYSIS-ERROR: property={report.prop_id} {e}")
    if report.analysis_errors and status == 0:
        status = 2
    if stale and status == 0:
        for k in stale:
            lines.append(f"ANALYSIS-ERROR: property={report.prop_id} known finding is stale "
                         f"(construct no longer violates or no longer exists): {k}")
        status = 2

    oks = [i for i in report.instances if i.verdict == "OK"]
    viols = report.violations()
    obligations = len(oks) + len(viols)
    distinct = len({i.key() for i in oks} | {i.key() for i in viols})
    samples = [i.as_dict() for i in (viols + oks)[:40]]
    by_rule = {}
    for i in report.instances:
        r = by_rule.setdefault(i.rule, {"OK": 0, "VIOLATION": 0, "INFO": 0})
        r[i.verdict] += 1
    coverage = {
        "explanation": ("static analysis of /repo/pycaption/**/*.py (ast, re._parser; nothing imported or "
                        "executed): every listed rule instance is an obligation evaluated on the current "
                        "source; a VIOLATION names the construct that breaks the rule"),
        "evaluations": len(report.instances),
        "distinct_nontrivial": distinct,
        "rule": ("one evaluation per (rule, construct); non-trivial = an obligation was actually computed "
                 "on the construct (OK or VIOLATION), informational instances excluded; distinct by "
                 "(rule, module, qualname, construct)"),
        "obligations": obligations,
        "discharged": len(oks),
        "known_findings_matched": [
            {"rule": i.rule, "where": i.where(), "construct": i.construct} for i, _ in known_hits],
        "per_rule": by_rule,
        "functions_analysed": sorted(report.analysed),
        "counters": report.counters,
        "analysis_errors": report.analysis_errors,
        "not_decided": report.not_decided,
        "notes": report.notes,
        "samples": samples,
        "all_instances": [i.as_dict() for i in report.instances][:400],
    }
    if extra_coverage:
        coverage.update(extra_coverage)
    if selfval is not None:
        coverage["self_validation"] = selfval
    ev = {
        "property_id": report.prop_id,
        "tier": tier,
        "seed": seed,
        "level": "other",
        "coverage": coverage,
        "assumptions": report.assumptions,
        "wall_s": round(time.time() - t0, 3),
        "violations": len(new_violations),
    }
    with open(os.path.join(EVIDENCE_DIR, f"{report.prop_id}.json"), "w", encoding="utf-8") as fh:
        json.dump(ev, fh, indent=1, ensure_ascii=False, default=str)
    if not quiet:
        print(f"[{report.prop_id}] tier={tier} instances={len(report.instances)} obligations={obligations} "
              f"discharged={len(oks)} known={len(known_hits)} new_violations={len(new_violations)} "
              f"functions={len(report.analysed)}")
        for r, c in sorted(by_rule.items()):
            print(f"    {r:28s} ok={c['OK']:3d} viol={c['VIOLATION']:2d} info={c['INFO']:2d}")
        for ln in lines:
            print(ln)
    return status


def _short(x, n=300):
    s = x if isinstance(x, str) else json.dumps(x, ensure_ascii=False, default=str)
    return s if len(s) <= n else s[: n - 3] + "..."
