"""Program index: modules, imports, classes (with MRO), functions, constants.

Everything is resolved from the ASTs of the SourceTree; nothing is imported.
"""
import ast

from .tree import AnalysisError, PACKAGE


class FunctionInfo:
    def __init__(self, node, module, cls=None, kind="function"):
        self.node = node
        self.name = node.name
        self.module = module          # ModuleInfo
        self.cls = cls                # ClassInfo or None
        self.kind = kind              # function|method|staticmethod|classmethod|property|setter
        self.qualname = f"{cls.name}.{node.name}" if cls else node.name

    @property
    def key(self):
        return f"{self.module.path}:{self.qualname}"

    @property
    def params(self):
        a = self.node.args
        return [x.arg for x in a.posonlyargs + a.args]

    def __repr__(self):
        return f"<fn {self.key}>"


class ClassInfo:
    def __init__(self, node, module):
        self.node = node
        self.name = node.name
        self.module = module
        self.methods = {}       # name -> FunctionInfo (property getter under its name)
        self.setters = {}       # name -> FunctionInfo
        self.class_attrs = {}   # name -> value expr
        self.bases = []         # ClassInfo | str (external dotted name)
        self._mro = None

    @property
    def key(self):
        return f"{self.module.path}:{self.name}"

    def __repr__(self):
        return f"<class {self.key}>"

    def mro(self):
        if self._mro is None:
            self._mro = _c3(self)
        return self._mro

    def find_method(self, name, after=None):
        """Resolve `name` along the MRO; with `after`, start after that class
        (super() semantics)."""
        mro = self.mro()
        start = 0
        if after is not None:
            start = mro.index(after) + 1
        for c in mro[start:]:
            if isinstance(c, ClassInfo) and name in c.methods:
                return c.methods[name]
        return None

    def find_class_attr(self, name):
        for c in self.mro():
            if isinstance(c, ClassInfo) and name in c.class_attrs:
                return c, c.class_attrs[name]
        return None, None

    def external_bases(self):
        return [c for c in self.mro() if isinstance(c, str)]

    def is_subclass_of(self, other):
        return other in self.mro()


def _c3(cls):
    def merge(seqs):
        res = []
        seqs = [list(s) for s in seqs if s]
        while seqs:
            for s in seqs:
                head = s[0]
                if not any(head in t[1:] for t in seqs):
                    break
            else:
                raise AnalysisError(f"inconsistent MRO for {cls.name}")
            res.append(head)
            seqs = [[x for x in s if x is not head and x != head] for s in seqs]
            seqs = [s for s in seqs if s]
        return res
    parents = []
    for b in cls.bases:
        parents.append(b.mro() if isinstance(b, ClassInfo) else [b])
    return [cls] + merge(parents + [list(cls.bases)])


class ModuleInfo:
    def __init__(self, name, path, tree, source, is_pkg):
        self.name = name
        self.path = path
        self.tree = tree
        self.source = source
        self.is_pkg = is_pkg
        self.imports = {}      # local -> ('module', dotted) | ('name', dotted_module, attr)
        self.star_imports = [] # dotted module names
        self.functions = {}
        self.classes = {}
        self.assigns = {}      # name -> [value expr,...] (module level, in order)
        self.all = None

    def __repr__(self):
        return f"<module {self.name}>"


class Binding:
    def __init__(self, kind, target, module=None, name=None):
        self.kind = kind      # func|class|const|module|external
        self.target = target  # FunctionInfo|ClassInfo|list[expr]|ModuleInfo|str
        self.module = module  # defining ModuleInfo (for const)
        self.name = name

    def __repr__(self):
        return f"<binding {self.kind} {self.name or self.target}>"


def _decorator_names(node):
    out = []
    for d in node.decorator_list:
        try:
            out.append(ast.unparse(d))
        except Exception:
            out.append("?")
    return out


class Index:
    def __init__(self, tree):
        self.tree = tree
        self.modules = {}      # dotted name -> ModuleInfo
        self.by_path = {}
        for rel in sorted(tree.files):
            self._load(rel)
        for m in self.modules.values():
            self._link_classes(m)

    # -- construction -----------------------------------------------------
    def _load(self, rel):
        parts = rel[:-3].split("/")
        is_pkg = parts[-1] == "__init__"
        if is_pkg:
            parts = parts[:-1]
        name = ".".join(parts)
        mod = ModuleInfo(name, rel, self.tree.ast(rel), self.tree.files[rel], is_pkg)
        self.modules[name] = mod
        self.by_path[rel] = mod
        for st in mod.tree.body:
            self._module_stmt(mod, st)

    def _module_stmt(self, mod, st):
        if isinstance(st, ast.Import):
            for a in st.names:
                local = a.asname or a.name.split(".")[0]
                mod.imports[local] = ("module", a.name if a.asname else a.name.split(".")[0])
        elif isinstance(st, ast.ImportFrom):
            base = self._abs_module(mod, st.module, st.level)
            for a in st.names:
                if a.name == "*":
                    mod.star_imports.append(base)
                else:
                    mod.imports[a.asname or a.name] = ("name", base, a.name)
        elif isinstance(st, ast.FunctionDef):
            mod.functions[st.name] = FunctionInfo(st, mod)
        elif isinstance(st, ast.ClassDef):
            ci = ClassInfo(st, mod)
            mod.classes[st.name] = ci
            for b in st.body:
                if isinstance(b, ast.FunctionDef):
                    decs = _decorator_names(b)
                    kind = "method"
                    if "staticmethod" in decs:
                        kind = "staticmethod"
                    elif "classmethod" in decs:
                        kind = "classmethod"
                    elif "property" in decs:
                        kind = "property"
                    elif any(d.endswith(".setter") for d in decs):
                        kind = "setter"
                    fi = FunctionInfo(b, mod, ci, kind)
                    if kind == "setter":
                        ci.setters[b.name] = fi
                    else:
                        ci.methods[b.name] = fi
                elif isinstance(b, ast.Assign):
                    for t in b.targets:
                        if isinstance(t, ast.Name):
                            ci.class_attrs[t.id] = b.value
                elif isinstance(b, ast.AnnAssign) and isinstance(b.target, ast.Name) and b.value:
                    ci.class_attrs[b.target.id] = b.value
        elif isinstance(st, ast.Assign):
            for t in st.targets:
                if isinstance(t, ast.Name):
                    mod.assigns.setdefault(t.id, []).append(st.value)
                    if t.id == "__all__":
                        try:
                            mod.all = list(ast.literal_eval(st.value))
                        except Exception:
                            mod.all = None
                elif isinstance(t, (ast.Tuple, ast.List)):
                    for e in t.elts:
                        if isinstance(e, ast.Name):
                            mod.assigns.setdefault(e.id, []).append(st)
        elif isinstance(st, ast.AnnAssign) and isinstance(st.target, ast.Name) and st.value:
            mod.assigns.setdefault(st.target.id, []).append(st.value)
        elif isinstance(st, ast.AugAssign) and isinstance(st.target, ast.Name):
            mod.assigns.setdefault(st.target.id, []).append(st)
        elif isinstance(st, ast.Try):
            for b in st.body + [x for h in st.handlers for x in h.body] + st.orelse + st.finalbody:
                self._module_stmt(mod, b)
        elif isinstance(st, ast.If):
            for b in st.body + st.orelse:
                self._module_stmt(mod, b)

    def _abs_module(self, mod, name, level):
        if level == 0:
            return name
        parts = mod.name.split(".")
        if not mod.is_pkg:
            parts = parts[:-1]
        if level > 1:
            parts = parts[: len(parts) - (level - 1)]
        if name:
            parts = parts + name.split(".")
        return ".".join(parts)

    def _link_classes(self, mod):
        for ci in mod.classes.values():
            ci.bases = []
            for b in ci.node.bases:
                r = self.resolve_expr(mod, b)
                if r is not None and r.kind == "class":
                    ci.bases.append(r.target)
                else:
                    try:
                        txt = ast.unparse(b)
                    except Exception:
                        txt = "?"
                    if r is not None and r.kind == "external":
                        txt = r.target
                    ci.bases.append(txt)

    # -- resolution -------------------------------------------------------
    def resolve(self, mod, name, _seen=None):
        """Resolve a bare name used at module scope of `mod`."""
        if isinstance(mod, str):
            mod = self.modules[mod]
        _seen = _seen or set()
        if (mod.name, name) in _seen:
            return None
        _seen.add((mod.name, name))
        if name in mod.functions:
            return Binding("func", mod.functions[name], mod, name)
        if name in mod.classes:
            return Binding("class", mod.classes[name], mod, name)
        if name in mod.assigns:
            return Binding("const", mod.assigns[name], mod, name)
        if name in mod.imports:
            imp = mod.imports[name]
            if imp[0] == "module":
                if imp[1] in self.modules:
                    return Binding("module", self.modules[imp[1]], None, name)
                return Binding("external", imp[1], None, name)
            _, base, attr = imp
            if base in self.modules:
                # attribute may be a submodule
                sub = f"{base}.{attr}"
                r = self.resolve(self.modules[base], attr, _seen)
                if r is not None:
                    return r
                if sub in self.modules:
                    return Binding("module", self.modules[sub], None, name)
                return None
            return Binding("external", f"{base}.{attr}", None, name)
        for base in mod.star_imports:
            if base in self.modules:
                bm = self.modules[base]
                if bm.all is not None and name not in bm.all:
                    continue
                if name.startswith("_") and bm.all is None:
                    continue
                r = self.resolve(bm, name, _seen)
                if r is not None:
                    return r
        return None

    def resolve_expr(self, mod, expr):
        """Resolve Name / dotted Attribute at module scope."""
        if isinstance(expr, ast.Name):
            return self.resolve(mod, expr.id)
        if isinstance(expr, ast.Attribute):
            base = self.resolve_expr(mod, expr.value)
            if base is None:
                return None
            if base.kind == "module":
                return self.resolve(base.target, expr.attr)
            if base.kind == "external":
                return Binding("external", f"{base.target}.{expr.attr}", None, expr.attr)
            if base.kind == "class":
                m = base.target.find_method(expr.attr)
                if m:
                    return Binding("func", m, m.module, expr.attr)
                c, v = base.target.find_class_attr(expr.attr)
                if c:
                    return Binding("classattr", (c, v), c.module, expr.attr)
        return None

    # -- iteration helpers --------------------------------------------------
    def all_classes(self):
        for m in self.modules.values():
            yield from m.classes.values()

    def all_functions(self):
        for m in self.modules.values():
            yield from m.functions.values()
            for c in m.classes.values():
                yield from c.methods.values()
                yield from c.setters.values()

    def find_class(self, name):
        hits = [c for c in self.all_classes() if c.name == name]
        if len(hits) != 1:
            raise AnalysisError(f"anchor class {name}: expected exactly one definition, found {len(hits)}")
        return hits[0]

    def get_class(self, path, name):
        mod = self.by_path.get(path)
        if mod is None or name not in mod.classes:
            raise AnalysisError(f"anchor vanished: class {name} in {path}")
        return mod.classes[name]

    def get_function(self, path, qualname, inline=False, keep=()):
        """inline=True: the routine in its normal form - calls of inlinable private helpers replaced
        by their bodies (astutil.inlined) - so that structural rules are insensitive to helper
        extraction."""
        if inline:
            from .astutil import inlined
            key = (path, qualname, tuple(sorted(keep)))
            cache = self.__dict__.setdefault("_inlined", {})
            if key not in cache:
                cache[key] = inlined(self, self.get_function(path, qualname), keep=keep)
            return cache[key]
        mod = self.by_path.get(path)
        if mod is None:
            raise AnalysisError(f"anchor vanished: module {path}")
        if "." in qualname:
            cn, fn = qualname.split(".", 1)
            if cn not in mod.classes:
                raise AnalysisError(f"anchor vanished: class {cn} in {path}")
            m = mod.classes[cn].find_method(fn)
            if m is None:
                raise AnalysisError(f"anchor vanished: {qualname} in {path}")
            return m
        if qualname not in mod.functions:
            raise AnalysisError(f"anchor vanished: function {qualname} in {path}")
        return mod.functions[qualname]

    def subclasses(self, cls, strict=False):
        out = []
        for c in self.all_classes():
            if cls in c.mro() and (not strict or c is not cls):
                out.append(c)
        return out
