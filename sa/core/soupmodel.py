"""A small model of the part of BeautifulSoup's API that pycaption's DFXP and SAMI WRITERS use.

The writers build their document with bs4: they parse their own constant skeleton
(`BeautifulSoup(BASE_MARKUP, "lxml-xml")`), create and append tags, set attributes, set
`tag.string` to text they assembled by hand, and serialise with `prettify(formatter=None)`.
To fold the writers the evaluator needs an object to stand in for the soup.  This module is
that stand-in: plain Python, written from the bs4 documentation, covering exactly the calls the
writers make.  Assumptions it encodes (the same ones the taint rules of C03/C07 state):

  * `prettify(formatter=None)` / `str(tag)` substitute nothing: attribute values and strings are
    written as stored (attribute values between double quotes);
  * `tag.string = s` replaces the children by the one string s;
  * `find` / `find_all` walk descendants in document order; a keyword or `attrs` entry matches an
    attribute by equality, or by calling the given function with the attribute's value;
  * `soup.<name>` is `soup.find(<name>)`;
  * two tags are equal when name, attributes and children are equal.

Anything else raises ModelError: the fold is refused, never guessed.
"""
import re
import xml.etree.ElementTree as ET


class ModelError(Exception):
    pass


class HostModel:
    """marker: objects of these classes are operated on directly by the evaluator (methods, attributes, items)"""


class Text(HostModel):
    def __init__(self, s):
        self.s = s
        self.parent = None

    def __eq__(self, other):
        return isinstance(other, Text) and other.s == self.s or isinstance(other, str) and other == self.s

    def __hash__(self):
        return hash(self.s)

    def __str__(self):
        return self.s


class Tag(HostModel):
    def __init__(self, name, attrs=None, soup=None):
        self.name = name
        self.attrs = dict(attrs or {})
        self.contents = []
        self.parent = None
        self._soup = soup

    # ---- navigation
    def _descendants(self):
        for c in self.contents:
            if isinstance(c, Tag):
                yield c
                yield from c._descendants()

    @staticmethod
    def _match_value(want, have):
        if callable(want):
            if have is None:
                return False
            return bool(want(have))
        if want is True:
            return have is not None
        if want is None:
            return have is None
        if isinstance(want, (list, tuple, set)):
            return have in want
        return have == want

    def _matches(self, name, attrs):
        if name is not None:
            if callable(name):
                if not name(self):
                    return False
            elif isinstance(name, (list, tuple)):
                if self.name not in name:
                    return False
            elif name is not True and self.name != name:
                return False
        for k, v in attrs.items():
            if not self._match_value(v, self.attrs.get(k)):
                return False
        return True

    def find_all(self, name=None, attrs=None, recursive=True, string=None, limit=None, **kw):
        if string is not None and name is None:
            raise ModelError("find_all(string=...) without a tag name is outside the model")
        a = dict(attrs or {})
        if "class_" in kw:
            a["class"] = kw.pop("class_")
        a.update(kw)
        pool = self._descendants() if recursive else (c for c in self.contents if isinstance(c, Tag))
        out = [t for t in pool if t._matches(name, a)]
        if string is not None:
            # with a tag name: the tags whose .string matches
            out = [t for t in out if t.string is not None and self._match_value(string, t.string)]
        return out[:limit] if limit else out

    def find(self, name=None, attrs=None, recursive=True, string=None, **kw):
        r = self.find_all(name, attrs, recursive, string, 1, **kw)
        return r[0] if r else None

    findChildren = find_all
    findAll = find_all
    findChild = find

    def __getattr__(self, item):
        if item.startswith("_") or item in ("name", "attrs", "contents", "parent"):
            raise AttributeError(item)
        return self.find(item)          # soup.body, soup.tt ...

    # ---- attributes
    def __getitem__(self, k):
        return self.attrs[k]

    def __setitem__(self, k, v):
        self.attrs[k] = v

    def __delitem__(self, k):
        del self.attrs[k]

    def __contains__(self, x):
        return x in self.contents

    def get(self, k, default=None):
        return self.attrs.get(k, default)

    def has_attr(self, k):
        return k in self.attrs

    # ---- content
    @property
    def string(self):
        if len(self.contents) == 1:
            c = self.contents[0]
            return c.s if isinstance(c, Text) else c.string
        return None

    @string.setter
    def string(self, s):
        if not isinstance(s, str):
            raise ModelError("tag.string = <non string>")
        self.contents = []
        self._adopt(Text(s))

    def _adopt(self, node, index=None):
        if isinstance(node, str):
            node = Text(node)
        if not isinstance(node, (Tag, Text)):
            raise ModelError(f"cannot insert {type(node).__name__} into a tag")
        if node.parent is not None:
            node.parent.contents = [c for c in node.parent.contents if c is not node]
        node.parent = self
        if index is None:
            self.contents.append(node)
        else:
            self.contents.insert(index, node)
        return node

    def append(self, node):
        self._adopt(node)

    def insert(self, index, node):
        self._adopt(node, index)

    def extend(self, nodes):
        for n in list(nodes):
            self._adopt(n)

    def _index_in_parent(self):
        if self.parent is None:
            raise ModelError("insert_before/after on a tag that has no parent")
        for i, c in enumerate(self.parent.contents):
            if c is self:
                return i
        raise ModelError("tag not found under its parent")

    def insert_after(self, node):
        self.parent._adopt(node, self._index_in_parent() + 1)

    def insert_before(self, node):
        self.parent._adopt(node, self._index_in_parent())

    def extract(self):
        if self.parent is not None:
            self.parent.contents = [c for c in self.parent.contents if c is not self]
            self.parent = None
        return self

    def decompose(self):
        self.extract()

    def clear(self):
        self.contents = []

    @property
    def children(self):
        return list(self.contents)

    @property
    def parents(self):
        out, p = [], self.parent
        while p is not None:
            out.append(p)
            p = p.parent
        return out

    def get_text(self, *a, **k):
        return "".join(c.s if isinstance(c, Text) else c.get_text() for c in self.contents)

    @property
    def text(self):
        return self.get_text()

    # ---- value semantics
    def __eq__(self, other):
        return isinstance(other, Tag) and self.name == other.name and self.attrs == other.attrs \
            and len(self.contents) == len(other.contents) and all(a == b for a, b in zip(self.contents, other.contents))

    def __ne__(self, other):
        return not self.__eq__(other)

    def __hash__(self):
        return id(self)

    def __bool__(self):
        return True

    def __iter__(self):
        return iter(list(self.contents))

    def __len__(self):
        return len(self.contents)

    # ---- serialisation (formatter=None: nothing is substituted)
    def _open(self):
        at = "".join(f' {k}="{v}"' for k, v in self.attrs.items())
        return f"<{self.name}{at}"

    def _lines(self, depth, out):
        pad = " " * depth
        if not self.contents:
            out.append(f"{pad}{self._open()}/>")
            return
        out.append(f"{pad}{self._open()}>")
        for c in self.contents:
            if isinstance(c, Text):
                t = c.s.strip()
                if t:
                    out.append(f"{' ' * (depth + 1)}{t}")
            else:
                c._lines(depth + 1, out)
        out.append(f"{pad}</{self.name}>")

    def prettify(self, encoding=None, formatter="minimal"):
        if formatter is not None:
            raise ModelError("prettify with a substituting formatter is outside the model")
        out = []
        self._lines(0, out)
        return "\n".join(out) + "\n"

    def decode(self, *a, formatter="minimal", **k):
        if formatter is not None:
            raise ModelError("decode with a substituting formatter is outside the model")
        return self._flat()

    def _flat(self):
        if not self.contents:
            return f"{self._open()}/>"
        return f"{self._open()}>" + "".join(c.s if isinstance(c, Text) else c._flat() for c in self.contents) + f"</{self.name}>"

    def __str__(self):
        return self._flat()

    def __repr__(self):
        return f"<model tag {self.name}>"


class Soup(Tag):
    """BeautifulSoup(markup, "lxml-xml") for the writers' own well-formed skeleton"""

    def __init__(self, markup="", features=None, **kw):
        super().__init__("[document]", {}, None)
        self._soup = self
        self.features = features
        if features not in ("lxml-xml", "xml"):
            raise ModelError(f"BeautifulSoup(..., {features!r}) is outside the model (only the XML tree builder)")
        if not isinstance(markup, str):
            raise ModelError("BeautifulSoup(<non string>)")
        if markup.strip():
            self._parse(markup)

    def _parse(self, markup):
        ns = dict(re.findall(r'xmlns:(\w+)="([^"]*)"', markup))
        default_ns = re.search(r'\sxmlns="([^"]*)"', markup)
        try:
            root = ET.fromstring(markup.strip().encode("utf-8") if markup.lstrip().startswith("<?xml") else markup.strip())
        except ET.ParseError as e:
            raise ModelError(f"the skeleton is not well-formed XML: {e}")
        rev = {v: k for k, v in ns.items()}
        rev["http://www.w3.org/XML/1998/namespace"] = "xml"
        dflt = default_ns.group(1) if default_ns else None

        def qname(q):
            if q.startswith("{"):
                uri, local = q[1:].split("}", 1)
                if uri == dflt:
                    return local
                if uri in rev:
                    return f"{rev[uri]}:{local}"
                raise ModelError(f"unknown namespace {uri}")
            return q

        def conv(el, top):
            t = Tag(qname(el.tag), {qname(k): v for k, v in el.attrib.items()}, self)
            if top:
                if dflt:
                    t.attrs = {"xmlns": dflt, **{f"xmlns:{k}": v for k, v in ns.items()}, **t.attrs}
                else:
                    t.attrs = {**{f"xmlns:{k}": v for k, v in ns.items()}, **t.attrs}
            if el.text and el.text.strip():
                t._adopt(Text(el.text))
            for ch in el:
                t._adopt(conv(ch, False))
                if ch.tail and ch.tail.strip():
                    t._adopt(Text(ch.tail))
            return t
        self._adopt(conv(root, True))

    def new_tag(self, name, namespace=None, nsprefix=None, attrs=None, **kw):
        a = dict(attrs or {})
        a.update(kw)
        return Tag(name, a, self)

    def new_string(self, s):
        return Text(s)

    def prettify(self, encoding=None, formatter="minimal"):
        if formatter is not None:
            raise ModelError("prettify with a substituting formatter is outside the model")
        out = ['<?xml version="1.0" encoding="utf-8"?>']
        for c in self.contents:
            if isinstance(c, Tag):
                c._lines(0, out)
        return "\n".join(out) + "\n"

    def __repr__(self):
        return "<model soup>"
