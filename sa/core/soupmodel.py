"""A small model of the part of BeautifulSoup's API that pycaption's DFXP and SAMI WRITERS use.

The writers build their document with bs4: they parse their own constant skeleton
(`BeautifulSoup(BASE_MARKUP, "lxml-xml")`), create and append tags, set attributes, set
`tag.string` to text they assembled by hand, and serialise with `prettify(formatter=None)`.
To fold the writers the evaluator needs an object to stand in for the soup.  This module is
that stand-in: plain Python, written from the bs4 documentation, covering exactly the calls the
writers make.  Assumptions it encodes (the same ones the taint rules of C03/C07 state):

  * `prettify(formatter=None)` / `str(tag)` substitute nothing: attribute values and strings are
    written as stored (attribute values between double quotes);
  * `tag.string = s` replaces the children by the one string s;
  * `find` / `find_all` walk descendants in document order; a keyword or `attrs` entry matches an
    attribute by equality, or by calling the given function with the attribute's value;
  * `soup.<name>` is `soup.find(<name>)`;
  * two tags are equal when name, attributes and children are equal.

Anything else raises ModelError: the fold is refused, never guessed.
"""
import re
import xml.etree.ElementTree as ET


class ModelError(Exception):
    pass


class HostModel:
    """marker: objects of these classes are operated on directly by the evaluator (methods, attributes, items)"""


class Text(str, HostModel):
    """NavigableString: a str that knows its parent (and may be given attributes, e.g. layout_info)"""
    parent = None

    def __new__(cls, s=""):
        return str.__new__(cls, s)

    @property
    def s(self):
        return str(self)

    @property
    def string(self):
        return self

    def get_text(self, *a, **k):
        return str(self)

    @property
    def text(self):
        return str(self)

    @property
    def parents(self):
        out, p = [], self.parent
        while p is not None:
            out.append(p)
            p = p.parent
        return out

    def __deepcopy__(self, memo):
        return type(self)(str(self))


class Comment(Text):
    pass


class CData(Text):
    pass


class Declaration(Text):
    pass


class Tag(HostModel):
    def __init__(self, name, attrs=None, soup=None):
        self.name = name
        self.attrs = dict(attrs or {})
        self.contents = []
        self.parent = None
        self._soup = soup

    # ---- navigation
    def _descendants(self):
        for c in self.contents:
            if isinstance(c, Tag):
                yield c
                yield from c._descendants()

    @staticmethod
    def _match_value(want, have):
        if callable(want):
            if have is None:
                return False
            return bool(want(have))
        if want is True:
            return have is not None
        if want is None:
            return have is None
        if isinstance(want, (list, tuple, set)):
            return have in want
        if hasattr(want, "pattern") and hasattr(want, "flags"):
            # a compiled pattern: bs4 SEARCHES it in the value (in each value of a multi-valued attribute)
            if have is None:
                return False
            vals = have if isinstance(have, list) else [have]
            return any(isinstance(v, str) and re.search(want.pattern, v, int(want.flags or 0)) is not None for v in vals)
        if not isinstance(want, (str, bytes, int, float)):
            raise ModelError(f"a filter of type {type(want).__name__} is outside the model")
        return have == want

    def _matches(self, name, attrs):
        if name is not None:
            if callable(name):
                if not name(self):
                    return False
            elif isinstance(name, (list, tuple)):
                if self.name not in name:
                    return False
            elif name is not True and self.name != name:
                return False
        for k, v in attrs.items():
            if not self._match_value(v, self.attrs.get(k)):
                return False
        return True

    def find_all(self, name=None, attrs=None, recursive=True, string=None, limit=None, **kw):
        if string is not None and name is None:
            if attrs or kw:
                raise ModelError("find_all(string=..., <attribute filters>) without a tag name is outside the model")
            # no tag name, no attribute filter: bs4 searches the text nodes (comments and CDATA sections are text nodes too),
            # in document order
            def _strings(t):
                for c in t.contents:
                    if isinstance(c, Tag):
                        if recursive:
                            yield from _strings(c)
                    else:
                        yield c
            out = [x for x in _strings(self) if self._match_value(string, str(x))]
            return out[:limit] if limit else out
        a = dict(attrs or {})
        if "class_" in kw:
            a["class"] = kw.pop("class_")
        a.update(kw)
        pool = self._descendants() if recursive else (c for c in self.contents if isinstance(c, Tag))
        out = [t for t in pool if t._matches(name, a)]
        if string is not None:
            # with a tag name: the tags whose .string matches
            out = [t for t in out if t.string is not None and self._match_value(string, t.string)]
        return out[:limit] if limit else out

    def select(self, selector, *a, **k):
        """soupsieve, one form only: type[attr OP value] with the six attribute operators of CSS (= ~= |= ^= $= *=), the value
        a CSS identifier or a quoted string"""
        if a or k:
            raise ModelError("select(<options>) is outside the model")
        m = re.fullmatch(r"\s*([A-Za-z][A-Za-z0-9]*)\[\s*([A-Za-z_][A-Za-z0-9_-]*)\s*([~|^$*]?=)\s*"
                         r"(?:\"([^\"\\\\]*)\"|'([^'\\\\]*)'|(-?[A-Za-z_][A-Za-z0-9_-]*))\s*\]\s*", selector) \
            if isinstance(selector, str) else None
        if not m:
            raise ModelError(f"select({selector!r}) is outside the model (type[attr OP value] only)")
        name, attr, op = m.group(1).lower(), m.group(2), m.group(3)
        val = next(g for g in m.groups()[3:] if g is not None)
        tests = {
            "=": lambda h: h == val,
            "~=": lambda h: bool(val) and not re.search(r"\s", val) and val in h.split(),
            "|=": lambda h: h == val or h.startswith(val + "-"),
            "^=": lambda h: bool(val) and h.startswith(val),
            "$=": lambda h: bool(val) and h.endswith(val),
            "*=": lambda h: bool(val) and val in h,
        }
        out = []
        for t in self._descendants():
            have = t.attrs.get(attr)
            if isinstance(have, list):
                have = " ".join(have)
            if t.name == name and isinstance(have, str) and tests[op](have):
                out.append(t)
        return out

    def find(self, name=None, attrs=None, recursive=True, string=None, **kw):
        r = self.find_all(name, attrs, recursive, string, 1, **kw)
        return r[0] if r else None

    def find_all_previous(self, name=None, attrs=None, string=None, limit=None, **kw):
        """the elements that START before this one in the document (ancestors included), nearest first"""
        if string is not None:
            raise ModelError("find_previous(string=...) is outside the model")
        a = dict(attrs or {})
        if "class_" in kw:
            a["class"] = kw.pop("class_")
        a.update(kw)
        root = self
        while root.parent is not None:
            root = root.parent
        before = []
        for t in [root] + list(root._descendants()):
            if t is self:
                break
            before.append(t)
        out = [t for t in reversed(before) if t.name is not None and t._matches(name, a)]
        return out[:limit] if limit else out

    def find_previous(self, name=None, attrs=None, string=None, **kw):
        r = self.find_all_previous(name, attrs, string, 1, **kw)
        return r[0] if r else None

    findPrevious = find_previous
    findAllPrevious = find_all_previous

    findChildren = find_all
    findAll = find_all
    findChild = find

    def __getattr__(self, item):
        if item.startswith("_") or item in ("name", "attrs", "contents", "parent"):
            raise AttributeError(item)
        return self.find(item)          # soup.body, soup.tt ...

    # ---- attributes
    def __getitem__(self, k):
        return self.attrs[k]

    def __setitem__(self, k, v):
        self.attrs[k] = v

    def __delitem__(self, k):
        del self.attrs[k]

    def __contains__(self, x):
        return x in self.contents

    def get(self, k, default=None):
        return self.attrs.get(k, default)

    def has_attr(self, k):
        return k in self.attrs

    # ---- content
    @property
    def string(self):
        if len(self.contents) == 1:
            c = self.contents[0]
            return c if isinstance(c, Text) else c.string
        return None

    @string.setter
    def string(self, s):
        if not isinstance(s, str):
            raise ModelError("tag.string = <non string>")
        self.contents = []
        self._adopt(Text(s))

    def _adopt(self, node, index=None):
        if isinstance(node, str) and not isinstance(node, Text):
            node = Text(node)
        if not isinstance(node, (Tag, Text)):
            raise ModelError(f"cannot insert {type(node).__name__} into a tag")
        if node.parent is not None:
            node.parent.contents = [c for c in node.parent.contents if c is not node]
        node.parent = self
        if index is None:
            self.contents.append(node)
        else:
            self.contents.insert(index, node)
        return node

    def append(self, node):
        self._adopt(node)

    def insert(self, index, node):
        self._adopt(node, index)

    def extend(self, nodes):
        for n in list(nodes):
            self._adopt(n)

    def _index_in_parent(self):
        if self.parent is None:
            raise ModelError("insert_before/after on a tag that has no parent")
        for i, c in enumerate(self.parent.contents):
            if c is self:
                return i
        raise ModelError("tag not found under its parent")

    def insert_after(self, node):
        self.parent._adopt(node, self._index_in_parent() + 1)

    def insert_before(self, node):
        self.parent._adopt(node, self._index_in_parent())

    def extract(self):
        if self.parent is not None:
            self.parent.contents = [c for c in self.parent.contents if c is not self]
            self.parent = None
        return self

    def decompose(self):
        self.extract()

    def clear(self):
        self.contents = []

    @property
    def children(self):
        return list(self.contents)

    @property
    def parents(self):
        out, p = [], self.parent
        while p is not None:
            out.append(p)
            p = p.parent
        return out

    def get_text(self, *a, **k):
        return "".join(("" if isinstance(c, (Comment, Declaration)) else str(c)) if isinstance(c, Text) else c.get_text()
                       for c in self.contents)

    @property
    def text(self):
        return self.get_text()

    # ---- value semantics
    def __eq__(self, other):
        return isinstance(other, Tag) and self.name == other.name and self.attrs == other.attrs \
            and len(self.contents) == len(other.contents) and all(a == b for a, b in zip(self.contents, other.contents))

    def __ne__(self, other):
        return not self.__eq__(other)

    def __hash__(self):
        return id(self)

    def __bool__(self):
        return True

    def __iter__(self):
        return iter(list(self.contents))

    def __len__(self):
        return len(self.contents)

    # ---- serialisation (formatter=None: nothing is substituted)
    def _open(self):
        # bs4.element.Tag.decode: a value of None gives a bare attribute name; a list is joined with blanks; anything else is
        # str()-ed; the value is put in double quotes unless it holds a double quote and no single quote (then single
        # quotes), and with both kinds inside the double quotes become &quot; (EntitySubstitution.quoted_attribute_value)
        at = ""
        for k, v in self.attrs.items():
            if v is None:
                at += f" {k}"
                continue
            if isinstance(v, (list, tuple)):
                v = " ".join(str(x) for x in v)
            elif not isinstance(v, str):
                v = str(v)
            q = '"'
            if '"' in v:
                if "'" in v:
                    v = v.replace('"', "&quot;")
                else:
                    q = "'"
            at += f" {k}={q}{v}{q}"
        return f"<{self.name}{at}"

    def _lines(self, depth, out):
        pad = " " * depth
        if not self.contents:
            out.append(f"{pad}{self._open()}/>")
            return
        out.append(f"{pad}{self._open()}>")
        for c in self.contents:
            if isinstance(c, Text):
                t = str(c).strip()
                if t:
                    out.append(f"{' ' * (depth + 1)}{t}")
            else:
                c._lines(depth + 1, out)
        out.append(f"{pad}</{self.name}>")

    def prettify(self, encoding=None, formatter="minimal"):
        if formatter is not None:
            raise ModelError("prettify with a substituting formatter is outside the model")
        out = []
        self._lines(0, out)
        return "\n".join(out) + "\n"

    def decode(self, *a, formatter="minimal", **k):
        if formatter is not None:
            raise ModelError("decode with a substituting formatter is outside the model")
        return self._flat()

    def _flat(self):
        if not self.contents:
            return f"{self._open()}/>"
        return f"{self._open()}>" + "".join(str(c) if isinstance(c, Text) else c._flat() for c in self.contents) + f"</{self.name}>"

    def __str__(self):
        return self._flat()

    def __repr__(self):
        return f"<model tag {self.name}>"


class Soup(Tag):
    """BeautifulSoup(markup, "lxml-xml") for the writers' own well-formed skeleton"""

    def __init__(self, markup="", features=None, builder=None, parse_only=None, from_encoding=None, **kw):
        if builder is not None or parse_only is not None or from_encoding is not None or kw:
            raise ModelError("BeautifulSoup(builder= / parse_only= / from_encoding= / other options) is outside the model")
        super().__init__("[document]", {}, None)
        self._soup = self
        self.features = features
        if not isinstance(markup, str):
            raise ModelError("BeautifulSoup(<non string>)")
        if features in ("lxml-xml", "xml"):
            if markup.strip():
                self._parse(markup)
        elif features == "html.parser":
            _HtmlBuilder(self).run(markup)
        elif features == "lxml":
            _LxmlHtmlBuilder(self).run(markup)
        else:
            raise ModelError(f"BeautifulSoup(..., {features!r}) is outside the model (XML tree builder, html.parser, lxml on the SAMI subset)")

    def _parse(self, markup):
        ns = dict(re.findall(r'xmlns:(\w+)="([^"]*)"', markup))
        default_ns = re.search(r'\sxmlns="([^"]*)"', markup)
        try:
            root = ET.fromstring(markup.strip().encode("utf-8") if markup.lstrip().startswith("<?xml") else markup.strip())
        except ET.ParseError as e:
            raise ModelError(f"the skeleton is not well-formed XML: {e}")
        rev = {v: k for k, v in ns.items()}
        rev["http://www.w3.org/XML/1998/namespace"] = "xml"
        dflt = default_ns.group(1) if default_ns else None

        def qname(q):
            if q.startswith("{"):
                uri, local = q[1:].split("}", 1)
                if uri == dflt:
                    return local
                if uri in rev:
                    return f"{rev[uri]}:{local}"
                raise ModelError(f"unknown namespace {uri}")
            return q

        def conv(el, top):
            t = Tag(qname(el.tag), {qname(k): v for k, v in el.attrib.items()}, self)
            if top:
                if dflt:
                    t.attrs = {"xmlns": dflt, **{f"xmlns:{k}": v for k, v in ns.items()}, **t.attrs}
                else:
                    t.attrs = {**{f"xmlns:{k}": v for k, v in ns.items()}, **t.attrs}
            if el.text and el.text.strip():
                t._adopt(Text(el.text))
            for ch in el:
                t._adopt(conv(ch, False))
                if ch.tail and ch.tail.strip():
                    t._adopt(Text(ch.tail))
            return t
        self._adopt(conv(root, True))

    def new_tag(self, name, namespace=None, nsprefix=None, attrs=None, **kw):
        a = dict(attrs or {})
        a.update(kw)
        return Tag(name, a, self)

    def new_string(self, s):
        return Text(s)

    def prettify(self, encoding=None, formatter="minimal"):
        if formatter is not None:
            raise ModelError("prettify with a substituting formatter is outside the model")
        out = ['<?xml version="1.0" encoding="utf-8"?>']
        for c in self.contents:
            if isinstance(c, Tag):
                c._lines(0, out)
        return "\n".join(out) + "\n"

    def __repr__(self):
        return "<model soup>"


# ------------------------------------------------------------------------------------------------------------------
# BeautifulSoup(markup, "html.parser"): the stdlib tokenizer (the one bs4 itself drives) + bs4's tree building rules
# (bs4/builder/_htmlparser.py, bs4/__init__.py: empty-element tags close at once, an end tag pops to the most recent open
# tag of that name or is ignored, runs of ASCII white space collapse to one blank or newline outside pre/textarea,
# unknown named references stay as "&name", numeric references become the character).
import html.entities
import html.parser

_EMPTY = {"area", "base", "br", "col", "embed", "hr", "img", "input", "keygen", "link", "menuitem", "meta", "param", "source",
          "track", "wbr", "basefont", "bgsound", "command", "frame", "image", "isindex", "nextid", "spacer"}
_ASCII_SPACES = "\x20\x0a\x09\x0c\x0d"


class _HtmlBuilder(html.parser.HTMLParser):
    def __init__(self, soup):
        super().__init__(convert_charrefs=False)
        self.soup = soup
        self.stack = [soup]
        self.data = []
        self.already_closed = []

    def run(self, markup):
        try:
            self.feed(markup)
            self.close()
        except AssertionError as e:
            raise ModelError(f"html.parser refused the markup: {e}")
        self._end_data()

    def _end_data(self, cls=Text):
        if self.data:
            s = "".join(self.data)
            self.data = []
            if not any(getattr(t, "name", None) in ("pre", "textarea") for t in self.stack[1:]) \
                    and all(c in _ASCII_SPACES for c in s):
                s = "\n" if "\n" in s else " "
            self.stack[-1]._adopt(cls(s))

    def handle_starttag(self, tag, attrs, handle_empty_element=True):
        self._end_data()
        d = {}
        for k, v in attrs:
            d[k] = "" if v is None else v
        t = Tag(tag, d, self.soup)
        self.stack[-1]._adopt(t)
        self.stack.append(t)
        if tag in _EMPTY and handle_empty_element:
            self._pop_to(tag)
            self.already_closed.append(tag)

    def handle_startendtag(self, tag, attrs):
        self.handle_starttag(tag, attrs, handle_empty_element=False)
        self._end_data()
        self._pop_to(tag)

    def handle_endtag(self, tag):
        if tag in self.already_closed:
            self.already_closed.remove(tag)
        else:
            self._end_data()
            self._pop_to(tag)

    def _pop_to(self, name):
        if not any(getattr(t, "name", None) == name for t in self.stack[1:]):
            return
        while len(self.stack) > 1:
            t = self.stack.pop()
            if t.name == name:
                break

    def handle_data(self, data):
        self.data.append(data)

    def handle_charref(self, name):
        m = re.match(r"[xX]([0-9a-fA-F]+)(.*)|([0-9]+)(.*)", name, re.S)
        if not m:
            self.handle_data(name)
            return
        n = int(m.group(1), 16) if m.group(1) is not None else int(m.group(3))
        extra = m.group(2) if m.group(1) is not None else m.group(4)
        if 0x80 <= n <= 0x9f or n == 0 or n > 0x10FFFF or 0xD800 <= n <= 0xDFFF:
            raise ModelError(f"numeric character reference &#{name}; (windows-1252 / invalid range) is outside the model")
        self.handle_data(chr(n))
        if extra:
            self.handle_data(extra)

    def handle_entityref(self, name):
        if name in html.entities.name2codepoint:
            self.handle_data(chr(html.entities.name2codepoint[name]))
        elif name + ";" in html.entities.html5:
            self.handle_data(html.entities.html5[name + ";"])
        else:
            self.handle_data("&%s" % name)

    def handle_comment(self, data):
        self._end_data()
        self.data.append(data)
        self._end_data(Comment)

    def handle_decl(self, decl):
        self._end_data()
        self.data.append(decl)
        self._end_data(Declaration)

    def unknown_decl(self, data):
        self._end_data()
        if data.upper().startswith("CDATA["):
            self.data.append(data[len("CDATA["):])
            self._end_data(CData)
        else:
            self.data.append(data)
            self._end_data(Declaration)

    def handle_pi(self, data):
        self._end_data()
        self.data.append(data)
        self._end_data(Declaration)


# ------------------------------------------------------------------------------------------------------------------
# BeautifulSoup(markup, "lxml") on the SAMI subset: what pycaption hands to lxml is either the head of a SAMI file (to find
# the style element) or the markup SAMIParser has already re-serialised with every tag closed in LIFO order, attribute
# names lower-cased and values double-quoted.  On THAT subset libxml2's HTML parser builds the obvious tree with these
# documented particulars (libxml2 HTMLparser.c; bs4/builder/_lxml.py), each compared at development time with the real
# parser on generated documents and on the repository's SAMI fixtures:
#   - html and body elements are created around the content; misplaced <head> / <body> tags inside <sami> are dropped;
#   - of two attributes with one name the FIRST is kept; class becomes a list of tokens;
#   - &amp; &lt; &gt; &quot; and numeric references are decoded; an unknown "&name" stays literal text;
#   - style content is raw text.
# Everything else - other tag names, a p opened inside a p, a known named reference without its semicolon - is refused.
_LXML_TAGS = {"sami", "head", "title", "style", "body", "sync", "p", "span", "i", "b", "u", "br", "font", "html"}


class _LxmlHtmlBuilder(_HtmlBuilder):
    def __init__(self, soup):
        super().__init__(soup)
        html_ = Tag("html", {}, soup)
        body = Tag("body", {}, soup)
        soup._adopt(html_)
        html_._adopt(body)
        self.stack = [soup, html_, body]
        self.base = 3
        self.started = False

    def run(self, markup):
        outside_style = re.sub(r"(?is)<style\b.*?(</style>|$)", " ", markup)
        for m in re.finditer(r"&([A-Za-z][A-Za-z0-9]*)(;?)", outside_style):
            if not m.group(2) and m.group(1) in html.entities.name2codepoint:
                raise ModelError(f"lxml model: named reference &{m.group(1)} without ';'")
            if m.group(2) and m.group(1) not in html.entities.name2codepoint:
                raise ModelError(f"lxml model: unknown named reference &{m.group(1)};")
        super().run(markup)

    def _end_data(self, cls=Text):
        if self.data and not self.started:
            if not "".join(self.data).strip():
                self.data = []          # white space before the root element
                return
            raise ModelError("lxml model: text before the root element")
        super()._end_data(cls)

    def handle_starttag(self, tag, attrs, handle_empty_element=True):
        if tag not in _LXML_TAGS:
            raise ModelError(f"lxml model: <{tag}> is outside the modelled SAMI subset")
        if not self.started and tag != "sami":
            raise ModelError(f"lxml model: the document starts with <{tag}>, not <sami>")
        self._end_data()
        self.started = True
        if tag in ("html", "head", "body"):
            return                      # misplaced inside <sami>: libxml2 drops the tag and keeps the content
        if tag == "p" and any(getattr(t, "name", None) == "p" for t in self.stack[self.base:]):
            raise ModelError("lxml model: <p> inside an open <p>")
        d = {}
        for k, v in attrs:
            if k not in d:              # libxml2: "Attribute redefined", the first one is kept
                d[k] = "" if v is None else v
        if "class" in d:
            d["class"] = d["class"].split()
        t = Tag(tag, d, self.soup)
        self.stack[-1]._adopt(t)
        self.stack.append(t)
        if tag in _EMPTY and handle_empty_element:
            self._pop_to(tag)
            self.already_closed.append(tag)

    def handle_endtag(self, tag):
        if tag in ("html", "head", "body"):
            self._end_data()
            return
        super().handle_endtag(tag)

    def _pop_to(self, name):
        if not any(getattr(t, "name", None) == name for t in self.stack[self.base:]):
            return
        while len(self.stack) > self.base:
            t = self.stack.pop()
            if t.name == name:
                break

    def handle_entityref(self, name):
        if name in html.entities.name2codepoint:
            self.handle_data(chr(html.entities.name2codepoint[name]))
        else:
            self.handle_data("&%s" % name)

    def handle_comment(self, data):
        raise ModelError("lxml model: comments are outside the modelled subset")

    def handle_decl(self, decl):
        raise ModelError("lxml model: declarations are outside the modelled subset")

    def unknown_decl(self, data):
        raise ModelError("lxml model: marked sections are outside the modelled subset")

    def handle_pi(self, data):
        raise ModelError("lxml model: processing instructions are outside the modelled subset")


EXTERNAL_TYPES = {
    "bs4.NavigableString": Text, "bs4.element.NavigableString": Text, "bs4.Tag": Tag, "bs4.element.Tag": Tag,
    "bs4.BeautifulSoup": Soup, "bs4.element.Comment": Comment, "bs4.Comment": Comment, "bs4.element.CData": CData,
    "bs4.CData": CData, "bs4.element.PreformattedString": (Comment, CData, Declaration),
}
