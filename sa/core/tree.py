"""Source model: a SourceTree is a mapping  relative path -> source text.

The real tree is loaded from $VERIF_REPO (default /repo) on every run.  Variants
used for self-validation are in-memory overlays of the same mapping; nothing is
ever written into the repository.
"""
import ast
import hashlib
import os

REPO_ROOT = os.environ.get("VERIF_REPO", "/repo")
PACKAGE = "pycaption"


class AnalysisError(Exception):
    """The analysis cannot give a verdict (anchor vanished, unsupported
    construct).  Never a property violation; exit status 2."""


class SourceTree:
    def __init__(self, files, root=REPO_ROOT, label="worktree"):
        self.files = dict(files)
        self.root = root
        self.label = label
        self._asts = {}
        self.renames = {}

    @classmethod
    def load(cls, root=None):
        root = root or REPO_ROOT
        pkg = os.path.join(root, PACKAGE)
        if not os.path.isdir(pkg):
            raise AnalysisError(f"package directory {pkg} not found")
        files = {}
        for dirpath, dirnames, filenames in os.walk(pkg):
            dirnames[:] = sorted(d for d in dirnames if d != "__pycache__")
            for fn in sorted(filenames):
                if fn.endswith(".py"):
                    full = os.path.join(dirpath, fn)
                    rel = os.path.relpath(full, root)
                    with open(full, encoding="utf-8") as fh:
                        files[rel] = fh.read()
        if not files:
            raise AnalysisError("no python sources found")
        return cls(files, root=root)

    def overlay(self, changes, label="variant"):
        files = dict(self.files)
        files.update(changes)
        return SourceTree(files, root=self.root, label=label)

    def ast(self, rel):
        if not self._asts:
            for r in self.files:
                try:
                    self._asts[r] = ast.parse(self.files[r], filename=r)
                except SyntaxError as e:
                    raise AnalysisError(f"{r} does not parse: {e}")
            self.renames = relocate_private_names(self._asts)
        return self._asts[rel]

    def digests(self):
        return {rel: hashlib.sha256(src.encode()).hexdigest()[:16]
                for rel, src in sorted(self.files.items())}

    def digest(self):
        h = hashlib.sha256()
        for rel, src in sorted(self.files.items()):
            h.update(rel.encode())
            h.update(b"\0")
            h.update(src.encode())
            h.update(b"\0")
        return h.hexdigest()[:16]


# ---------------------------------------------------------------------------------------------------------------------
# Anchor relocation.  Rules name private methods and functions of pycaption (`SCCReader._roll_up`, ...).  A refactoring that
# only RENAMES such a routine (definition and every reference) leaves every property untouched but would make those anchors
# vanish.  sa/spec/anchor_fingerprints.json (generated from the tree the rules were written against, tools/gen_fingerprints.py)
# holds, per private routine, a digest of its body with all private names anonymised.  When a name of the table is missing
# from its scope and exactly one routine of that scope that the table does not know has the same digest, the tree is read
# with that routine under its old name (definition and references).  Nothing else is ever decided from the table: a
# routine whose body changed as well is simply not found, and the rule that needs it refuses (exit 2) as before.
def _private(name):
    return name.startswith("_") and not (name.startswith("__") and name.endswith("__"))


def fingerprint(fn):
    import copy
    g = copy.deepcopy(fn)
    g.name = "_"
    if g.body and isinstance(g.body[0], ast.Expr) and isinstance(g.body[0].value, ast.Constant) and isinstance(g.body[0].value.value, str):
        g.body = g.body[1:] or [ast.Pass()]
    # parameters and local variables are named by order of first occurrence (a rename of `framenum` to `frame_number`
    # together with the routine's own name is still the same routine)
    declared = {nm for n in ast.walk(g) if isinstance(n, (ast.Global, ast.Nonlocal)) for nm in n.names}
    local = {}
    for n in ast.walk(g):
        nm = n.arg if isinstance(n, ast.arg) else n.id if isinstance(n, ast.Name) and isinstance(n.ctx, (ast.Store, ast.Del)) else \
            n.name if isinstance(n, ast.ExceptHandler) and n.name else None
        if nm is not None and nm not in declared and nm not in local:
            local[nm] = f"v{len(local)}"
    for n in ast.walk(g):
        if isinstance(n, ast.arg) and n.arg in local:
            n.arg = local[n.arg]
        elif isinstance(n, ast.Name) and n.id in local:
            n.id = local[n.id]
        elif isinstance(n, ast.ExceptHandler) and n.name in local:
            n.name = local[n.name]
    for n in ast.walk(g):
        if isinstance(n, ast.Attribute) and _private(n.attr):
            n.attr = "_P"
        elif isinstance(n, ast.Name) and _private(n.id):
            n.id = "_P"
    return hashlib.sha1(ast.dump(g, annotate_fields=False, include_attributes=False).encode()).hexdigest()[:20]


def class_shape(cls):
    """(digest of the whole class with private names anonymised, the private attribute / method names in order of first
    occurrence): two classes with the same digest differ at most in the spelling of private names, position by position"""
    import copy
    names = []
    for n in ast.walk(cls):
        nm = n.attr if isinstance(n, ast.Attribute) else (n.name if isinstance(n, (ast.FunctionDef, ast.AsyncFunctionDef)) else None)
        if nm is not None and _private(nm):
            names.append(nm)
    g = copy.deepcopy(cls)
    for n in ast.walk(g):
        if isinstance(n, ast.Attribute) and _private(n.attr):
            n.attr = "_P"
        elif isinstance(n, ast.Name) and _private(n.id):
            n.id = "_P"
        elif isinstance(n, (ast.FunctionDef, ast.AsyncFunctionDef)):
            if _private(n.name):
                n.name = "_P"
            if n.body and isinstance(n.body[0], ast.Expr) and isinstance(n.body[0].value, ast.Constant) \
                    and isinstance(n.body[0].value.value, str):
                n.body = n.body[1:] or [ast.Pass()]
    return hashlib.sha1(ast.dump(g, annotate_fields=False, include_attributes=False).encode()).hexdigest()[:20], names


def scopes_of(tree):
    """{scope name ('' = module level): {routine name: FunctionDef}}"""
    out = {"": {}}
    for st in tree.body:
        if isinstance(st, (ast.FunctionDef, ast.AsyncFunctionDef)):
            out[""][st.name] = st
        elif isinstance(st, ast.ClassDef):
            out[st.name] = {m.name: m for m in st.body if isinstance(m, (ast.FunctionDef, ast.AsyncFunctionDef))}
    return out


def relocate_private_names(asts):
    path = os.path.join(os.path.dirname(os.path.dirname(os.path.abspath(__file__))), "spec", "anchor_fingerprints.json")
    if not os.path.exists(path):
        return {}
    import json
    table = json.load(open(path))
    defined_anywhere = {}
    for rel, tree in asts.items():
        for scope, fns in scopes_of(tree).items():
            for name in fns:
                defined_anywhere.setdefault(name, []).append((rel, scope))
    known_names = {name for rel_, scopes in table.items() if rel_ != "__classes__" for fns in scopes.values() for name in fns}
    renames = {}          # new name -> (old name, rel, scope)
    for rel, scopes in table.items():
        if rel not in asts or rel == "__classes__":
            continue
        cur = scopes_of(asts[rel])
        for scope, fns in scopes.items():
            have = cur.get(scope)
            if have is None:
                continue
            for old, fp in fns.items():
                if old in have:
                    continue
                cands = [n for n, f in have.items() if _private(n) and n not in known_names and len(defined_anywhere.get(n, [])) == 1
                         and fingerprint(f) == fp]
                if len(cands) == 1 and cands[0] not in renames:
                    renames[cands[0]] = (old, rel, scope)
    # whole classes that differ from the table only in the spelling of private names (attributes included)
    known_attrs = {n for cl in table.get("__classes__", {}).values() for c in cl.values() for n in c["names"]}
    for rel, classes in table.get("__classes__", {}).items():
        if rel not in asts:
            continue
        for st in asts[rel].body:
            if isinstance(st, ast.ClassDef) and st.name in classes:
                fp, names = class_shape(st)
                ref = classes[st.name]
                if fp != ref["fp"] or len(names) != len(ref["names"]) or names == ref["names"]:
                    continue
                pairs = {(a, b) for a, b in zip(names, ref["names"]) if a != b}
                news = {a for a, _ in pairs}
                if len(news) != len(pairs) or any(a in known_attrs or a in known_names for a in news) \
                        or any(b in names for _, b in pairs):
                    continue
                for a, b in pairs:
                    if a not in renames:
                        renames[a] = (b, rel, st.name)
    if not renames:
        return {}
    for rel, tree in asts.items():
        for n in ast.walk(tree):
            if isinstance(n, (ast.FunctionDef, ast.AsyncFunctionDef)) and n.name in renames:
                n.name = renames[n.name][0]
            elif isinstance(n, ast.Attribute) and n.attr in renames:
                n.attr = renames[n.attr][0]
            elif isinstance(n, ast.Name) and n.id in renames:
                n.id = renames[n.id][0]
            elif isinstance(n, ast.alias) and n.name in renames:
                n.name = renames[n.name][0]
    return {new: f"{rel}:{scope + '.' if scope else ''}{old}" for new, (old, rel, scope) in renames.items()}
