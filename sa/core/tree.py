"""Source model: a SourceTree is a mapping  relative path -> source text.

The real tree is loaded from $VERIF_REPO (default /repo) on every run.  Variants
used for self-validation are in-memory overlays of the same mapping; nothing is
ever written into the repository.
"""
import ast
import hashlib
import os

REPO_ROOT = os.environ.get("VERIF_REPO", "/repo")
PACKAGE = "pycaption"


class AnalysisError(Exception):
    """The analysis cannot give a verdict (anchor vanished, unsupported
    construct).  Never a property violation; exit status 2."""


class SourceTree:
    def __init__(self, files, root=REPO_ROOT, label="worktree"):
        self.files = dict(files)
        self.root = root
        self.label = label
        self._asts = {}

    @classmethod
    def load(cls, root=None):
        root = root or REPO_ROOT
        pkg = os.path.join(root, PACKAGE)
        if not os.path.isdir(pkg):
            raise AnalysisError(f"package directory {pkg} not found")
        files = {}
        for dirpath, dirnames, filenames in os.walk(pkg):
            dirnames[:] = sorted(d for d in dirnames if d != "__pycache__")
            for fn in sorted(filenames):
                if fn.endswith(".py"):
                    full = os.path.join(dirpath, fn)
                    rel = os.path.relpath(full, root)
                    with open(full, encoding="utf-8") as fh:
                        files[rel] = fh.read()
        if not files:
            raise AnalysisError("no python sources found")
        return cls(files, root=root)

    def overlay(self, changes, label="variant"):
        files = dict(self.files)
        files.update(changes)
        return SourceTree(files, root=self.root, label=label)

    def ast(self, rel):
        if rel not in self._asts:
            try:
                self._asts[rel] = ast.parse(self.files[rel], filename=rel)
            except SyntaxError as e:
                raise AnalysisError(f"{rel} does not parse: {e}")
        return self._asts[rel]

    def digests(self):
        return {rel: hashlib.sha256(src.encode()).hexdigest()[:16]
                for rel, src in sorted(self.files.items())}

    def digest(self):
        h = hashlib.sha256()
        for rel, src in sorted(self.files.items()):
            h.update(rel.encode())
            h.update(b"\0")
            h.update(src.encode())
            h.update(b"\0")
        return h.hexdigest()[:16]
