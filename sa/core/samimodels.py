"""Stand-ins for the third-party / stdlib classes the SAMI reader is built on, for use inside the evaluator
(sa/core/constfold.py, `external_models`).  Nothing here imports pycaption, bs4, lxml or cssutils.

* `HtmlParserModel` - the base class of `SAMIParser`: **the stdlib tokenizer itself** (`html.parser.HTMLParser`); every
  `handle_*` callback is dispatched to the method the in-package subclass defines (folded by the evaluator) or, when it
  defines none, to HTMLParser's own default (a no-op; `handle_startendtag` = start + end).
* `css_parse_string` / `ColorValue` - the two cssutils entry points `SAMIParser._css_parse` uses, as a parser of the
  small CSS subset the generated stylesheets are written in (written from CSS 2.1, section 4.1.1 and 4.3.6, and from
  what cssutils documents about `Property.name` / `Property.value`: names are lower-cased, values keep their spelling
  with units lower-cased, numbers normalised, #aabbcc shortened to #abc and strings double-quoted).  Anything outside that subset - comments, at-rules, a property given
  twice in one rule, numbers that cssutils would re-spell, colour forms other than #rgb / #rrggbb / rgb(r, g, b) / the 17
  CSS 2.1 colour names - raises ModelError, which the evaluator reports as ANALYSIS-ERROR (never a verdict).
"""
import html.parser
import re

from .soupmodel import HostModel, ModelError


class HtmlParserModel(HostModel):
    """html.parser.HTMLParser as a base class of an in-package class"""

    def __init__(self, *args, convert_charrefs=True, **kw):
        if args or kw:
            raise ModelError("HTMLParser(<arguments other than convert_charrefs>) is outside the model")
        self.convert_charrefs = convert_charrefs
        self._fold = None        # set by the evaluator after construction: the Folder ...
        self._obj = None         # ... and the stub of the in-package object this is the base-class part of
        model = self

        class _P(html.parser.HTMLParser):
            def handle_starttag(s, tag, attrs):
                model._cb("handle_starttag", [tag, [(k, v) for k, v in attrs]])

            def handle_endtag(s, tag):
                model._cb("handle_endtag", [tag])

            def handle_startendtag(s, tag, attrs):
                if not model._cb("handle_startendtag", [tag, [(k, v) for k, v in attrs]]):
                    model._cb("handle_starttag", [tag, [(k, v) for k, v in attrs]])
                    model._cb("handle_endtag", [tag])

            def handle_data(s, data):
                model._cb("handle_data", [data])

            def handle_entityref(s, name):
                model._cb("handle_entityref", [name])

            def handle_charref(s, name):
                model._cb("handle_charref", [name])

            def handle_comment(s, data):
                model._cb("handle_comment", [data])

            def handle_decl(s, decl):
                model._cb("handle_decl", [decl])

            def handle_pi(s, data):
                model._cb("handle_pi", [data])

            def unknown_decl(s, data):
                model._cb("unknown_decl", [data])
        self._p = _P(convert_charrefs=convert_charrefs)

    def _cb(self, name, args):
        """call the in-package override of a callback; False when the class defines none (HTMLParser's default applies)"""
        cls = self._obj.cls if self._obj is not None else None
        m = cls.find_method(name) if cls is not None else None
        if m is None:
            return False
        self._fold.call_function(m, args, {}, self_value=self._obj)
        return True

    def _sync(self):
        v = self._obj.attrs.get("convert_charrefs") if self._obj is not None else None
        self._p.convert_charrefs = self.convert_charrefs if v is None else bool(v)

    def feed(self, data):
        if not isinstance(data, str):
            raise ModelError("HTMLParser.feed(<non string>)")
        self._sync()
        try:
            self._p.feed(data)
        except AssertionError as e:
            raise ModelError(f"html.parser refused the markup: {e}")

    def close(self):
        self._sync()
        self._p.close()

    def reset(self):
        self._p.reset()

    def getpos(self):
        return self._p.getpos()


# ------------------------------------------------------------------------------------------------------------------ CSS
_CSS21_COLOURS = {
    "maroon": (128, 0, 0), "red": (255, 0, 0), "orange": (255, 165, 0), "yellow": (255, 255, 0), "olive": (128, 128, 0),
    "purple": (128, 0, 128), "fuchsia": (255, 0, 255), "white": (255, 255, 255), "lime": (0, 255, 0), "green": (0, 128, 0),
    "navy": (0, 0, 128), "blue": (0, 0, 255), "aqua": (0, 255, 255), "teal": (0, 128, 128), "black": (0, 0, 0),
    "silver": (192, 192, 192), "gray": (128, 128, 128),
}


class CssProperty(HostModel):
    def __init__(self, name, value):
        self.name = name
        self.value = value

    def __repr__(self):
        return f"<css {self.name}: {self.value}>"


class CssRule(HostModel):
    def __init__(self, selector, props):
        self.selectorText = selector
        self.style = props            # iterable of CssProperty

    def __repr__(self):
        return f"<css rule {self.selectorText}>"


_NUM = re.compile(r"([+-]?)(\d*)(?:\.(\d+))?([A-Za-z%]*)$")


def _value(v):
    """the value as cssutils would hand it back: the subset where that is the source spelling with single blanks"""
    v = re.sub(r"\s+", " ", v.strip())
    out = []
    for part in re.split(r"(\s|,)", v):
        if part in (" ", ",", ""):
            out.append(part)
            continue
        m = _NUM.match(part)
        if m and (m.group(2) or m.group(3)):
            sign, whole, frac, unit = m.groups()
            if (len(whole) > 1 and whole.startswith("0")) or (frac is not None and frac.endswith("0")) or whole == "" \
                    or unit != unit.lower():
                raise ModelError(f"CSS number {part!r}: cssutils would re-spell it (outside the model)")
        elif re.fullmatch(r"#[0-9A-Fa-f]{6}", part) and part[1] == part[2] and part[3] == part[4] and part[5] == part[6]:
            part = "#" + part[1] + part[3] + part[5]          # cssutils hands back the short form, case kept
        elif re.fullmatch(r"'[^'\"\\]*'", part):
            part = '"' + part[1:-1] + '"'                     # ... and strings double-quoted
        elif part.startswith("'"):
            raise ModelError(f"CSS string {part!r}: cssutils would re-quote it (outside the model)")
        elif part.startswith('"') or re.fullmatch(r"#[0-9A-Fa-f]{3}|#[0-9A-Fa-f]{6}", part) \
                or re.fullmatch(r"[A-Za-z_][A-Za-z0-9_-]*", part):
            pass
        else:
            raise ModelError(f"CSS value {v!r} is outside the model")
        out.append(part)
    s = "".join(out)
    return re.sub(r"\s*,\s*", ", ", s)


def css_parse_string(css, *a, **k):
    """cssutils.parseString on the subset: [CDO] (selector '{' declaration (';' declaration)* '}')* [CDC]"""
    if a or k:
        raise ModelError("cssutils.parseString(<options>) is outside the model")
    if not isinstance(css, str):
        raise ModelError("cssutils.parseString(<non string>)")
    text = css.replace("<!--", " ").replace("-->", " ")
    if "/*" in text or "@" in text:
        raise ModelError("CSS comments / at-rules are outside the model")
    rules = []
    pos = 0
    for m in re.finditer(r"([^{}]*)\{([^{}]*)\}", text):
        if text[pos:m.start()].strip():
            raise ModelError("CSS outside the rule-set grammar")
        pos = m.end()
        sel = re.sub(r"\s+", " ", m.group(1).strip())
        if not re.fullmatch(r"[.#]?[A-Za-z_][A-Za-z0-9_-]*", sel):
            raise ModelError(f"CSS selector {sel!r} is outside the model (one type, class or id selector)")
        props, seen = [], set()
        for decl in m.group(2).split(";"):
            if not decl.strip():
                continue
            if ":" not in decl:
                raise ModelError(f"CSS declaration {decl.strip()!r} without a colon")
            name, _, val = decl.partition(":")
            name = name.strip().lower()
            if not re.fullmatch(r"[a-z_][a-z0-9_-]*", name):
                raise ModelError(f"CSS property name {name!r} is outside the model")
            if name in seen:
                raise ModelError(f"CSS property {name!r} given twice in one rule (cascade order is outside the model)")
            seen.add(name)
            if re.fullmatch(r"\s*\[[^\[\](){};]*\]\s*", val):
                # a bracketed block (what SAMIWriter writes for a 'classes' list: classes: ['emph']) is no CSS value: cssutils
                # reports it to its log and DROPS the declaration (observed at development time, cssutils 2.x)
                continue
            props.append(CssProperty(name, _value(val)))
        rules.append(CssRule(sel, props))
    if text[pos:].strip():
        raise ModelError("CSS outside the rule-set grammar")
    return rules


class ColorValue(HostModel):
    """cssutils.css.ColorValue(text): red / green / blue"""

    def __init__(self, text=None, *a, **k):
        from .constfold import FoldRaise
        if a or k or not isinstance(text, str):
            raise ModelError("ColorValue(<other than one string>) is outside the model")
        t = text.strip()
        m3 = re.fullmatch(r"#([0-9A-Fa-f])([0-9A-Fa-f])([0-9A-Fa-f])", t)
        m6 = re.fullmatch(r"#([0-9A-Fa-f]{2})([0-9A-Fa-f]{2})([0-9A-Fa-f]{2})", t)
        mr = re.fullmatch(r"rgb\(\s*(\d{1,3})\s*,\s*(\d{1,3})\s*,\s*(\d{1,3})\s*\)", t)
        if m3:
            rgb = tuple(int(c * 2, 16) for c in m3.groups())
        elif m6:
            rgb = tuple(int(c, 16) for c in m6.groups())
        elif mr and all(int(c) <= 255 for c in mr.groups()):
            rgb = tuple(int(c) for c in mr.groups())
        elif t.lower() in _CSS21_COLOURS:
            rgb = _CSS21_COLOURS[t.lower()]
        elif re.fullmatch(r"[0-9A-Fa-f]{6}|[0-9A-Fa-f]{3}", t) and not re.fullmatch(r"[A-Za-z]+", t):
            raise FoldRaise(f"ColorValue: invalid colour {t!r}", "SyntaxErr")      # a hex value without '#': cssutils refuses it
        else:
            raise ModelError(f"colour {t!r} is outside the model (#rgb, #rrggbb, rgb(r, g, b), the 17 CSS 2.1 names)")
        self.red, self.green, self.blue = rgb


SAMI_MODELS = {
    "html.parser.HTMLParser": HtmlParserModel,
    "cssutils.parseString": css_parse_string,
    "cssutils.css.ColorValue": ColorValue,
}
