"""Constant folding of module-level data without importing the package.

A fuel-bounded evaluator of a whitelisted pure subset of Python: literals,
displays, comprehensions, arithmetic, string/dict/list methods, Enum classes,
module-local pure helper functions, f-strings.  Everything else raises
AnalysisError when (and only when) the value is requested.  No reader, writer
or model class is ever instantiated: calls to in-package classes fold to an
inert `Inst` record.
"""
import ast
import datetime as _dt
import re as _re
import itertools
import operator

from .tree import AnalysisError

_BIN = {
    ast.Add: operator.add, ast.Sub: operator.sub, ast.Mult: operator.mul, ast.Div: operator.truediv,
    ast.FloorDiv: operator.floordiv, ast.Mod: operator.mod, ast.Pow: operator.pow,
    ast.BitOr: operator.or_, ast.BitAnd: operator.and_, ast.BitXor: operator.xor,
    ast.LShift: operator.lshift, ast.RShift: operator.rshift,
}
_CMP = {
    ast.Eq: operator.eq, ast.NotEq: operator.ne, ast.Lt: operator.lt, ast.LtE: operator.le,
    ast.Gt: operator.gt, ast.GtE: operator.ge, ast.Is: operator.is_, ast.IsNot: operator.is_not,
    ast.In: lambda a, b: a in b, ast.NotIn: lambda a, b: a not in b,
}
_NO_DEFAULT = object()


class _Gen(list):
    """a folded generator expression: a list with a cursor, so that next() consumes"""
    pos = 0


def _next(it, default=_NO_DEFAULT):
    """next() over a folded iterable (generator expressions fold to lists: take the first element)"""
    if isinstance(it, _Gen):
        if it.pos < len(it):
            it.pos += 1
            return it[it.pos - 1]
        if default is _NO_DEFAULT:
            raise IndexError("StopIteration")
        return default
    if isinstance(it, (list, tuple)):
        raise TypeError("next() of a list")
    return next(it) if default is _NO_DEFAULT else next(it, default)


_EXTERNAL_TYPES = {"numbers.Number": None, "collections.abc.Mapping": dict, "collections.OrderedDict": dict,
                   "datetime.timedelta": None}


def _isinstance(v, t):
    ts = t if isinstance(t, tuple) and not (len(t) == 2 and t[0] == "external") else (t,)

    def conv(x):
        if isinstance(x, tuple) and len(x) == 2 and x[0] == "external" and x[1] in _EXTERNAL_TYPES:
            import importlib
            mod_, _, nm = x[1].rpartition(".")
            return getattr(importlib.import_module(mod_), nm)          # stdlib type, used for isinstance only
        return x
    ts = tuple(conv(x) for x in ts)
    if any(isinstance(x, ClassRef) for x in ts):
        # in-package classes: decided on class-backed stubs / instances by the MRO
        for x in ts:
            if isinstance(x, ClassRef):
                c = getattr(v, "cls", None)
                if c is not None and hasattr(c, "is_subclass_of") and (c is x.cls or c.is_subclass_of(x.cls)):
                    return True
            elif isinstance(x, type) and isinstance(v, x):
                return True
        return False
    if not all(isinstance(x, type) for x in ts):
        raise AnalysisError("constfold: isinstance against a non-builtin type")
    return isinstance(v, ts)


_BUILTINS = {
    "list": list, "tuple": tuple, "dict": dict, "set": set, "frozenset": frozenset, "len": len,
    "range": range, "str": str, "int": int, "float": float, "bool": bool, "sorted": sorted,
    "zip": zip, "enumerate": enumerate, "min": min, "max": max, "sum": sum, "abs": abs,
    "any": any, "all": all, "reversed": reversed, "chr": chr, "ord": ord, "round": round,
    "True": True, "False": False, "None": None, "isinstance": _isinstance, "repr": repr,
    "divmod": divmod, "pow": pow, "format": format, "next": _next, "iter": list,
}
_SAFE_METHODS = {
    str: {"join", "lower", "upper", "strip", "lstrip", "rstrip", "split", "replace", "startswith",
          "endswith", "format", "isdigit", "ljust", "rjust", "zfill", "title", "find", "count", "isspace",
          "splitlines", "partition", "rpartition", "rsplit", "isalpha", "isalnum", "casefold", "index", "rfind",
          "isnumeric", "isdecimal", "encode", "center", "capitalize", "swapcase", "isupper", "islower"},
    bytes: {"decode"},
    _re.Match: {"group", "groups", "start", "end", "span", "groupdict"},
    dict: {"items", "keys", "values", "get", "copy", "update", "setdefault", "pop"},
    list: {"append", "extend", "index", "count", "copy", "insert", "pop", "sort", "reverse"},
    tuple: {"index", "count"},
    float: {"is_integer", "hex", "as_integer_ratio"},
    _dt.timedelta: {"total_seconds"},
    int: {"bit_length"},
    set: {"add", "union", "update", "copy", "discard"},
    frozenset: {"union"},
}


_RE_FUNCS = ("match", "search", "fullmatch", "findall", "sub", "split", "finditer", "subn")


def _re_apply(name, args, kw):
    """a stdlib regular-expression function on folded (concrete) strings: pure"""
    args = [a.pattern if isinstance(a, RegexConst) else a for a in args]
    if not all(isinstance(a, (str, int)) or callable(a) for a in args):
        raise AnalysisError(f"constfold: re.{name} on a non-constant argument")
    try:
        r = getattr(_re, name)(*args, **kw)
    except _re.error as ex:
        raise FoldRaise(f"re.error: {ex}", "error")
    return list(r) if name == "finditer" else r


class Unknown:
    def __init__(self, why):
        self.why = why

    def __repr__(self):
        return f"<unknown: {self.why}>"


class RegexConst:
    def __init__(self, pattern, flags=0):
        self.pattern = pattern
        self.flags = flags

    def __repr__(self):
        return f"re.compile({self.pattern!r})"


class EnumMember:
    def __init__(self, cls, name, value):
        self.cls = cls
        self.name = name
        self.value = value

    def __repr__(self):
        return f"{self.cls.name}.{self.name}"

    def __hash__(self):
        return hash((self.cls.name, self.name))

    def __eq__(self, other):
        return isinstance(other, EnumMember) and other.cls is self.cls and other.name == self.name


class EnumClass:
    def __init__(self, name, members):
        self.name = name
        self.members = []
        for n, v in members:
            self.members.append(EnumMember(self, n, v))

    def __iter__(self):
        return iter(self.members)

    def by_value(self, v):
        for m in self.members:
            if m.value == v:
                return m
        raise AnalysisError(f"{self.name}({v!r}): no such member")

    def by_name(self, n):
        for m in self.members:
            if m.name == n:
                return m
        return None


class Inst:
    """Inert record of `Cls(args, kwargs)` for an in-package class."""

    def __init__(self, cls, args, kwargs):
        self.cls = cls
        self.args = args
        self.kwargs = kwargs

    def __repr__(self):
        return f"{self.cls.name}({', '.join(map(repr, self.args))}{', ' if self.args and self.kwargs else ''}" \
               f"{', '.join(f'{k}={v!r}' for k, v in self.kwargs.items())})"


class Stub:
    """A stand-in object handed to a folded function by a rule (e.g. a regex match with
    given groups, a tag with given attributes): named attributes and pure methods."""

    def __init__(self, name, attrs=None, methods=None, cls=None):
        self.name = name
        self.attrs = dict(attrs or {})
        self.methods = dict(methods or {})
        self.cls = cls          # ClassInfo: other methods / class attributes are taken from this class

    def __repr__(self):
        return f"<stub {self.name}>"

    def __bool__(self):
        if "__list__" in self.attrs:
            return bool(self.attrs["__list__"])
        if self.cls is not None and (self.cls.find_method("__bool__") is not None or self.cls.find_method("__len__") is not None):
            # the class defines its own truth value: Python's default would be a wrong answer, not a refusal
            raise AnalysisError(f"constfold: truth value of {self!r} is defined by its class (not folded)")
        return True

    def __deepcopy__(self, memo):
        import copy
        new = Stub(self.name, None, self.methods, self.cls)      # the class and the rule's stand-in methods are shared
        memo[id(self)] = new
        new.attrs = copy.deepcopy(self.attrs, memo)
        return new

    def __iter__(self):
        if "__list__" in self.attrs:
            return iter(list(self.attrs["__list__"]))
        raise TypeError(f"{self!r} is not iterable")

    def __len__(self):
        if "__list__" in self.attrs:
            return len(self.attrs["__list__"])
        raise TypeError(f"{self!r} has no len()")

    def __getitem__(self, i):
        if "__list__" in self.attrs:
            return self.attrs["__list__"][i]
        raise TypeError(f"{self!r} is not subscriptable")

    @classmethod
    def match(cls, groups):
        """match-object stub: groups is {name or 1-based index: text or None}"""
        def group(*keys):
            if not keys:
                keys = (0,)
            vals = tuple(groups[k] for k in keys)
            return vals[0] if len(vals) == 1 else vals
        ordered = [groups[k] for k in sorted(k for k in groups if isinstance(k, int) and k > 0)]
        return cls("match", {}, {"group": group, "groups": lambda: tuple(ordered),
                                 "groupdict": lambda: {k: v for k, v in groups.items() if isinstance(k, str)}})


class FuncRef:
    def __init__(self, fn):
        self.fn = fn


class ClassRef:
    def __init__(self, cls):
        self.cls = cls


class FoldRaise(AnalysisError):
    """the folded code executed a `raise` statement (or an operation of it raised)"""
    exc_name = None
    exc_args = None

    def __init__(self, msg="", exc_name=None):
        super().__init__(msg)
        if exc_name is not None:
            self.exc_name = exc_name


class _Break(Exception):
    pass


class _Continue(Exception):
    pass


class _Return(Exception):
    def __init__(self, value):
        self.value = value


class Folder:
    def __init__(self, index, fuel=2_000_000):
        self.index = index
        self.fuel = fuel
        self._mod_env = {}
        self._in_progress = set()

    # -- public ------------------------------------------------------------
    def value(self, module, name):
        """Value of module-level `name` after the whole module body ran."""
        mod = self.index.modules[module] if isinstance(module, str) else module
        env = self.module_env(mod)
        if name not in env:
            raise AnalysisError(f"constfold: {mod.name}.{name} is not a module-level binding")
        v = env[name]
        if isinstance(v, Unknown):
            raise AnalysisError(f"constfold: cannot fold {mod.name}.{name}: {v.why}")
        return v

    def try_value(self, module, name, default=None):
        try:
            return self.value(module, name)
        except AnalysisError:
            return default

    def eval_in(self, module, expr, local=None):
        mod = self.index.modules[module] if isinstance(module, str) else module
        env = self.module_env(mod)
        return self._eval(expr, _Env(self, mod, env, local or {}))

    # -- module bodies -----------------------------------------------------
    def module_env(self, mod):
        if mod.name in self._mod_env:
            return self._mod_env[mod.name]
        if mod.name in self._in_progress:
            raise AnalysisError(f"constfold: import cycle at {mod.name}")
        self._in_progress.add(mod.name)
        env = {}
        self._mod_env[mod.name] = env
        e = _Env(self, mod, env, None)
        for st in mod.tree.body:
            self._module_stmt(st, e)
        self._in_progress.discard(mod.name)
        return env

    def _module_stmt(self, st, e):
        env = e.globals
        try:
            if isinstance(st, (ast.Import, ast.ImportFrom)):
                return  # resolved lazily through the index
            if isinstance(st, ast.FunctionDef):
                env[st.name] = FuncRef(e.mod.functions[st.name])
                return
            if isinstance(st, ast.ClassDef):
                env[st.name] = self._class_value(e.mod.classes[st.name])
                return
            if isinstance(st, (ast.Try, ast.If)):
                # conditional module code: bind names as unknown
                for n in ast.walk(st):
                    if isinstance(n, ast.Name) and isinstance(n.ctx, ast.Store):
                        env.setdefault(n.id, Unknown("bound in conditional module code"))
                return
            self._exec(st, e)
        except AnalysisError as err:
            for n in ast.walk(st):
                if isinstance(n, ast.Name) and isinstance(n.ctx, ast.Store):
                    env[n.id] = Unknown(str(err))
        except _Return:
            raise AnalysisError("return at module level")
        except (TypeError, ValueError, KeyError, IndexError, ZeroDivisionError, AttributeError) as err:
            for n in ast.walk(st):
                if isinstance(n, ast.Name) and isinstance(n.ctx, ast.Store):
                    env[n.id] = Unknown(f"{type(err).__name__}: {err}")

    def _class_value(self, ci):
        if any(isinstance(b, str) and b.split(".")[-1] in ("Enum", "IntEnum") for b in ci.mro()):
            members = []
            for n, vexpr in ci.class_attrs.items():
                if n.startswith("_"):
                    continue
                members.append((n, ast.literal_eval(vexpr)))
            return EnumClass(ci.name, members)
        return ClassRef(ci)

    # -- statements --------------------------------------------------------
    def _tick(self):
        self.fuel -= 1
        if self.fuel <= 0:
            raise AnalysisError("constfold: out of fuel")

    def _exec_block(self, body, e):
        for st in body:
            self._exec(st, e)

    def _exec(self, st, e):
        self._tick()
        if isinstance(st, ast.Assign):
            v = self._eval(st.value, e)
            for t in st.targets:
                self._assign(t, v, e)
        elif isinstance(st, ast.AnnAssign):
            if st.value is not None:
                self._assign(st.target, self._eval(st.value, e), e)
        elif isinstance(st, ast.AugAssign):
            cur = self._eval(_load(st.target), e)
            v = self._eval(st.value, e)
            self._assign(st.target, _BIN[type(st.op)](cur, v), e)
        elif isinstance(st, ast.Expr):
            self._eval(st.value, e)
        elif isinstance(st, ast.Return):
            raise _Return(self._eval(st.value, e) if st.value is not None else None)
        elif isinstance(st, ast.If):
            self._exec_block(st.body if self._eval(st.test, e) else st.orelse, e)
        elif isinstance(st, ast.For):
            broke = False
            for item in list(self._eval(st.iter, e)):
                self._assign(st.target, item, e)
                try:
                    self._exec_block(st.body, e)
                except _Continue:
                    continue
                except _Break:
                    broke = True
                    break
            if not broke:
                self._exec_block(st.orelse, e)
        elif isinstance(st, ast.While):
            broke = False
            while self._eval(st.test, e):
                self._tick()
                try:
                    self._exec_block(st.body, e)
                except _Continue:
                    continue
                except _Break:
                    broke = True
                    break
            if not broke:
                self._exec_block(st.orelse, e)
        elif isinstance(st, ast.Break):
            raise _Break()
        elif isinstance(st, ast.Continue):
            raise _Continue()
        elif isinstance(st, ast.Assert):
            if not self._eval(st.test, e):
                raise FoldRaise("AssertionError", "AssertionError")
        elif isinstance(st, ast.Pass):
            pass
        elif isinstance(st, ast.FunctionDef):
            e.set(st.name, ("closure", st, e))
        elif isinstance(st, ast.Try) and not st.finalbody:
            # lookups on folded containers raise the genuine exception types: handlers are matched by name
            try:
                self._exec_block(st.body, e)
            except FoldRaise as exc:
                hit = None
                for h in st.handlers:
                    names = []
                    if h.type is None:
                        names = [exc.exc_name]
                    elif isinstance(h.type, ast.Name):
                        names = [h.type.id]
                    elif isinstance(h.type, ast.Tuple):
                        names = [x.id for x in h.type.elts if isinstance(x, ast.Name)]
                    if exc.exc_name is not None and (exc.exc_name in names or "Exception" in names or "BaseException" in names
                                                     or self._exc_subclass(exc.exc_name, names, e)):
                        hit = h
                        break
                if hit is None:
                    raise
                if hit.name:
                    e.set(hit.name, exc)
                self._exec_block(hit.body, e)
            except (KeyError, IndexError, ValueError, TypeError, ZeroDivisionError) as exc:
                for h in st.handlers:
                    names = []
                    if h.type is None:
                        names = [type(exc).__name__]
                    elif isinstance(h.type, ast.Name):
                        names = [h.type.id]
                    elif isinstance(h.type, ast.Tuple):
                        names = [x.id for x in h.type.elts if isinstance(x, ast.Name)]
                    if any(n_ in (type(exc).__name__, "Exception", "LookupError" if isinstance(exc, LookupError) else "")
                           for n_ in names):
                        if h.name:
                            e.set(h.name, exc)
                        self._exec_block(h.body, e)
                        break
                else:
                    raise
            else:
                self._exec_block(st.orelse, e)
        elif isinstance(st, ast.Raise):
            fr = FoldRaise(f"raise {ast.unparse(st.exc)[:60] if st.exc is not None else ''}")
            exc = st.exc.func if isinstance(st.exc, ast.Call) else st.exc
            fr.exc_name = exc.id if isinstance(exc, ast.Name) else (exc.attr if isinstance(exc, ast.Attribute) else None)
            fr.exc_args = None
            if isinstance(st.exc, ast.Call) and not st.exc.keywords:
                try:
                    fr.exc_args = self._elts(st.exc.args, e)      # the message the program built
                except FoldRaise:
                    raise
                except AnalysisError:
                    fr.exc_args = None
            raise fr
        else:
            raise AnalysisError(f"constfold: unsupported statement {type(st).__name__}")

    def _assign(self, t, v, e):
        if isinstance(t, ast.Name):
            e.set(t.id, v)
        elif isinstance(t, (ast.Tuple, ast.List)):
            vals = list(v)
            if len(vals) != len(t.elts):
                raise AnalysisError("constfold: unpacking arity mismatch")
            for tt, vv in zip(t.elts, vals):
                self._assign(tt, vv, e)
        elif isinstance(t, ast.Attribute):
            obj = self._eval(t.value, e)
            if not isinstance(obj, Stub):
                raise AnalysisError("constfold: attribute store on a non-stub object")
            obj.attrs[t.attr] = v
        elif isinstance(t, ast.Subscript):
            obj = self._eval(t.value, e)
            if not isinstance(obj, (dict, list)):
                raise AnalysisError("constfold: subscript store on non-container")
            obj[self._eval(t.slice, e)] = v
        else:
            raise AnalysisError(f"constfold: unsupported assignment target {type(t).__name__}")

    # -- expressions -------------------------------------------------------
    def _eval(self, x, e):
        self._tick()
        if isinstance(x, ast.Constant):
            return x.value
        if isinstance(x, ast.Name):
            return e.get(x.id)
        if isinstance(x, ast.Tuple):
            return tuple(self._elts(x.elts, e))
        if isinstance(x, ast.List):
            return list(self._elts(x.elts, e))
        if isinstance(x, ast.Set):
            return set(self._elts(x.elts, e))
        if isinstance(x, ast.Dict):
            d = {}
            for k, v in zip(x.keys, x.values):
                if k is None:
                    d.update(self._eval(v, e))
                else:
                    d[self._eval(k, e)] = self._eval(v, e)
            return d
        if isinstance(x, ast.BinOp):
            l, r = self._eval(x.left, e), self._eval(x.right, e)
            if isinstance(x.op, ast.Mod) and isinstance(l, str):
                return l % r
            return _BIN[type(x.op)](l, r)
        if isinstance(x, ast.UnaryOp):
            v = self._eval(x.operand, e)
            if isinstance(x.op, ast.Not):
                return not v
            if isinstance(x.op, ast.USub):
                return -v
            if isinstance(x.op, ast.UAdd):
                return +v
            return ~v
        if isinstance(x, ast.BoolOp):
            if isinstance(x.op, ast.And):
                v = True
                for s in x.values:
                    v = self._eval(s, e)
                    if not v:
                        return v
                return v
            v = False
            for s in x.values:
                v = self._eval(s, e)
                if v:
                    return v
            return v
        if isinstance(x, ast.Compare):
            l = self._eval(x.left, e)
            for op, c in zip(x.ops, x.comparators):
                r = self._eval(c, e)
                if isinstance(r, EnumClass) and isinstance(op, (ast.In, ast.NotIn)):
                    res = l in r.members
                    res = res if isinstance(op, ast.In) else not res
                else:
                    res = _CMP[type(op)](l, r)
                if not res:
                    return False
                l = r
            return True
        if isinstance(x, ast.IfExp):
            return self._eval(x.body if self._eval(x.test, e) else x.orelse, e)
        if isinstance(x, ast.Subscript):
            obj = self._eval(x.value, e)
            if isinstance(x.slice, ast.Slice):
                lo = self._eval(x.slice.lower, e) if x.slice.lower else None
                hi = self._eval(x.slice.upper, e) if x.slice.upper else None
                stp = self._eval(x.slice.step, e) if x.slice.step else None
                return obj[lo:hi:stp]
            if isinstance(obj, EnumClass):
                m = obj.by_name(self._eval(x.slice, e))
                if m is None:
                    raise AnalysisError("constfold: enum member lookup failed")
                return m
            if isinstance(obj, Stub) and "__list__" in obj.attrs:
                m = obj.cls.find_method("__getitem__") if obj.cls is not None else None
                if m is not None:
                    return self.call_function(m, [self._eval(x.slice, e)], {}, self_value=obj)
                return obj.attrs["__list__"][self._eval(x.slice, e)]
            if not isinstance(obj, (dict, list, tuple, str)):
                raise AnalysisError(f"constfold: subscript on {type(obj).__name__}")
            return obj[self._eval(x.slice, e)]
        if isinstance(x, ast.Attribute):
            return self._attr(x, e)
        if isinstance(x, ast.Call):
            return self._call(x, e)
        if isinstance(x, ast.JoinedStr):
            out = []
            for v in x.values:
                if isinstance(v, ast.Constant):
                    out.append(v.value)
                else:
                    val = self._eval(v.value, e)
                    if isinstance(val, EnumMember):
                        val = f"{val.cls.name}.{val.name}"
                    spec = self._eval(v.format_spec, e) if v.format_spec else ""
                    if v.conversion == ord("r"):
                        val = repr(val)
                    elif v.conversion == ord("s"):
                        val = str(val)
                    out.append(format(val, spec))
            return "".join(out)
        if isinstance(x, (ast.ListComp, ast.SetComp, ast.GeneratorExp)):
            res = []
            self._comp(x.generators, 0, e, lambda ee: res.append(self._eval(x.elt, ee)))
            if isinstance(x, ast.GeneratorExp):
                return _Gen(res)
            return set(res) if isinstance(x, ast.SetComp) else res
        if isinstance(x, ast.DictComp):
            res = {}

            def put(ee):
                res[self._eval(x.key, ee)] = self._eval(x.value, ee)
            self._comp(x.generators, 0, e, put)
            return res
        if isinstance(x, ast.Starred):
            raise AnalysisError("constfold: starred expression")
        if isinstance(x, ast.Lambda):
            return ("lambda", x, e)
        raise AnalysisError(f"constfold: unsupported expression {type(x).__name__}")

    def _elts(self, elts, e):
        out = []
        for el in elts:
            if isinstance(el, ast.Starred):
                out.extend(self._eval(el.value, e))
            else:
                out.append(self._eval(el, e))
        return out

    def _comp(self, gens, i, e, emit):
        if i == len(gens):
            emit(e)
            return
        g = gens[i]
        for item in self._eval(g.iter, e):
            ee = e.child()
            self._assign(g.target, item, ee)
            if all(self._eval(c, ee) for c in g.ifs):
                self._comp(gens, i + 1, ee, emit)

    def _attr(self, x, e):
        # module attribute (import re; re.X) is handled in _call; here: objects
        base = x.value
        if isinstance(base, ast.Name) and not e.has(base.id):
            b = self.index.resolve(e.mod, base.id)
            if b is not None and b.kind == "module":
                return self.value(b.target, x.attr)
            if b is not None and b.kind == "external":
                return ("external", f"{b.target}.{x.attr}")
        obj = self._eval(base, e)
        if isinstance(obj, Stub):
            if x.attr in obj.attrs:
                return obj.attrs[x.attr]
            if obj.cls is not None:
                c, v = obj.cls.find_class_attr(x.attr)
                if c is not None:
                    return self._eval(v, _Env(self, c.module, self.module_env(c.module), {}))
                m = obj.cls.find_method(x.attr)
                if m is not None and m.kind == "property":
                    return self.call_function(m, [], {}, self_value=obj)
                if m is not None:
                    return ("bound", m, obj)
            raise AnalysisError(f"constfold: attribute {x.attr} of {obj!r}")
        import datetime as _dt
        if isinstance(obj, _dt.timedelta) and x.attr in ("days", "seconds", "microseconds"):
            return getattr(obj, x.attr)
        if isinstance(obj, EnumClass):
            m = obj.by_name(x.attr)
            if m is None:
                raise AnalysisError(f"constfold: {obj.name}.{x.attr}: no such member")
            return m
        if isinstance(obj, EnumMember):
            if x.attr == "value":
                return obj.value
            if x.attr == "name":
                return obj.name
        if isinstance(obj, Inst):
            if x.attr in obj.kwargs:
                return obj.kwargs[x.attr]
            init = obj.cls.find_method("__init__")
            if init is not None:
                params = init.params[1:]
                if x.attr in params:
                    i = params.index(x.attr)
                    if i < len(obj.args):
                        return obj.args[i]
                    # default value
                    a = init.node.args
                    pos = a.posonlyargs + a.args
                    defaults = dict(zip([p.arg for p in pos[len(pos) - len(a.defaults):]], a.defaults))
                    if x.attr in defaults:
                        return self._eval(defaults[x.attr], _Env(self, init.module,
                                                                 self.module_env(init.module), {}))
            raise AnalysisError(f"constfold: attribute {x.attr} of {obj!r}")
        if isinstance(obj, ClassRef):
            c, v = obj.cls.find_class_attr(x.attr)
            if c is not None:
                return self._eval(v, _Env(self, c.module, self.module_env(c.module), {}))
            m = obj.cls.find_method(x.attr)
            if m is not None:
                return FuncRef(m)
        raise AnalysisError(f"constfold: attribute {x.attr} on {type(obj).__name__}")

    def _call(self, x, e):
        f = x.func
        # method calls on folded values
        if isinstance(f, ast.Attribute):
            # external modules: re.compile, itertools.product
            if isinstance(f.value, ast.Name) and not e.has(f.value.id):
                b = self.index.resolve(e.mod, f.value.id)
                if b is not None and b.kind == "external":
                    return self._external(f"{b.target}.{f.attr}", x, e)
                if b is not None and b.kind == "module":
                    tgt = self.value(b.target, f.attr)
                    return self._apply(tgt, x, e)
            if isinstance(f.value, ast.Call) and isinstance(f.value.func, ast.Name) and f.value.func.id == "super" \
                    and not f.value.args:
                owner = e.owner
                if owner is None or owner.cls is None:
                    raise AnalysisError("constfold: super() outside a method")
                m = owner.cls.find_method(f.attr, after=owner.cls)
                selfv = e.get(owner.params[0])
                if m is None and isinstance(selfv, Stub) and "__list__" in selfv.attrs \
                        and f.attr in ("__init__", "append", "extend", "insert", "pop", "remove", "__len__", "__iter__", "clear"):
                    args = self._elts(x.args, e)
                    if f.attr == "__init__":
                        selfv.attrs["__list__"] = list(args[0]) if args else []
                        return None
                    if f.attr == "extend":
                        args = [list(args[0])]
                    return getattr(selfv.attrs["__list__"], f.attr)(*args)
                if m is None:
                    if f.attr == "__init__":
                        return None
                    raise AnalysisError(f"constfold: super().{f.attr} not found")
                args = self._elts(x.args, e)
                kw = {k.arg: self._eval(k.value, e) for k in x.keywords}
                return self.call_function(m, args, kw, self_value=selfv)
            if isinstance(f.value, ast.Name) and f.value.id == "list" and not e.has("list") \
                    and f.attr in ("__getitem__", "__len__", "__iter__", "__contains__", "__add__", "__mul__", "append", "extend"):
                args = self._elts(x.args, e)
                if args and isinstance(args[0], Stub) and "__list__" in args[0].attrs:
                    rest = [a.attrs["__list__"] if isinstance(a, Stub) and "__list__" in a.attrs else a for a in args[1:]]
                    try:
                        return getattr(list, f.attr)(args[0].attrs["__list__"], *rest)    # the inherited list behaviour
                    except IndexError as ex:
                        raise FoldRaise(f"IndexError: {ex}", "IndexError")
            obj = self._eval(f.value, e)
            if isinstance(obj, Stub):
                args = self._elts(x.args, e)
                kw = {k.arg: self._eval(k.value, e) for k in x.keywords}
                if f.attr in obj.methods:
                    return obj.methods[f.attr](*args, **kw)
                m = obj.cls.find_method(f.attr) if obj.cls is not None else None
                if m is not None:
                    return self.call_function(m, args, kw, self_value=obj)
                if "__list__" in obj.attrs and f.attr in _SAFE_METHODS[list] | {"clear", "remove"}:
                    if f.attr == "extend":
                        args = [list(args[0])]
                    return getattr(obj.attrs["__list__"], f.attr)(*args, **kw)     # inherited from list
                raise AnalysisError(f"constfold: method {f.attr} of {obj!r}")
            if isinstance(obj, Inst) and obj.cls.find_method(f.attr) is not None \
                    and obj.cls.find_method(f.attr).kind == "method":
                # a method of a freshly constructed in-package object: construct it for real first
                st = getattr(obj, "_stub", None)
                if st is None:
                    st = Stub(obj.cls.name, {}, cls=obj.cls)
                    init = obj.cls.find_method("__init__")
                    if init is not None:
                        try:
                            self.call_function(init, list(obj.args), dict(obj.kwargs), self_value=st)
                        except FoldRaise:
                            raise
                        except AnalysisError:
                            # the constructor is outside the evaluator: an object WITHOUT state - a method
                            # that reads an attribute is refused, one that does not is unaffected
                            st.attrs.clear()
                    obj._stub = st
                args = self._elts(x.args, e)
                kw = {k.arg: self._eval(k.value, e) for k in x.keywords}
                return self.call_function(obj.cls.find_method(f.attr), args, kw, self_value=st)
            if isinstance(obj, RegexConst) and f.attr in _RE_FUNCS:
                args = self._elts(x.args, e)
                kw = {k.arg: self._eval(k.value, e) for k in x.keywords}
                return _re_apply(f.attr, [obj.pattern] + args, dict(kw, flags=obj.flags))
            if isinstance(obj, (ClassRef, EnumClass, Inst)):
                tgt = self._attr(f, e)
                return self._apply(tgt, x, e)
            for ty, names in _SAFE_METHODS.items():
                if isinstance(obj, ty) and f.attr in names:
                    args = self._elts(x.args, e)
                    kw = {k.arg: self._eval(k.value, e) for k in x.keywords}
                    return getattr(obj, f.attr)(*args, **kw)
            raise AnalysisError(f"constfold: method {f.attr} on {type(obj).__name__}")
        if isinstance(f, ast.Name) and f.id in ("getattr", "setattr", "hasattr") and not e.has(f.id) and x.args:
            args = self._elts(x.args, e)
            obj, name = args[0], args[1]
            if not isinstance(name, str):
                raise AnalysisError("constfold: reflective access with a non-constant name")
            probe = ast.Attribute(value=ast.Name(id="__reflect__", ctx=ast.Load()), attr=name, ctx=ast.Load())
            ee = e.child()
            ee.set("__reflect__", obj)
            if f.id == "setattr":
                if not isinstance(obj, Stub):
                    raise AnalysisError("constfold: setattr on a non-stub object")
                obj.attrs[name] = args[2]
                return None
            try:
                v = self._attr(probe, ee)
            except AnalysisError:
                if f.id == "hasattr":
                    return False
                if len(args) > 2:
                    return args[2]
                raise
            return True if f.id == "hasattr" else v
        if isinstance(f, ast.Name):
            if e.has(f.id):
                return self._apply(e.get(f.id), x, e)
            b = self.index.resolve(e.mod, f.id)
            if b is not None and b.kind == "external":
                return self._external(b.target, x, e)
            if b is not None:
                return self._apply(e.get(f.id), x, e)
            if f.id in _BUILTINS and _BUILTINS[f.id] is not None:
                args = self._elts(x.args, e)
                kw = {k.arg: self._eval(k.value, e) for k in x.keywords}
                if f.id in ("list", "tuple", "sorted", "set", "len", "enumerate", "reversed") and args \
                        and isinstance(args[0], EnumClass):
                    args[0] = args[0].members
                r = _BUILTINS[f.id](*args, **kw)
                if f.id in ("zip", "enumerate", "reversed", "range"):
                    r = list(r)
                return r
        if isinstance(f, (ast.Call, ast.Subscript, ast.IfExp)):
            return self._apply(self._eval(f, e), x, e)      # the callee is itself computed
        raise AnalysisError(f"constfold: unsupported call {ast.unparse(x)[:80]}")

    def _external(self, dotted, x, e):
        args = self._elts(x.args, e)
        kw = {k.arg: self._eval(k.value, e) for k in x.keywords}
        if dotted == "re.compile":
            return RegexConst(args[0], args[1] if len(args) > 1 else kw.get("flags", 0))
        if dotted.startswith("re.") and dotted[3:] in _RE_FUNCS:
            return _re_apply(dotted[3:], args, kw)
        if dotted in ("xml.sax.saxutils.escape", "xml.sax.saxutils.unescape", "xml.sax.saxutils.quoteattr",
                      "html.escape", "html.unescape"):
            import importlib
            mod_, _, fn_ = dotted.rpartition(".")
            return getattr(importlib.import_module(mod_), fn_)(*args, **kw)   # stdlib, pure
        if dotted in ("collections.defaultdict",) and len(args) <= 1 and not kw:
            import collections
            if not args or args[0] in (list, dict, int, set, str):
                return collections.defaultdict(*args)
            if isinstance(args[0], (ClassRef, FuncRef)) or (isinstance(args[0], tuple) and args[0][:1] in (("lambda",), ("closure",))):
                empty = ast.Call(func=ast.Name(id="__factory__", ctx=ast.Load()), args=[], keywords=[])
                tgt = args[0]
                return collections.defaultdict(lambda: self._apply(tgt, empty, e))
        if dotted in ("collections.OrderedDict",):
            return dict(*args, **kw)         # insertion ordered, like every dict of the supported interpreters
        if dotted in ("fractions.Fraction", "decimal.Decimal", "math.floor", "math.ceil", "textwrap.fill", "textwrap.wrap",
                      "math.trunc", "copy.copy", "copy.deepcopy", "datetime.timedelta", "math.isclose", "math.fabs",
                      "unicodedata.normalize", "unicodedata.category", "unicodedata.combining", "string.capwords"):
            import importlib
            mod_, _, fn_ = dotted.rpartition(".")
            return getattr(importlib.import_module(mod_), fn_)(*args, **kw)   # stdlib, pure
        if dotted == "itertools.product":
            return list(itertools.product(*args, **kw))
        if dotted == "os.getenv" or dotted == "os.environ.get":
            # configuration read once at import: fold to the documented default
            return args[1] if len(args) > 1 else None
        if dotted in ("collections.namedtuple",):
            return ("namedtuple", args, kw)
        if dotted.startswith("re.") and dotted.split(".")[1] in ("I", "IGNORECASE", "M", "MULTILINE", "S",
                                                                 "DOTALL", "U", "UNICODE", "X", "VERBOSE"):
            import re
            return int(getattr(re, dotted.split(".")[1]))
        raise AnalysisError(f"constfold: call of external {dotted}")

    def _apply(self, tgt, x, e):
        args = self._elts(x.args, e)
        kw = {}
        for k in x.keywords:
            if k.arg is None:
                kw.update(self._eval(k.value, e))
            else:
                kw[k.arg] = self._eval(k.value, e)
        if isinstance(tgt, EnumClass):
            return tgt.by_value(args[0])
        if isinstance(tgt, ClassRef):
            if tgt.cls.name in getattr(self, "object_classes", ()):
                # a plain in-package value class a rule asked to have really constructed: run its __init__
                obj = Stub(tgt.cls.name, {}, cls=tgt.cls)
                ext = tgt.cls.external_bases()
                if any(b_.split(".")[-1] == "list" for b_ in ext):
                    obj.attrs["__list__"] = []
                init = tgt.cls.find_method("__init__")
                if init is not None:
                    self.call_function(init, args, kw, self_value=obj)
                elif "__list__" in obj.attrs and args:
                    obj.attrs["__list__"] = list(args[0])
                return obj
            return Inst(tgt.cls, args, kw)
        if isinstance(tgt, FuncRef):
            if tgt.fn.cls is not None and tgt.fn.kind in ("method", "property") and args:
                return self.call_function(tgt.fn, args[1:], kw, self_value=args[0])     # Class.method(obj, ...)
            return self.call_function(tgt.fn, args, kw)
        if isinstance(tgt, tuple) and tgt and tgt[0] == "bound":
            return self.call_function(tgt[1], args, kw, self_value=tgt[2] if tgt[1].kind != "staticmethod" else None)
        if isinstance(tgt, tuple) and tgt and tgt[0] == "closure":
            _, fdef, env = tgt
            ee = env.child()
            ps = [a.arg for a in fdef.args.posonlyargs + fdef.args.args]
            if len(args) > len(ps) or fdef.args.vararg or fdef.args.kwarg:
                raise AnalysisError("constfold: nested function call shape")
            for p_, a_ in zip(ps, args):
                ee.set(p_, a_)
            for k_, v_ in kw.items():
                ee.set(k_, v_)
            try:
                self._exec_block(fdef.body, ee)
            except _Return as r:
                return r.value
            return None
        if isinstance(tgt, tuple) and tgt and tgt[0] == "lambda":
            _, lam, env = tgt
            ee = env.child()
            for p, a in zip([a.arg for a in lam.args.args], args):
                ee.set(p, a)
            return self._eval(lam.body, ee)
        import types
        if isinstance(tgt, types.FunctionType):
            return tgt(*args, **kw)          # a stand-in supplied by the rule's stub (folded code cannot make one)
        raise AnalysisError(f"constfold: call of {type(tgt).__name__}")

    def _exc_subclass(self, name, handler_names, e):
        """is the in-package exception class `name` a subclass of one of handler_names?"""
        c = self.index.find_class(name) if hasattr(self.index, "find_class") else None
        try:
            if c is None:
                return False
            return any(getattr(b, "name", b) in handler_names for b in c.mro())
        except Exception:
            return False

    def call_value(self, tgt, args):
        """apply a folded callable (lambda, nested function, function reference) to Python values;
        for stub methods that receive callbacks"""
        if isinstance(tgt, tuple) and tgt and tgt[0] == "bound":
            return self.call_function(tgt[1], list(args), {}, self_value=tgt[2] if tgt[1].kind != "staticmethod" else None)
        if isinstance(tgt, tuple) and tgt and tgt[0] == "lambda":
            _, lam, env = tgt
            ee = env.child()
            for p_, a_ in zip([a.arg for a in lam.args.args], args):
                ee.set(p_, a_)
            return self._eval(lam.body, ee)
        if isinstance(tgt, tuple) and tgt and tgt[0] == "closure":
            _, fdef, env = tgt
            ee = env.child()
            for p_, a_ in zip([a.arg for a in fdef.args.posonlyargs + fdef.args.args], args):
                ee.set(p_, a_)
            try:
                self._exec_block(fdef.body, ee)
            except _Return as r:
                return r.value
            return None
        if isinstance(tgt, FuncRef):
            return self.call_function(tgt.fn, list(args))
        if callable(tgt):
            return tgt(*args)
        raise AnalysisError("constfold: value is not callable")

    def call_function(self, fn, args, kw=None, self_value=None):
        kw = kw or {}
        stub = getattr(self, "stubs", {}).get(fn.key)
        if stub is not None:
            return stub(*args, **kw)
        local = {}
        params = list(fn.params)
        if fn.cls is not None and fn.kind in ("method", "property"):
            if self_value is None:
                raise AnalysisError(f"constfold: instance method call {fn.key}")
            local[params[0]] = self_value
            params = params[1:]
        if fn.kind == "classmethod":
            local[params[0]] = ClassRef(fn.cls)
            params = params[1:]
        a = fn.node.args
        pos = a.posonlyargs + a.args
        defaults = dict(zip([p.arg for p in pos[len(pos) - len(a.defaults):]], a.defaults))
        menv = _Env(self, fn.module, self.module_env(fn.module), local)
        menv.owner = fn
        for i, p in enumerate(params):
            if i < len(args):
                local[p] = args[i]
            elif p in kw:
                local[p] = kw[p]
            elif p in defaults:
                local[p] = self._eval(defaults[p], menv)
            else:
                raise AnalysisError(f"constfold: missing argument {p} for {fn.key}")
        if a.vararg is not None:
            local[a.vararg.arg] = tuple(args[len(params):])
        elif len(args) > len(params):
            raise AnalysisError(f"constfold: too many arguments for {fn.key}")
        kwonly = {k.arg: d for k, d in zip(a.kwonlyargs, a.kw_defaults)}
        for k_, d_ in kwonly.items():
            if k_ in kw:
                local[k_] = kw[k_]
            elif d_ is not None:
                local[k_] = self._eval(d_, menv)
            else:
                raise AnalysisError(f"constfold: missing keyword-only argument {k_} for {fn.key}")
        if a.kwarg is not None:
            local[a.kwarg.arg] = {k_: v_ for k_, v_ in kw.items() if k_ not in params and k_ not in kwonly}
        self._depth = getattr(self, "_depth", 0) + 1
        if self._depth == 1:
            self.fuel = max(self.fuel, getattr(self, "fuel_per_call", 2_000_000))   # the bound is per top-level fold
        try:
            self._exec_block(fn.node.body, menv)
        except _Return as r:
            return r.value
        except (KeyError, IndexError, ValueError, TypeError, ZeroDivisionError, AttributeError) as exc:
            if self._depth == 1:
                # the folded program itself raised: an outcome of the fold, not a checker crash
                raise FoldRaise(f"{type(exc).__name__}: {exc}", type(exc).__name__)
            raise
        finally:
            self._depth -= 1
        return None


class _Env:
    def __init__(self, folder, mod, globals_, local):
        self.folder = folder
        self.mod = mod
        self.globals = globals_
        self.local = local      # None at module level
        self.parent = None
        self.owner = None       # FunctionInfo being folded (for super())

    def child(self):
        c = _Env(self.folder, self.mod, self.globals, {})
        c.parent = self
        c.owner = self.owner
        return c

    def has(self, name):
        s = self
        while s is not None:
            if s.local is not None and name in s.local:
                return True
            s = s.parent
        return name in self.globals

    def get(self, name):
        s = self
        while s is not None:
            if s.local is not None and name in s.local:
                return s.local[name]
            s = s.parent
        if name in self.globals:
            v = self.globals[name]
            if isinstance(v, Unknown):
                raise AnalysisError(f"constfold: {self.mod.name}.{name}: {v.why}")
            return v
        b = self.folder.index.resolve(self.mod, name)
        if b is not None:
            if b.kind in ("const", "func", "class") and b.module is not self.mod:
                return self.folder.value(b.module, b.name)
            if b.kind == "external":
                return ("external", b.target)
        if name in _BUILTINS:
            return _BUILTINS[name]
        raise AnalysisError(f"constfold: unbound name {name} in {self.mod.name}")

    def set(self, name, v):
        if self.local is None:
            self.globals[name] = v
        else:
            self.local[name] = v


def _load(t):
    import copy
    t = copy.copy(t)
    t.ctx = ast.Load()
    return t
