"""Constant folding of module-level data without importing the package.

A fuel-bounded evaluator of a whitelisted pure subset of Python: literals,
displays, comprehensions, arithmetic, string/dict/list methods, Enum classes,
module-local pure helper functions, f-strings.  Everything else raises
AnalysisError when (and only when) the value is requested.  No reader, writer
or model class is ever instantiated: calls to in-package classes fold to an
inert `Inst` record.
"""
import ast
import collections as _collections
import datetime as _dt
import re as _re
import itertools
import operator

from .tree import AnalysisError
from .soupmodel import HostModel, ModelError
from . import soupmodel as _soupmodel

_BIN = {
    ast.Add: operator.add, ast.Sub: operator.sub, ast.Mult: operator.mul, ast.Div: operator.truediv,
    ast.FloorDiv: operator.floordiv, ast.Mod: operator.mod, ast.Pow: operator.pow,
    ast.BitOr: operator.or_, ast.BitAnd: operator.and_, ast.BitXor: operator.xor,
    ast.LShift: operator.lshift, ast.RShift: operator.rshift,
}
_CMP = {
    ast.Eq: operator.eq, ast.NotEq: operator.ne, ast.Lt: operator.lt, ast.LtE: operator.le,
    ast.Gt: operator.gt, ast.GtE: operator.ge, ast.Is: operator.is_, ast.IsNot: operator.is_not,
    ast.In: lambda a, b: a in b, ast.NotIn: lambda a, b: a not in b,
}
_NO_DEFAULT = object()


class _Gen(list):
    """a folded generator expression: a list with a cursor, so that next() consumes"""
    pos = 0


def _next(it, default=_NO_DEFAULT):
    """next() over a folded iterable (generator expressions fold to lists: take the first element)"""
    if isinstance(it, _Gen):
        if it.pos < len(it):
            it.pos += 1
            return it[it.pos - 1]
        if default is _NO_DEFAULT:
            raise IndexError("StopIteration")
        return default
    if isinstance(it, (list, tuple)):
        raise TypeError("next() of a list")
    return next(it) if default is _NO_DEFAULT else next(it, default)


_STDLIB_CONSTS = {"html.entities.name2codepoint": dict, "html.entities.codepoint2name": dict, "html.entities.entitydefs": dict}
_EXTERNAL_TYPES = {"numbers.Number": None, "collections.abc.Mapping": dict, "collections.OrderedDict": dict,
                   "datetime.timedelta": None}


def _fold_repr(o):
    """repr() as Python computes it: the class's own __repr__ for an object of a folded class"""
    if isinstance(o, Stub) and o.cls is not None and Stub._active is not None:
        ok, v = o._dunder("__repr__")
        if ok:
            return v
        raise AnalysisError(f"constfold: repr() of {o!r} is the default object representation (address dependent)")
    if isinstance(o, (list, tuple, dict, set)) and any(isinstance(x, Stub) for x in (o.values() if isinstance(o, dict) else o)):
        raise AnalysisError("constfold: repr() of a container of folded objects")
    return repr(o)


def _isinstance(v, t):
    ts = t if isinstance(t, tuple) and not (len(t) == 2 and t[0] == "external") else (t,)

    def conv(x):
        if isinstance(x, tuple) and len(x) == 2 and x[0] == "external" and x[1] in _soupmodel.EXTERNAL_TYPES:
            return _soupmodel.EXTERNAL_TYPES[x[1]]
        if isinstance(x, tuple) and len(x) == 2 and x[0] == "external" and x[1] in _EXTERNAL_TYPES:
            import importlib
            mod_, _, nm = x[1].rpartition(".")
            return getattr(importlib.import_module(mod_), nm)          # stdlib type, used for isinstance only
        return x
    ts2 = []
    for x in ts:
        c_ = conv(x)
        ts2.extend(c_ if isinstance(c_, tuple) and all(isinstance(y, type) for y in c_) else [c_])
    ts = tuple(ts2)
    if any(isinstance(x, EnumClass) for x in ts):
        if any(isinstance(x, EnumClass) and isinstance(v, EnumMember) and v.cls is x for x in ts):
            return True
        ts = tuple(x for x in ts if not isinstance(x, EnumClass))
        if not ts:
            return False
    if any(isinstance(x, ClassRef) for x in ts):
        # in-package classes: decided on class-backed stubs / instances by the MRO
        for x in ts:
            if isinstance(x, ClassRef):
                c = getattr(v, "cls", None)
                if c is not None and hasattr(c, "is_subclass_of") and (c is x.cls or c.is_subclass_of(x.cls)):
                    return True
            elif isinstance(x, type) and isinstance(v, x):
                return True
        return False
    if not all(isinstance(x, type) for x in ts):
        raise AnalysisError(f"constfold: isinstance against a non-builtin type {ts!r:.80}")
    return isinstance(v, ts)


_BUILTINS = {
    "list": list, "tuple": tuple, "dict": dict, "set": set, "frozenset": frozenset, "len": len,
    "range": range, "str": str, "int": int, "float": float, "bool": bool, "sorted": sorted,
    "zip": zip, "enumerate": enumerate, "min": min, "max": max, "sum": sum, "abs": abs,
    "any": any, "all": all, "reversed": reversed, "chr": chr, "ord": ord, "round": round,
    "True": True, "False": False, "None": None, "isinstance": _isinstance, "repr": (lambda o: _fold_repr(o)),
    "divmod": divmod, "pow": pow, "format": format, "next": _next, "iter": list,
    "hash": hash, "id": id, "type": lambda v: _type_of(v), "vars": lambda v: _vars_of(v),
    "callable": lambda v: callable(v) or isinstance(v, (FuncRef, ClassRef)) or (
        isinstance(v, tuple) and v[:1] in (("bound",), ("lambda",), ("closure",))),
}
_SAFE_METHODS = {
    str: {"join", "lower", "upper", "strip", "lstrip", "rstrip", "split", "replace", "startswith",
          "endswith", "format", "isdigit", "ljust", "rjust", "zfill", "title", "find", "count", "isspace",
          "splitlines", "partition", "rpartition", "rsplit", "isalpha", "isalnum", "casefold", "index", "rfind",
          "isnumeric", "isdecimal", "encode", "center", "capitalize", "swapcase", "isupper", "islower", "rindex", "removeprefix",
          "removesuffix", "expandtabs", "istitle"},
    bytes: {"decode"},
    _re.Match: {"group", "groups", "start", "end", "span", "groupdict"},
    dict: {"items", "keys", "values", "get", "copy", "update", "setdefault", "pop"},
    list: {"append", "extend", "index", "count", "copy", "insert", "pop", "sort", "reverse", "remove", "clear"},
    tuple: {"index", "count"},
    float: {"is_integer", "hex", "as_integer_ratio"},
    int: {"is_integer", "bit_length", "as_integer_ratio", "to_bytes"},        # (int.is_integer: Python 3.12, the repo's interpreter)
    _dt.timedelta: {"total_seconds"},
    _collections.deque: {"append", "appendleft", "pop", "popleft", "clear", "extend", "count", "copy"},
    set: {"add", "union", "update", "copy", "discard"},
    frozenset: {"union"},
}


_RE_FUNCS = ("match", "search", "fullmatch", "findall", "sub", "split", "finditer", "subn")


def _re_apply(name, args, kw):
    """a stdlib regular-expression function on folded (concrete) strings: pure"""
    args = [a.pattern if isinstance(a, RegexConst) else a for a in args]
    if not all(isinstance(a, (str, int)) or callable(a) for a in args):
        raise AnalysisError(f"constfold: re.{name} on a non-constant argument")
    try:
        r = getattr(_re, name)(*args, **kw)
    except _re.error as ex:
        raise FoldRaise(f"re.error: {ex}", "error")
    return list(r) if name == "finditer" else r


class Unknown:
    def __init__(self, why):
        self.why = why

    def __repr__(self):
        return f"<unknown: {self.why}>"


class RegexConst:
    def __init__(self, pattern, flags=0):
        self.pattern = pattern
        self.flags = flags

    def __repr__(self):
        return f"re.compile({self.pattern!r})"


class EnumMember:
    def __init__(self, cls, name, value):
        self.cls = cls
        self.name = name
        self.value = value

    def __repr__(self):
        return f"{self.cls.name}.{self.name}"

    def __deepcopy__(self, memo):
        return self            # enum members are singletons

    def __copy__(self):
        return self

    def __hash__(self):
        return hash((self.cls.name, self.name))

    def __eq__(self, other):
        return isinstance(other, EnumMember) and other.cls is self.cls and other.name == self.name


class EnumClass:
    def __init__(self, name, members):
        self.name = name
        self.members = []
        for n, v in members:
            self.members.append(EnumMember(self, n, v))

    def __deepcopy__(self, memo):
        return self

    def __iter__(self):
        return iter(self.members)

    def by_value(self, v):
        for m in self.members:
            if m.value == v:
                return m
        raise AnalysisError(f"{self.name}({v!r}): no such member")

    def by_name(self, n):
        for m in self.members:
            if m.name == n:
                return m
        return None


class Inst:
    """Inert record of `Cls(args, kwargs)` for an in-package class."""

    def __init__(self, cls, args, kwargs):
        self.cls = cls
        self.args = args
        self.kwargs = kwargs

    def __repr__(self):
        return f"{self.cls.name}({', '.join(map(repr, self.args))}{', ' if self.args and self.kwargs else ''}" \
               f"{', '.join(f'{k}={v!r}' for k, v in self.kwargs.items())})"


class Stub:
    """A stand-in object handed to a folded function by a rule (e.g. a regex match with
    given groups, a tag with given attributes): named attributes and pure methods."""

    def __init__(self, name, attrs=None, methods=None, cls=None):
        self.name = name
        self.attrs = dict(attrs or {})
        self.methods = dict(methods or {})
        self.cls = cls          # ClassInfo: other methods / class attributes are taken from this class

    def __repr__(self):
        return f"<stub {self.name}>"

    def __bool__(self):
        ok, v = self._dunder("__bool__")
        if ok:
            return bool(v)
        ok, v = self._dunder("__len__")
        if ok:
            return bool(v)
        if self._container() is not None:
            return bool(self._container())
        if self.cls is not None and (self.cls.find_method("__bool__") is not None or self.cls.find_method("__len__") is not None):
            # the class defines its own truth value: Python's default would be a wrong answer, not a refusal
            raise AnalysisError(f"constfold: truth value of {self!r} is defined by its class (not folded)")
        return True

    def _binary(name):
        def op(self, other):
            ok, v = self._dunder(name, other)
            return v if ok else NotImplemented       # Python then raises TypeError, as it would on the real object
        op.__name__ = name
        return op
    for _n in ("add", "radd", "sub", "rsub", "mul", "rmul", "truediv", "rtruediv", "floordiv", "mod", "lt", "le", "gt", "ge",
               "iadd", "isub", "imul"):
        locals()[f"__{_n}__"] = _binary(f"__{_n}__")
    del _n, _binary

    def __neg__(self):
        ok, v = self._dunder("__neg__")
        if ok:
            return v
        raise TypeError(f"bad operand type for unary -: {self!r}")

    def __str__(self):
        for name in ("__str__", "__repr__"):
            ok, v = self._dunder(name)
            if ok:
                return v
        if self.cls is not None and Stub._active is not None:
            raise AnalysisError(f"constfold: text of {self!r} is the default object representation (address dependent)")
        return self.__repr__()

    def __format__(self, spec):
        ok, v = self._dunder("__format__", spec)
        if ok:
            return v
        return format(self.__str__(), spec)

    def __deepcopy__(self, memo):
        import copy
        new = Stub(self.name, None, self.methods, self.cls)      # the class and the rule's stand-in methods are shared
        memo[id(self)] = new
        new.attrs = copy.deepcopy(self.attrs, memo)
        return new

    _active = None          # the Folder currently evaluating: lets host iteration / truth tests fold the class's dunders

    def _dunder(self, name, *args):
        """fold the class's own special method, if it has one: (True, value) or (False, None)"""
        m = self.cls.find_method(name) if self.cls is not None else None
        if m is None or Stub._active is None:
            return False, None
        return True, Stub._active.call_function(m, list(args), {}, self_value=self)

    def _container(self):
        if "__list__" in self.attrs:
            return self.attrs["__list__"]
        if "__dict__" in self.attrs:
            return self.attrs["__dict__"]
        return None

    def __iter__(self):
        ok, v = self._dunder("__iter__")
        if ok:
            return iter(list(v))
        c = self._container()
        if c is not None:
            return iter(list(c))
        raise TypeError(f"{self!r} is not iterable")

    def __len__(self):
        ok, v = self._dunder("__len__")
        if ok:
            return v
        c = self._container()
        if c is not None:
            return len(c)
        raise TypeError(f"{self!r} has no len()")

    def __getitem__(self, i):
        c = self._container()
        if c is not None:
            return c[i]
        raise TypeError(f"{self!r} is not subscriptable")

    def __contains__(self, x):
        c = self._container()
        if c is not None:
            return x in c
        raise TypeError(f"{self!r} is not a container")

    def __eq__(self, other):
        if self is other:
            return True
        ok, v = self._dunder("__eq__", other)
        if ok:
            return bool(v)
        if self.cls is not None and self.cls.find_method("__eq__") is not None:
            # the class defines equality: identity would be a wrong answer, not a refusal (the evaluator
            # folds __eq__ itself for == / != ; this is reached only from host containers)
            raise AnalysisError(f"constfold: equality of {self!r} is defined by its class (not folded here)")
        if isinstance(other, Stub) and self._container() is not None and other._container() is not None:
            return self._container() == other._container()
        c = self._container()
        if c is not None and isinstance(other, (list, dict)):
            return c == other
        return False

    def __ne__(self, other):
        return not self.__eq__(other)

    def __hash__(self):
        ok, v = self._dunder("__hash__")
        if ok:
            return v
        if self.cls is not None and (self.cls.find_method("__hash__") is not None or self.cls.find_method("__eq__") is not None):
            raise AnalysisError(f"constfold: hash of {self!r} is defined by its class (not folded)")
        return id(self)

    @classmethod
    def match(cls, groups):
        """match-object stub: groups is {name or 1-based index: text or None}"""
        def group(*keys):
            if not keys:
                keys = (0,)
            vals = tuple(groups[k] for k in keys)
            return vals[0] if len(vals) == 1 else vals
        ordered = [groups[k] for k in sorted(k for k in groups if isinstance(k, int) and k > 0)]
        return cls("match", {}, {"group": group, "groups": lambda: tuple(ordered),
                                 "groupdict": lambda: {k: v for k, v in groups.items() if isinstance(k, str)}})


class FuncRef:
    def __init__(self, fn):
        self.fn = fn

    def __deepcopy__(self, memo):
        return self


class ClassRef:
    def __init__(self, cls):
        self.cls = cls

    def __eq__(self, other):
        return isinstance(other, ClassRef) and other.cls is self.cls

    def __ne__(self, other):
        return not self.__eq__(other)

    def __hash__(self):
        return id(self.cls)

    def __deepcopy__(self, memo):
        return self


def _vars_of(v):
    """vars(obj): the live attribute dictionary of a folded object"""
    if isinstance(v, Stub) and v.cls is not None:
        return v.attrs
    raise AnalysisError("constfold: vars() of a value that is not a folded object")


_GEN_CACHE = {}


def _is_generator(fdef):
    """does the function's own body (not a nested def / lambda) contain yield?"""
    k = id(fdef)
    if k not in _GEN_CACHE:
        _GEN_CACHE[k] = (fdef, _is_generator_uncached(fdef))      # the node is kept alive with its verdict
    return _GEN_CACHE[k][1]


def _is_generator_uncached(fdef):
    stack = list(fdef.body)
    while stack:
        n = stack.pop()
        if isinstance(n, (ast.Yield, ast.YieldFrom)):
            return True
        if isinstance(n, (ast.FunctionDef, ast.AsyncFunctionDef, ast.Lambda, ast.ClassDef)):
            continue
        stack.extend(ast.iter_child_nodes(n))
    return False


def _type_of(v):
    """type(x): the class of a folded object (comparable with == / is-by-value), the Python type of a plain value"""
    if isinstance(v, FoldRaise):
        name = v.exc_name

        def make(*args):
            fr = FoldRaise(f"raise {name}({', '.join(repr(a)[:40] for a in args)})", name)
            fr.exc_args = list(args)
            return fr
        return make
    if isinstance(v, Stub) and v.cls is not None:
        return ClassRef(v.cls)
    if isinstance(v, (Stub, Inst)):
        raise AnalysisError("constfold: type() of an object without a folded class")
    return type(v)


class FoldRaise(AnalysisError):
    """the folded code executed a `raise` statement (or an operation of it raised)"""
    exc_name = None
    exc_args = None

    def __init__(self, msg="", exc_name=None):
        super().__init__(msg)
        if exc_name is not None:
            self.exc_name = exc_name


class _Break(Exception):
    pass


class _Continue(Exception):
    pass


class _Return(Exception):
    def __init__(self, value):
        self.value = value


class _LazyGen:
    """A folded GENERATOR FUNCTION call.  The body runs in a helper thread used as a coroutine: strictly one of
    {consumer, body} runs at a time (hand-over by two semaphores), so the body's effects interleave with the consumer's
    exactly as Python's lazy evaluation does.  The body starts at the first next()."""

    def __init__(self, folder, body, env, label):
        import threading
        self.folder, self.body, self.env, self.label = folder, body, env, label
        self._to_body, self._to_consumer = threading.Semaphore(0), threading.Semaphore(0)
        self._thread = None
        self._item = self._error = None
        self._done = False
        env.generator = self

    def __iter__(self):
        return self

    def _run(self):
        self._to_body.acquire()
        try:
            self.folder._exec_block(self.body, self.env)
        except _Return:
            pass
        except BaseException as ex:        # noqa: BLE001 - handed to the consumer
            self._error = ex
        self._done = True
        self._to_consumer.release()

    def __next__(self):
        import threading
        if self._done:
            raise StopIteration
        if self._thread is None:
            self._thread = threading.Thread(target=self._run, daemon=True)
            self._thread.start()
        depth = getattr(self.folder, "_depth", 0)
        self._to_body.release()
        self._to_consumer.acquire()
        self.folder._depth = depth
        if self._error is not None:
            err, self._error = self._error, None
            raise err
        if self._done:
            raise StopIteration
        return self._item

    def _yield(self, value):
        """called from the body thread"""
        self._item = value
        self._to_consumer.release()
        self._to_body.acquire()
        return None


class Folder:
    def __init__(self, index, fuel=2_000_000, environ=None):
        self.index = index
        self.fuel = fuel
        # the process environment the folded program sees: None = no variable is set (documented defaults);
        # a string = EVERY variable is set to that value (the "configured" world of a configuration sweep)
        self.environ = environ
        self.process_state = {}      # process-wide settings the folded code changed (sys.setrecursionlimit, ...)
        self._mod_env = {}
        self._in_progress = set()

    # -- public ------------------------------------------------------------
    def value(self, module, name):
        """Value of module-level `name` after the whole module body ran."""
        mod = self.index.modules[module] if isinstance(module, str) else module
        env = self.module_env(mod)
        if name not in env:
            raise AnalysisError(f"constfold: {mod.name}.{name} is not a module-level binding")
        v = env[name]
        if isinstance(v, Unknown):
            raise AnalysisError(f"constfold: cannot fold {mod.name}.{name}: {v.why}")
        return v

    def try_value(self, module, name, default=None):
        try:
            return self.value(module, name)
        except AnalysisError:
            return default

    def eval_in(self, module, expr, local=None):
        mod = self.index.modules[module] if isinstance(module, str) else module
        env = self.module_env(mod)
        return self._eval(expr, _Env(self, mod, env, local or {}))

    # -- module bodies -----------------------------------------------------
    def module_env(self, mod):
        if mod.name in self._mod_env:
            return self._mod_env[mod.name]
        if mod.name in self._in_progress:
            raise AnalysisError(f"constfold: import cycle at {mod.name}")
        self._in_progress.add(mod.name)
        env = {}
        self._mod_env[mod.name] = env
        e = _Env(self, mod, env, None)
        for st in mod.tree.body:
            self._module_stmt(st, e)
        self._in_progress.discard(mod.name)
        return env

    def _module_stmt(self, st, e):
        env = e.globals
        try:
            if isinstance(st, (ast.Import, ast.ImportFrom)):
                return  # resolved lazily through the index
            if isinstance(st, ast.FunctionDef):
                env[st.name] = FuncRef(e.mod.functions[st.name])
                return
            if isinstance(st, ast.ClassDef):
                env[st.name] = self._class_value(e.mod.classes[st.name])
                return
            if isinstance(st, (ast.Try, ast.If)):
                # conditional module code: bind names as unknown
                for n in ast.walk(st):
                    if isinstance(n, ast.Name) and isinstance(n.ctx, ast.Store):
                        env.setdefault(n.id, Unknown("bound in conditional module code"))
                return
            self._exec(st, e)
        except AnalysisError as err:
            for n in ast.walk(st):
                if isinstance(n, ast.Name) and isinstance(n.ctx, ast.Store):
                    env[n.id] = Unknown(str(err))
        except _Return:
            raise AnalysisError("return at module level")
        except (TypeError, ValueError, KeyError, IndexError, ZeroDivisionError, AttributeError) as err:
            for n in ast.walk(st):
                if isinstance(n, ast.Name) and isinstance(n.ctx, ast.Store):
                    env[n.id] = Unknown(f"{type(err).__name__}: {err}")

    def _class_value(self, ci):
        if any(isinstance(b, str) and b.split(".")[-1] in ("Enum", "IntEnum") for b in ci.mro()):
            members = []
            for n, vexpr in ci.class_attrs.items():
                if n.startswith("_"):
                    continue
                members.append((n, ast.literal_eval(vexpr)))
            return EnumClass(ci.name, members)
        return ClassRef(ci)

    # -- statements --------------------------------------------------------
    def _tick(self):
        self.fuel -= 1
        if self.fuel <= 0:
            raise AnalysisError("constfold: out of fuel")

    def _exec_block(self, body, e):
        for st in body:
            self._exec(st, e)

    def _exec(self, st, e):
        self._tick()
        if isinstance(st, ast.Assign):
            v = self._eval(st.value, e)
            for t in st.targets:
                self._assign(t, v, e)
        elif isinstance(st, ast.AnnAssign):
            if st.value is not None:
                self._assign(st.target, self._eval(st.value, e), e)
        elif isinstance(st, ast.AugAssign):
            cur = self._eval(_load(st.target), e)
            v = self._eval(st.value, e)
            self._assign(st.target, _BIN[type(st.op)](cur, v), e)
        elif isinstance(st, ast.Expr):
            self._eval(st.value, e)
        elif isinstance(st, ast.Return):
            raise _Return(self._eval(st.value, e) if st.value is not None else None)
        elif isinstance(st, ast.If):
            self._exec_block(st.body if self._eval(st.test, e) else st.orelse, e)
        elif isinstance(st, ast.For):
            broke = False
            it_ = self._eval(st.iter, e)
            for item in (it_ if isinstance(it_, (_LazyGen, list)) else list(it_)):
                self._assign(st.target, item, e)
                try:
                    self._exec_block(st.body, e)
                except _Continue:
                    continue
                except _Break:
                    broke = True
                    break
            if not broke:
                self._exec_block(st.orelse, e)
        elif isinstance(st, ast.While):
            broke = False
            while self._eval(st.test, e):
                self._tick()
                try:
                    self._exec_block(st.body, e)
                except _Continue:
                    continue
                except _Break:
                    broke = True
                    break
            if not broke:
                self._exec_block(st.orelse, e)
        elif isinstance(st, ast.Break):
            raise _Break()
        elif isinstance(st, ast.Continue):
            raise _Continue()
        elif isinstance(st, ast.Assert):
            if not self._eval(st.test, e):
                raise FoldRaise("AssertionError", "AssertionError")
        elif isinstance(st, ast.Pass):
            pass
        elif isinstance(st, ast.FunctionDef):
            e.set(st.name, ("closure", st, e))
        elif isinstance(st, ast.With) and len(st.items) == 1 and st.items[0].optional_vars is None \
                and isinstance(st.items[0].context_expr, ast.Call) and not st.items[0].context_expr.keywords \
                and getattr(self.index.resolve_expr(e.mod, st.items[0].context_expr.func), "target", None) == "contextlib.suppress":
            # `with contextlib.suppress(A, B): body`  ==  `try: body` / `except (A, B): pass`
            types_ = st.items[0].context_expr.args
            handler = ast.ExceptHandler(type=ast.Tuple(elts=list(types_), ctx=ast.Load()), name=None, body=[ast.Pass()])
            self._exec(ast.copy_location(ast.Try(body=st.body, handlers=[handler], orelse=[], finalbody=[]), st), e)
        elif isinstance(st, ast.Try) and not st.finalbody:
            # lookups on folded containers raise the genuine exception types: handlers are matched by name
            try:
                self._exec_block(st.body, e)
            except FoldRaise as exc:
                hit = None
                for h in st.handlers:
                    names = []
                    if h.type is None:
                        names = [exc.exc_name]
                    elif isinstance(h.type, ast.Name):
                        names = [h.type.id]
                    elif isinstance(h.type, ast.Tuple):
                        names = [x.id for x in h.type.elts if isinstance(x, ast.Name)]
                    if exc.exc_name is not None and (exc.exc_name in names or "Exception" in names or "BaseException" in names
                                                     or self._exc_subclass(exc.exc_name, names, e)):
                        hit = h
                        break
                if hit is None:
                    raise
                if hit.name:
                    e.set(hit.name, exc)
                e.handling = exc
                try:
                    self._exec_block(hit.body, e)
                finally:
                    e.handling = None
            except (KeyError, IndexError, ValueError, TypeError, ZeroDivisionError) as exc:
                for h in st.handlers:
                    names = []
                    if h.type is None:
                        names = [type(exc).__name__]
                    elif isinstance(h.type, ast.Name):
                        names = [h.type.id]
                    elif isinstance(h.type, ast.Tuple):
                        names = [x.id for x in h.type.elts if isinstance(x, ast.Name)]
                    if any(n_ in (type(exc).__name__, "Exception", "LookupError" if isinstance(exc, LookupError) else "")
                           for n_ in names):
                        if h.name:
                            e.set(h.name, exc)
                        self._exec_block(h.body, e)
                        break
                else:
                    raise
            else:
                self._exec_block(st.orelse, e)
        elif isinstance(st, ast.Raise):
            if st.exc is None:
                cur = getattr(e, "handling", None)
                s_ = e
                while cur is None and s_ is not None:
                    cur = getattr(s_, "handling", None)
                    s_ = s_.parent
                if cur is None:
                    raise AnalysisError("constfold: bare raise outside an except block")
                raise cur
            if not (isinstance(st.exc, ast.Call) and isinstance(st.exc.func, ast.Name)) and not isinstance(st.exc, ast.Name) \
                    or (isinstance(st.exc, ast.Name) and e.has(st.exc.id) and isinstance(e.get(st.exc.id), FoldRaise)):
                v_ = self._eval(st.exc, e)          # an exception VALUE computed by the program
                if isinstance(v_, FoldRaise):
                    raise v_
                raise AnalysisError("constfold: raise of a computed value that is not a folded exception")
            fr = FoldRaise(f"raise {ast.unparse(st.exc)[:60] if st.exc is not None else ''}")
            exc = st.exc.func if isinstance(st.exc, ast.Call) else st.exc
            fr.exc_name = exc.id if isinstance(exc, ast.Name) else (exc.attr if isinstance(exc, ast.Attribute) else None)
            fr.exc_args = None
            if isinstance(st.exc, ast.Call) and not st.exc.keywords:
                try:
                    fr.exc_args = self._elts(st.exc.args, e)      # the message the program built
                except FoldRaise:
                    raise
                except AnalysisError:
                    fr.exc_args = None
                if fr.exc_args is not None and fr.exc_name:
                    fr.exc_args = self._exception_args(fr.exc_name, fr.exc_args, e)
            raise fr
        elif isinstance(st, ast.Global):
            e.global_names = tuple(set(getattr(e, "global_names", ())) | set(st.names))
        else:
            raise AnalysisError(f"constfold: unsupported statement {type(st).__name__}")

    def _assign(self, t, v, e):
        if isinstance(t, ast.Name):
            e.set(t.id, v)
        elif isinstance(t, (ast.Tuple, ast.List)):
            vals = list(v)
            if len(vals) != len(t.elts):
                raise AnalysisError("constfold: unpacking arity mismatch")
            for tt, vv in zip(t.elts, vals):
                self._assign(tt, vv, e)
        elif isinstance(t, ast.Attribute):
            obj = self._eval(t.value, e)
            if isinstance(obj, HostModel):
                try:
                    setattr(obj, t.attr, v)
                except ModelError as ex:
                    raise AnalysisError(f"constfold: {type(obj).__name__}.{t.attr} = ...: {ex}")
                return
            if not isinstance(obj, Stub):
                raise AnalysisError("constfold: attribute store on a non-stub object")
            if obj.cls is not None:
                # the class's own __setattr__, or a property setter, decides what is stored
                hook = obj.cls.find_method("__setattr__")
                if hook is not None:
                    return self.call_function(hook, [t.attr, v], {}, self_value=obj)
                for c_ in obj.cls.mro():
                    if not hasattr(c_, "setters"):
                        continue
                    if t.attr in c_.setters:
                        return self.call_function(c_.setters[t.attr], [v], {}, self_value=obj)
                    if t.attr in c_.methods:
                        break
            obj.attrs[t.attr] = v
        elif isinstance(t, ast.Subscript):
            obj = self._eval(t.value, e)
            if isinstance(obj, Stub) and obj._container() is not None:
                m = obj.cls.find_method("__setitem__") if obj.cls is not None else None
                if m is not None:
                    self.call_function(m, [self._eval(t.slice, e), v], {}, self_value=obj)
                    return
                obj = obj._container()
            if isinstance(obj, HostModel):
                obj[self._eval(t.slice, e)] = v
                return
            if not isinstance(obj, (dict, list)):
                raise AnalysisError("constfold: subscript store on non-container")
            obj[self._eval(t.slice, e)] = v
        else:
            raise AnalysisError(f"constfold: unsupported assignment target {type(t).__name__}")

    # -- expressions -------------------------------------------------------
    def _eval(self, x, e):
        self._tick()
        if isinstance(x, ast.Constant):
            return x.value
        if isinstance(x, ast.Name):
            return e.get(x.id)
        if isinstance(x, ast.Tuple):
            return tuple(self._elts(x.elts, e))
        if isinstance(x, ast.List):
            return list(self._elts(x.elts, e))
        if isinstance(x, ast.Set):
            return set(self._elts(x.elts, e))
        if isinstance(x, ast.Dict):
            d = {}
            for k, v in zip(x.keys, x.values):
                if k is None:
                    d.update(self._eval(v, e))
                else:
                    d[self._eval(k, e)] = self._eval(v, e)
            return d
        if isinstance(x, ast.BinOp):
            l, r = self._eval(x.left, e), self._eval(x.right, e)
            if isinstance(x.op, ast.Mod) and isinstance(l, str):
                return l % r
            return _BIN[type(x.op)](l, r)
        if isinstance(x, ast.UnaryOp):
            v = self._eval(x.operand, e)
            if isinstance(x.op, ast.Not):
                return not v
            if isinstance(x.op, ast.USub):
                return -v
            if isinstance(x.op, ast.UAdd):
                return +v
            return ~v
        if isinstance(x, ast.BoolOp):
            if isinstance(x.op, ast.And):
                v = True
                for s in x.values:
                    v = self._eval(s, e)
                    if not v:
                        return v
                return v
            v = False
            for s in x.values:
                v = self._eval(s, e)
                if v:
                    return v
            return v
        if isinstance(x, ast.Compare):
            l = self._eval(x.left, e)
            for op, c in zip(x.ops, x.comparators):
                r = self._eval(c, e)
                if isinstance(r, EnumClass) and isinstance(op, (ast.In, ast.NotIn)):
                    res = l in r.members
                    res = res if isinstance(op, ast.In) else not res
                elif isinstance(op, (ast.Eq, ast.NotEq)) and (
                        (isinstance(l, Stub) and l.cls is not None and l.cls.find_method("__eq__") is not None) or
                        (isinstance(r, Stub) and r.cls is not None and r.cls.find_method("__eq__") is not None)):
                    a_, b_ = (l, r) if isinstance(l, Stub) and l.cls is not None and l.cls.find_method("__eq__") is not None else (r, l)
                    ne = a_.cls.find_method("__ne__") if isinstance(op, ast.NotEq) else None
                    if ne is not None:
                        res = bool(self.call_function(ne, [b_], {}, self_value=a_))
                    else:
                        res = bool(self.call_function(a_.cls.find_method("__eq__"), [b_], {}, self_value=a_))
                        res = res if isinstance(op, ast.Eq) else not res
                else:
                    res = _CMP[type(op)](l, r)
                if not res:
                    return False
                l = r
            return True
        if isinstance(x, (ast.Yield, ast.YieldFrom)):
            g, s_ = None, e
            while s_ is not None and g is None:
                g = getattr(s_, "generator", None)
                s_ = s_.parent
            if g is None:
                raise AnalysisError("constfold: yield outside a folded generator function")
            if isinstance(x, ast.YieldFrom):
                for item in self._eval(x.value, e):
                    g._yield(item)
                return None
            return g._yield(self._eval(x.value, e) if x.value is not None else None)
        if isinstance(x, ast.IfExp):
            return self._eval(x.body if self._eval(x.test, e) else x.orelse, e)
        if isinstance(x, ast.Subscript):
            obj = self._eval(x.value, e)
            if isinstance(x.slice, ast.Slice):
                lo = self._eval(x.slice.lower, e) if x.slice.lower else None
                hi = self._eval(x.slice.upper, e) if x.slice.upper else None
                stp = self._eval(x.slice.step, e) if x.slice.step else None
                return obj[lo:hi:stp]
            if isinstance(obj, EnumClass):
                m = obj.by_name(self._eval(x.slice, e))
                if m is None:
                    raise AnalysisError("constfold: enum member lookup failed")
                return m
            if isinstance(obj, Stub) and obj._container() is not None:
                m = obj.cls.find_method("__getitem__") if obj.cls is not None else None
                if m is not None:
                    return self.call_function(m, [self._eval(x.slice, e)], {}, self_value=obj)
                return obj._container()[self._eval(x.slice, e)]
            if isinstance(obj, HostModel):
                return obj[self._eval(x.slice, e)]
            if isinstance(obj, _re.Match):
                try:
                    return obj[self._eval(x.slice, e)]          # m[1], m['name']: the same as m.group(...)
                except IndexError as ex:
                    raise FoldRaise(f"IndexError: {ex}", "IndexError")
            if not isinstance(obj, (dict, list, tuple, str, _collections.deque, bytes)):
                raise AnalysisError(f"constfold: subscript on {type(obj).__name__}")
            try:
                return obj[self._eval(x.slice, e)]
            except IndexError as ex:
                raise FoldRaise(f"IndexError: {ex}", "IndexError")
            except KeyError as ex:
                raise FoldRaise(f"KeyError: {ex}", "KeyError")
        if isinstance(x, ast.Attribute):
            return self._attr(x, e)
        if isinstance(x, ast.Call):
            return self._call(x, e)
        if isinstance(x, ast.JoinedStr):
            out = []
            for v in x.values:
                if isinstance(v, ast.Constant):
                    out.append(v.value)
                else:
                    val = self._eval(v.value, e)
                    if isinstance(val, EnumMember):
                        val = f"{val.cls.name}.{val.name}"
                    spec = self._eval(v.format_spec, e) if v.format_spec else ""
                    if v.conversion == ord("r"):
                        val = repr(val)
                    elif v.conversion == ord("s"):
                        val = str(val)
                    out.append(format(val, spec))
            return "".join(out)
        if isinstance(x, (ast.ListComp, ast.SetComp, ast.GeneratorExp)):
            res = []
            self._comp(x.generators, 0, e, lambda ee: res.append(self._eval(x.elt, ee)))
            if isinstance(x, ast.GeneratorExp):
                return _Gen(res)
            return set(res) if isinstance(x, ast.SetComp) else res
        if isinstance(x, ast.DictComp):
            res = {}

            def put(ee):
                res[self._eval(x.key, ee)] = self._eval(x.value, ee)
            self._comp(x.generators, 0, e, put)
            return res
        if isinstance(x, ast.Starred):
            raise AnalysisError("constfold: starred expression")
        if isinstance(x, ast.Lambda):
            return ("lambda", x, e)
        raise AnalysisError(f"constfold: unsupported expression {type(x).__name__}")

    def _kwargs(self, x, e):
        kw = {}
        for k in x.keywords:
            if k.arg is None:
                kw.update(self._eval(k.value, e))       # **mapping
            else:
                kw[k.arg] = self._eval(k.value, e)
        return kw

    def _elts(self, elts, e):
        out = []
        for el in elts:
            if isinstance(el, ast.Starred):
                out.extend(self._eval(el.value, e))
            else:
                out.append(self._eval(el, e))
        return out

    def _comp(self, gens, i, e, emit):
        if i == len(gens):
            emit(e)
            return
        g = gens[i]
        for item in self._eval(g.iter, e):
            ee = e.child()
            self._assign(g.target, item, ee)
            if all(self._eval(c, ee) for c in g.ifs):
                self._comp(gens, i + 1, ee, emit)

    def _attr(self, x, e):
        # module attribute (import re; re.X) is handled in _call; here: objects
        base = x.value
        if isinstance(base, ast.Name) and not e.has(base.id):
            b = self.index.resolve(e.mod, base.id)
            if b is not None and b.kind == "module":
                return self.value(b.target, x.attr)
            if b is not None and b.kind == "external":
                if b.target == "re" and x.attr in ("I", "IGNORECASE", "M", "MULTILINE", "S", "DOTALL", "U", "UNICODE", "X", "VERBOSE",
                                                   "A", "ASCII"):
                    return int(getattr(_re, x.attr))          # a flag is a number
                return ("external", f"{b.target}.{x.attr}")
        obj = self._eval(base, e)
        if isinstance(obj, Stub):
            if x.attr == "__dict__" and "__dict__" not in obj.attrs and "__list__" not in obj.attrs and obj.cls is not None:
                return obj.attrs          # the instance dictionary of a plain object (live: a memo stored there is an attribute)
            if x.attr in obj.attrs:
                return obj.attrs[x.attr]
            if obj.cls is not None:
                c, v = obj.cls.find_class_attr(x.attr)
                if c is not None:
                    cache = self.__dict__.setdefault("_class_attr_values", {})
                    k_ = (id(c), x.attr)
                    if k_ not in cache:
                        cache[k_] = self._eval(v, _Env(self, c.module, self.module_env(c.module), {}))
                    return cache[k_]
                m = obj.cls.find_method(x.attr)
                if m is not None and m.kind == "property":
                    return self.call_function(m, [], {}, self_value=obj)
                if m is not None:
                    return ("bound", m, obj)
            if obj.attrs.get("__model__") is not None:
                try:
                    return getattr(obj.attrs["__model__"], x.attr)
                except (AttributeError, ModelError) as ex:
                    raise AnalysisError(f"constfold: attribute {x.attr} of the modelled base: {ex}")
            raise AnalysisError(f"constfold: attribute {x.attr} of {obj!r}")
        if isinstance(obj, HostModel):
            try:
                return getattr(obj, x.attr)
            except ModelError as ex:
                raise AnalysisError(f"constfold: {type(obj).__name__}.{x.attr}: {ex}")
            except AttributeError:
                raise AnalysisError(f"constfold: {type(obj).__name__}.{x.attr} is outside the model")
        if isinstance(obj, FoldRaise):
            if x.attr == "args":
                return tuple(obj.exc_args) if obj.exc_args is not None else (str(obj),)
            if x.attr == "with_traceback":
                return lambda tb=None: obj
            raise AnalysisError(f"constfold: attribute {x.attr} of a caught exception")
        if isinstance(obj, RegexConst) and x.attr in ("pattern", "flags"):
            return obj.pattern if x.attr == "pattern" else (obj.flags or 0)
        if isinstance(obj, _dt.timedelta) and x.attr in ("days", "seconds", "microseconds"):
            return getattr(obj, x.attr)
        if isinstance(obj, tuple) and hasattr(obj, "_fields") and x.attr in obj._fields:
            return getattr(obj, x.attr)
        if isinstance(obj, EnumClass):
            m = obj.by_name(x.attr)
            if m is None:
                raise AnalysisError(f"constfold: {obj.name}.{x.attr}: no such member")
            return m
        if isinstance(obj, EnumMember):
            if x.attr == "value":
                return obj.value
            if x.attr == "name":
                return obj.name
        if isinstance(obj, Inst):
            if x.attr in obj.kwargs:
                return obj.kwargs[x.attr]
            init = obj.cls.find_method("__init__")
            if init is not None:
                params = init.params[1:]
                if x.attr in params:
                    i = params.index(x.attr)
                    if i < len(obj.args):
                        return obj.args[i]
                    # default value
                    a = init.node.args
                    pos = a.posonlyargs + a.args
                    defaults = dict(zip([p.arg for p in pos[len(pos) - len(a.defaults):]], a.defaults))
                    if x.attr in defaults:
                        return self._eval(defaults[x.attr], _Env(self, init.module,
                                                                 self.module_env(init.module), {}))
            raise AnalysisError(f"constfold: attribute {x.attr} of {obj!r}")
        if isinstance(obj, ClassRef):
            c, v = obj.cls.find_class_attr(x.attr)
            if c is not None:
                return self._eval(v, _Env(self, c.module, self.module_env(c.module), {}))
            m = obj.cls.find_method(x.attr)
            if m is not None:
                if m.kind == "classmethod":
                    return ("bound", m, obj)
                return FuncRef(m)
        raise AnalysisError(f"constfold: attribute {x.attr} on {type(obj).__name__}")

    def _call(self, x, e):
        f = x.func
        # method calls on folded values
        if isinstance(f, ast.Attribute):
            # external modules: re.compile, itertools.product
            if isinstance(f.value, ast.Name) and not e.has(f.value.id):
                b = self.index.resolve(e.mod, f.value.id)
                if b is not None and b.kind == "external":
                    return self._external(f"{b.target}.{f.attr}", x, e)
                if b is not None and b.kind == "module":
                    tgt = self.value(b.target, f.attr)
                    return self._apply(tgt, x, e)
            if isinstance(f.value, ast.Call) and isinstance(f.value.func, ast.Name) and f.value.func.id == "super" \
                    and not f.value.args:
                owner = e.owner
                if owner is None or owner.cls is None:
                    raise AnalysisError("constfold: super() outside a method")
                m = owner.cls.find_method(f.attr, after=owner.cls)
                selfv = e.get(owner.params[0])
                if m is None and isinstance(selfv, Stub) and "__list__" in selfv.attrs \
                        and f.attr in ("__init__", "append", "extend", "insert", "pop", "remove", "__len__", "__iter__", "clear"):
                    args = self._elts(x.args, e)
                    if f.attr == "__init__":
                        selfv.attrs["__list__"] = list(args[0]) if args else []
                        return None
                    if f.attr == "extend":
                        args = [list(args[0])]
                    return getattr(selfv.attrs["__list__"], f.attr)(*args)
                if m is None and isinstance(selfv, Stub) and selfv.attrs.get("__exc__") and f.attr == "__init__":
                    selfv.attrs["args"] = tuple(self._elts(x.args, e))
                    return None
                if m is None and isinstance(selfv, Stub) and "__model_cls__" in selfv.attrs:
                    args = [self._hostify(a) for a in self._elts(x.args, e)]
                    kw = self._kwargs(x, e)
                    return self._model_base_call(selfv, f.attr, args, kw)
                if m is None and isinstance(selfv, Stub) and "__dict__" in selfv.attrs \
                        and f.attr in ("__init__", "__setitem__", "__getitem__", "__contains__", "get", "pop", "update",
                                       "setdefault", "keys", "values", "items", "__len__", "__iter__", "clear", "__delitem__"):
                    args = self._elts(x.args, e)
                    kw = self._kwargs(x, e)
                    if f.attr == "__init__":
                        selfv.attrs["__dict__"] = dict(*args, **kw)
                        return None
                    r_ = getattr(selfv.attrs["__dict__"], f.attr)(*args, **kw)
                    return list(r_) if f.attr in ("keys", "values", "items", "__iter__") else r_
                if m is None and f.attr == "__setattr__" and isinstance(selfv, Stub):
                    name_, val_ = self._elts(x.args, e)
                    selfv.attrs[name_] = val_            # object.__setattr__: the plain store
                    return None
                if m is None:
                    if f.attr == "__init__":
                        return None
                    raise AnalysisError(f"constfold: super().{f.attr} not found")
                args = self._elts(x.args, e)
                kw = self._kwargs(x, e)
                return self.call_function(m, args, kw, self_value=selfv)
            if isinstance(f.value, ast.Name) and f.value.id == "object" and not e.has("object") and f.attr == "__setattr__":
                tgt_, name_, val_ = self._elts(x.args, e)
                if not isinstance(tgt_, Stub):
                    raise AnalysisError("constfold: object.__setattr__ on a non-stub object")
                tgt_.attrs[name_] = val_
                return None
            if isinstance(f.value, ast.Name) and f.value.id == "list" and not e.has("list") \
                    and f.attr in ("__getitem__", "__len__", "__iter__", "__contains__", "__add__", "__mul__", "append", "extend"):
                args = self._elts(x.args, e)
                if args and isinstance(args[0], Stub) and "__list__" in args[0].attrs:
                    rest = [a.attrs["__list__"] if isinstance(a, Stub) and "__list__" in a.attrs else a for a in args[1:]]
                    try:
                        return getattr(list, f.attr)(args[0].attrs["__list__"], *rest)    # the inherited list behaviour
                    except IndexError as ex:
                        raise FoldRaise(f"IndexError: {ex}", "IndexError")
            obj = self._eval(f.value, e)
            if isinstance(obj, tuple) and len(obj) == 2 and obj[0] == "external" and isinstance(obj[1], str):
                return self._external(f"{obj[1]}.{f.attr}", x, e)       # os.environ.get(...), an attribute of a library module
            if isinstance(obj, Stub):
                args = self._elts(x.args, e)
                kw = self._kwargs(x, e)
                if f.attr in obj.methods:
                    return obj.methods[f.attr](*args, **kw)
                m = obj.cls.find_method(f.attr) if obj.cls is not None else None
                if m is not None:
                    return self.call_function(m, args, kw, self_value=obj)
                if f.attr in obj.attrs:
                    return self._apply(obj.attrs[f.attr], x, e)         # a callable stored in an attribute
                if obj.attrs.get("__model__") is not None:
                    mdl = obj.attrs["__model__"]
                    try:
                        m_ = getattr(mdl, f.attr)
                    except AttributeError:
                        raise AnalysisError(f"constfold: {type(mdl).__name__}.{f.attr} is outside the model")
                    if not callable(m_):
                        raise AnalysisError(f"constfold: {type(mdl).__name__}.{f.attr} is not a method of the model")
                    try:
                        return m_(*[self._hostify(a) for a in args], **{k_: self._hostify(v_) for k_, v_ in kw.items()})
                    except ModelError as ex:
                        raise AnalysisError(f"constfold: {type(mdl).__name__}.{f.attr}: {ex}")
                if "__dict__" in obj.attrs and f.attr in _SAFE_METHODS[dict] | {"clear"}:
                    r_ = getattr(obj.attrs["__dict__"], f.attr)(*args, **kw)      # inherited from dict
                    return list(r_) if f.attr in ("keys", "values", "items") else r_
                if "__list__" in obj.attrs and f.attr in _SAFE_METHODS[list] | {"clear", "remove"}:
                    if f.attr == "extend":
                        args = [list(args[0])]
                    return getattr(obj.attrs["__list__"], f.attr)(*args, **kw)     # inherited from list
                raise AnalysisError(f"constfold: method {f.attr} of {obj!r}")
            if isinstance(obj, FoldRaise) and f.attr == "with_traceback":
                self._elts(x.args, e)
                return obj
            if isinstance(obj, HostModel):
                args = [self._hostify(a) for a in self._elts(x.args, e)]
                kw = {k_: self._hostify(v_) for k_, v_ in self._kwargs(x, e).items()}
                try:
                    m_ = getattr(obj, f.attr)
                except AttributeError:
                    raise AnalysisError(f"constfold: {type(obj).__name__}.{f.attr} is outside the model")
                if m_ is None or not callable(m_):
                    raise AnalysisError(f"constfold: {type(obj).__name__}.{f.attr} is not a method of the model")
                try:
                    r_ = m_(*args, **kw)
                except ModelError as ex:
                    raise AnalysisError(f"constfold: {type(obj).__name__}.{f.attr}: {ex}")
                return list(r_) if f.attr in ("keys", "values", "items") else r_
            if isinstance(obj, Inst) and obj.cls.find_method(f.attr) is not None \
                    and obj.cls.find_method(f.attr).kind == "method":
                # a method of a freshly constructed in-package object: construct it for real first
                st = getattr(obj, "_stub", None)
                if st is None:
                    st = Stub(obj.cls.name, {}, cls=obj.cls)
                    init = obj.cls.find_method("__init__")
                    if init is not None:
                        try:
                            self.call_function(init, list(obj.args), dict(obj.kwargs), self_value=st)
                        except FoldRaise:
                            raise
                        except AnalysisError:
                            # the constructor is outside the evaluator: an object WITHOUT state - a method
                            # that reads an attribute is refused, one that does not is unaffected
                            st.attrs.clear()
                    obj._stub = st
                args = self._elts(x.args, e)
                kw = self._kwargs(x, e)
                return self.call_function(obj.cls.find_method(f.attr), args, kw, self_value=st)
            if isinstance(obj, RegexConst) and f.attr in _RE_FUNCS:
                args = self._elts(x.args, e)
                kw = self._kwargs(x, e)
                return _re_apply(f.attr, [obj.pattern] + args, dict(kw, flags=obj.flags))
            if isinstance(obj, (ClassRef, EnumClass, Inst)):
                tgt = self._attr(f, e)
                return self._apply(tgt, x, e)
            for ty, names in _SAFE_METHODS.items():
                if isinstance(obj, ty) and f.attr in names:
                    args = self._elts(x.args, e)
                    kw = {k_: self._hostify(v_) for k_, v_ in self._kwargs(x, e).items()}
                    return getattr(obj, f.attr)(*args, **kw)
            if isinstance(obj, tuple) and hasattr(obj, "_fields") and f.attr in ("_replace", "_asdict"):
                r_ = getattr(obj, f.attr)(*self._elts(x.args, e), **self._kwargs(x, e))      # a namedtuple record
                return dict(r_) if f.attr == "_asdict" else r_
            if isinstance(obj, set) and f.attr == "pop" and len(obj) == 1 and not x.args:
                return obj.pop()           # one element: no dependence on hash order
            if isinstance(obj, set) and f.attr in ("remove", "clear", "intersection", "difference", "issubset", "issuperset"):
                return getattr(obj, f.attr)(*self._elts(x.args, e))
            raise AnalysisError(f"constfold: method {f.attr} on {type(obj).__name__}")
        if isinstance(f, ast.Name) and f.id in ("getattr", "setattr", "hasattr") and not e.has(f.id) and x.args:
            args = self._elts(x.args, e)
            obj, name = args[0], args[1]
            if not isinstance(name, str):
                raise AnalysisError("constfold: reflective access with a non-constant name")
            probe = ast.Attribute(value=ast.Name(id="__reflect__", ctx=ast.Load()), attr=name, ctx=ast.Load())
            ee = e.child()
            ee.set("__reflect__", obj)
            if f.id == "setattr":
                if not isinstance(obj, Stub):
                    raise AnalysisError("constfold: setattr on a non-stub object")
                obj.attrs[name] = args[2]
                return None
            try:
                v = self._attr(probe, ee)
            except AnalysisError:
                if f.id == "hasattr":
                    return False
                if len(args) > 2:
                    return args[2]
                raise
            return True if f.id == "hasattr" else v
        if isinstance(f, ast.Name):
            if e.has(f.id):
                return self._apply(e.get(f.id), x, e)
            b = self.index.resolve(e.mod, f.id)
            if b is not None and b.kind == "external":
                return self._external(b.target, x, e)
            if b is not None:
                return self._apply(e.get(f.id), x, e)
            if f.id in _BUILTINS and _BUILTINS[f.id] is not None:
                args = self._elts(x.args, e)
                kw = self._kwargs(x, e)
                if f.id in ("list", "tuple", "sorted", "set", "len", "enumerate", "reversed") and args \
                        and isinstance(args[0], EnumClass):
                    args[0] = args[0].members
                if f.id in ("sorted", "min", "max", "map", "filter", "any", "all", "sum"):
                    args = [self._hostify(a) for a in args]
                    kw = {k_: self._hostify(v_) for k_, v_ in kw.items()}
                r = _BUILTINS[f.id](*args, **kw)
                if f.id in ("zip", "enumerate", "reversed", "range"):
                    r = list(r)
                return r
        if isinstance(f, (ast.Call, ast.Subscript, ast.IfExp)):
            return self._apply(self._eval(f, e), x, e)      # the callee is itself computed
        raise AnalysisError(f"constfold: unsupported call {ast.unparse(x)[:80]}")

    def _model_base_call(self, selfv, attr, args, kw):
        """a method of a modelled third-party base class, called on the in-package object `selfv` (super().m(...) or
        Base.m(self, ...))"""
        if attr == "__init__":
            try:
                mdl = selfv.attrs["__model_cls__"](*[a for a in args], **{k_: v_ for k_, v_ in kw.items() if v_ is not None})
            except ModelError as ex:
                raise AnalysisError(f"constfold: {selfv.attrs['__model_cls__'].__name__}: {ex}")
            except TypeError as ex:
                raise AnalysisError(f"constfold: constructor of the modelled base class: {ex}")
            selfv.attrs["__model__"] = mdl
            if hasattr(mdl, "_fold") and hasattr(mdl, "_obj"):
                mdl._fold, mdl._obj = self, selfv         # a model that calls back into the object's own (folded) methods
            return None
        mdl = selfv.attrs.get("__model__")
        if mdl is None:
            raise AnalysisError("constfold: modelled base class used before its constructor ran")
        try:
            return getattr(mdl, attr)(*args, **kw)
        except ModelError as ex:
            raise AnalysisError(f"constfold: {type(mdl).__name__}.{attr}: {ex}")
        except AttributeError:
            raise AnalysisError(f"constfold: {type(mdl).__name__}.{attr} is outside the model")

    def stdlib_const(self, dotted):
        """a module-level constant of the standard library: ONE object per evaluator session (as in one process)"""
        cache = self.__dict__.setdefault("_stdlib_consts", {})
        if dotted not in cache:
            import importlib
            mod_, _, name_ = dotted.rpartition(".")
            cache[dotted] = _STDLIB_CONSTS[dotted](getattr(importlib.import_module(mod_), name_))
        return cache[dotted]

    def _external(self, dotted, x, e):
        args = self._elts(x.args, e)
        kw = self._kwargs(x, e)
        base_, _, meth_ = dotted.rpartition(".")
        if base_ in _STDLIB_CONSTS and meth_ in _SAFE_METHODS.get(type(self.stdlib_const(base_)), ()):
            return getattr(self.stdlib_const(base_), meth_)(*args, **kw)
        if base_ in getattr(self, "external_models", {}) and args and isinstance(args[0], Stub) \
                and "__model_cls__" in args[0].attrs:
            return self._model_base_call(args[0], meth_, [self._hostify(a) for a in args[1:]], kw)   # Base.m(self, ...)
        model = getattr(self, "external_models", {}).get(dotted)
        if model is not None:
            try:
                return model(*args, **kw)          # a stand-in for a third-party class, supplied by the rule
            except ModelError as ex:
                raise AnalysisError(f"constfold: {dotted}: {ex}")
        if dotted == "re.compile":
            return RegexConst(args[0], args[1] if len(args) > 1 else kw.get("flags", 0))
        if dotted == "re.escape":
            return _re.escape(*args)
        if dotted.startswith("re.") and dotted[3:] in _RE_FUNCS:
            return _re_apply(dotted[3:], args, kw)
        if dotted in ("xml.sax.saxutils.escape", "xml.sax.saxutils.unescape", "xml.sax.saxutils.quoteattr",
                      "html.escape", "html.unescape"):
            import importlib
            mod_, _, fn_ = dotted.rpartition(".")
            return getattr(importlib.import_module(mod_), fn_)(*args, **kw)   # stdlib, pure
        if dotted in ("collections.defaultdict",) and len(args) <= 1 and not kw:
            import collections
            if not args or args[0] in (list, dict, int, set, str):
                return collections.defaultdict(*args)
            if isinstance(args[0], (ClassRef, FuncRef)) or (isinstance(args[0], tuple) and args[0][:1] in (("lambda",), ("closure",))):
                empty = ast.Call(func=ast.Name(id="__factory__", ctx=ast.Load()), args=[], keywords=[])
                tgt = args[0]
                return collections.defaultdict(lambda: self._apply(tgt, empty, e))
        if dotted == "sys.getrecursionlimit":
            return self.process_state.setdefault("sys.recursionlimit", 1000)
        if dotted == "sys.setrecursionlimit":
            self.process_state["sys.recursionlimit"] = args[0]       # (observed by the reuse folds: a read leaves it alone)
            return None
        if dotted == "sys.exc_info":
            return (None, None, None)        # only the traceback slot is ever used (with_traceback), and that is ignored
        if dotted == "collections.deque":
            import collections
            return collections.deque(*args, **kw)
        if dotted in ("collections.OrderedDict",):
            return dict(*args, **kw)         # insertion ordered, like every dict of the supported interpreters
        if dotted in ("fractions.Fraction", "decimal.Decimal", "math.floor", "math.ceil", "textwrap.fill", "textwrap.wrap",
                      "math.trunc", "copy.copy", "copy.deepcopy", "datetime.timedelta", "math.isclose", "math.fabs",
                      "unicodedata.normalize", "unicodedata.category", "unicodedata.combining", "string.capwords"):
            import importlib
            mod_, _, fn_ = dotted.rpartition(".")
            return getattr(importlib.import_module(mod_), fn_)(*args, **kw)   # stdlib, pure
        if dotted == "itertools.product":
            return list(itertools.product(*args, **kw))
        if dotted in ("itertools.chain", "itertools.zip_longest", "itertools.islice", "itertools.accumulate", "itertools.takewhile",
                      "itertools.dropwhile", "itertools.starmap", "itertools.pairwise", "itertools.combinations",
                      "itertools.permutations", "itertools.filterfalse", "itertools.compress"):
            return list(getattr(itertools, dotted.split(".")[1])(*[self._hostify(a) for a in args],
                                                                 **{k_: self._hostify(v_) for k_, v_ in kw.items()}))
        if dotted == "itertools.chain.from_iterable":
            return list(itertools.chain.from_iterable(*args))
        if dotted == "itertools.groupby":
            return [(k_, list(g_)) for k_, g_ in itertools.groupby(*[self._hostify(a) for a in args],
                                                                     **{k2: self._hostify(v2) for k2, v2 in kw.items()})]
        if dotted == "itertools.repeat" and (len(args) == 2 or "times" in kw):
            return list(itertools.repeat(*args, **kw))
        if dotted == "functools.reduce":
            import functools
            return functools.reduce(*[self._hostify(a) for a in args])
        if dotted == "functools.partial":
            import functools
            return functools.partial(*[self._hostify(a) for a in args], **kw)
        if dotted == "os.getenv" or dotted == "os.environ.get":
            # configuration read once at import: fold to the documented default (or to the configured world's value)
            if self.environ is not None:
                return self.environ
            return args[1] if len(args) > 1 else None
        if dotted in ("collections.namedtuple",):
            import collections
            return collections.namedtuple(*args, **kw)       # a plain record type
        if dotted.startswith("re.") and dotted.split(".")[1] in ("I", "IGNORECASE", "M", "MULTILINE", "S",
                                                                 "DOTALL", "U", "UNICODE", "X", "VERBOSE"):
            import re
            return int(getattr(re, dotted.split(".")[1]))
        raise AnalysisError(f"constfold: call of external {dotted}")

    def _apply(self, tgt, x, e):
        args = self._elts(x.args, e)
        kw = {}
        for k in x.keywords:
            if k.arg is None:
                kw.update(self._eval(k.value, e))
            else:
                kw[k.arg] = self._eval(k.value, e)
        if isinstance(tgt, EnumClass):
            return tgt.by_value(args[0])
        if isinstance(tgt, tuple) and len(tgt) == 2 and tgt[0] == "external" \
                and tgt[1] in getattr(self, "external_models", {}):
            try:
                return self.external_models[tgt[1]](*args, **kw)      # a third-party class handed around as a value
            except ModelError as ex:
                raise AnalysisError(f"constfold: {tgt[1]}: {ex}")
        if isinstance(tgt, ClassRef):
            oc = getattr(self, "object_classes", ())
            if oc == "*" or tgt.cls.name in oc:
                # a plain in-package value class a rule asked to have really constructed: run its __init__
                obj = Stub(tgt.cls.name, {}, cls=tgt.cls)
                ext = tgt.cls.external_bases()
                if any(b_.split(".")[-1] == "list" for b_ in ext):
                    obj.attrs["__list__"] = []
                if any(b_.split(".")[-1] in ("dict", "OrderedDict") for b_ in ext):
                    obj.attrs["__dict__"] = {}
                for b_ in ext:
                    if b_ in getattr(self, "external_models", {}):
                        obj.attrs["__model_cls__"] = self.external_models[b_]     # a modelled third-party base class
                init = tgt.cls.find_method("__init__")
                if init is not None:
                    self.call_function(init, args, kw, self_value=obj)
                elif "__list__" in obj.attrs and args:
                    obj.attrs["__list__"] = list(args[0])
                elif "__dict__" in obj.attrs and (args or kw):
                    obj.attrs["__dict__"] = dict(*args, **kw)
                return obj
            return Inst(tgt.cls, args, kw)
        if isinstance(tgt, FuncRef):
            if tgt.fn.cls is not None and tgt.fn.kind in ("method", "property") and args:
                return self.call_function(tgt.fn, args[1:], kw, self_value=args[0])     # Class.method(obj, ...)
            return self.call_function(tgt.fn, args, kw)
        if isinstance(tgt, tuple) and tgt and tgt[0] == "bound":
            return self.call_function(tgt[1], args, kw, self_value=tgt[2] if tgt[1].kind != "staticmethod" else None)
        if isinstance(tgt, tuple) and tgt and tgt[0] == "closure":
            _, fdef, env = tgt
            ee = env.child()
            ps = [a.arg for a in fdef.args.posonlyargs + fdef.args.args]
            if len(args) > len(ps) or fdef.args.vararg or fdef.args.kwarg:
                raise AnalysisError("constfold: nested function call shape")
            for p_, a_ in zip(ps, args):
                ee.set(p_, a_)
            for k_, v_ in kw.items():
                ee.set(k_, v_)
            if _is_generator(fdef):
                return _LazyGen(self, fdef.body, ee, fdef.name)
            try:
                self._exec_block(fdef.body, ee)
            except _Return as r:
                return r.value
            return None
        if isinstance(tgt, tuple) and tgt and tgt[0] == "lambda":
            _, lam, env = tgt
            ee = env.child()
            for p, a in zip([a.arg for a in lam.args.args], args):
                ee.set(p, a)
            return self._eval(lam.body, ee)
        import types
        if isinstance(tgt, type) and issubclass(tgt, tuple) and hasattr(tgt, "_fields"):
            return tgt(*args, **kw)
        if isinstance(tgt, types.FunctionType):
            return tgt(*args, **kw)          # a stand-in supplied by the rule's stub (folded code cannot make one)
        raise AnalysisError(f"constfold: call of {type(tgt).__name__} {str(tgt)[:80] if isinstance(tgt, tuple) else str()}")

    def _exception_args(self, name, args, e):
        """`.args` of an in-package exception built from `args`: a constructor the class (or an in-package base) defines is
        folded; `super().__init__(*a)` reaching the builtin base stores a"""
        b = self.index.resolve(e.mod, name)
        cls = None
        if b is not None and b.kind == "class":
            try:
                v = self.value(b.module, b.name)
                cls = v.cls if isinstance(v, ClassRef) else None
            except AnalysisError:
                cls = None
        init = cls.find_method("__init__") if cls is not None else None
        if init is None:
            return args
        obj = Stub(name, {"args": tuple(args)}, cls=cls)
        obj.attrs["__exc__"] = True
        try:
            self.call_function(init, list(args), {}, self_value=obj)
        except FoldRaise:
            raise
        except AnalysisError as ex:
            raise AnalysisError(f"constfold: constructor of exception {name} cannot be folded: {ex}")
        return list(obj.attrs.get("args", ()))

    def _exc_subclass(self, name, handler_names, e):
        """is the in-package exception class `name` a subclass of one of handler_names?"""
        c = self.index.find_class(name) if hasattr(self.index, "find_class") else None
        try:
            if c is None:
                return False
            return any(getattr(b, "name", b) in handler_names for b in c.mro())
        except Exception:
            return False

    def _hostify(self, v):
        """a folded callable as a host function (for sorted(key=...), map, filter, list.sort(key=...))"""
        if isinstance(v, FuncRef) or (isinstance(v, tuple) and v[:1] in (("bound",), ("lambda",), ("closure",))):
            return lambda *a: self.call_value(v, a)
        if isinstance(v, ClassRef):
            raise AnalysisError("constfold: a class used as a callback")
        return v

    def call_value(self, tgt, args):
        """apply a folded callable (lambda, nested function, function reference) to Python values;
        for stub methods that receive callbacks"""
        if isinstance(tgt, tuple) and tgt and tgt[0] == "bound":
            return self.call_function(tgt[1], list(args), {}, self_value=tgt[2] if tgt[1].kind != "staticmethod" else None)
        if isinstance(tgt, tuple) and tgt and tgt[0] == "lambda":
            _, lam, env = tgt
            ee = env.child()
            for p_, a_ in zip([a.arg for a in lam.args.args], args):
                ee.set(p_, a_)
            return self._eval(lam.body, ee)
        if isinstance(tgt, tuple) and tgt and tgt[0] == "closure":
            _, fdef, env = tgt
            ee = env.child()
            for p_, a_ in zip([a.arg for a in fdef.args.posonlyargs + fdef.args.args], args):
                ee.set(p_, a_)
            if _is_generator(fdef):
                return _LazyGen(self, fdef.body, ee, fdef.name)
            try:
                self._exec_block(fdef.body, ee)
            except _Return as r:
                return r.value
            return None
        if isinstance(tgt, FuncRef):
            return self.call_function(tgt.fn, list(args))
        if callable(tgt):
            return tgt(*args)
        raise AnalysisError("constfold: value is not callable")

    def call_function(self, fn, args, kw=None, self_value=None, _raw=False):
        kw = kw or {}
        stub = getattr(self, "stubs", {}).get(fn.key)
        if stub is not None:
            return stub(*args, **kw)
        if fn.node.decorator_list and not _raw:
            # functools.lru_cache / functools.cache: one result object per argument tuple for the life of the session
            memo = None
            for d_ in fn.node.decorator_list:
                b_ = self.index.resolve_expr(fn.module, d_.func if isinstance(d_, ast.Call) else d_)
                if b_ is not None and b_.kind == "external" and b_.target in ("functools.lru_cache", "functools.cache"):
                    memo = self.__dict__.setdefault("_memo_results", {})
            if memo is not None:
                try:
                    key_ = (fn.key, id(self_value) if self_value is not None else None, tuple(args), tuple(sorted(kw.items())))
                    hash(key_)
                except TypeError:
                    key_ = None
                if key_ is not None:
                    if key_ not in memo:
                        # (the receiver is kept with the result: the id() of a freed object is handed out again)
                        memo[key_] = (self.call_function(fn, args, kw, self_value, _raw=True), self_value)
                    return memo[key_][0]
        local = {}
        params = list(fn.params)
        if fn.cls is not None and fn.kind in ("method", "property", "setter"):
            if self_value is None:
                raise AnalysisError(f"constfold: instance method call {fn.key}")
            local[params[0]] = self_value
            params = params[1:]
        if fn.kind == "classmethod":
            # `cls` is the class the method was reached through (a subclass inherits the method, not the binding)
            if isinstance(self_value, ClassRef):
                local[params[0]] = self_value
            elif isinstance(self_value, Stub) and self_value.cls is not None:
                local[params[0]] = ClassRef(self_value.cls)
            else:
                local[params[0]] = ClassRef(fn.cls)
            params = params[1:]
        a = fn.node.args
        pos = a.posonlyargs + a.args
        defaults = dict(zip([p.arg for p in pos[len(pos) - len(a.defaults):]], a.defaults))
        menv = _Env(self, fn.module, self.module_env(fn.module), local)
        menv.owner = fn
        for i, p in enumerate(params):
            if i < len(args):
                local[p] = args[i]
            elif p in kw:
                local[p] = kw[p]
            elif p in defaults:
                local[p] = self._eval(defaults[p], menv)
            else:
                raise AnalysisError(f"constfold: missing argument {p} for {fn.key}")
        if a.vararg is not None:
            local[a.vararg.arg] = tuple(args[len(params):])
        elif len(args) > len(params):
            raise AnalysisError(f"constfold: too many arguments for {fn.key}")
        kwonly = {k.arg: d for k, d in zip(a.kwonlyargs, a.kw_defaults)}
        for k_, d_ in kwonly.items():
            if k_ in kw:
                local[k_] = kw[k_]
            elif d_ is not None:
                local[k_] = self._eval(d_, menv)
            else:
                raise AnalysisError(f"constfold: missing keyword-only argument {k_} for {fn.key}")
        if a.kwarg is not None:
            local[a.kwarg.arg] = {k_: v_ for k_, v_ in kw.items() if k_ not in params and k_ not in kwonly}
        if _is_generator(fn.node):
            Stub._active = self
            return _LazyGen(self, fn.node.body, menv, fn.key)
        self._depth = getattr(self, "_depth", 0) + 1
        Stub._active = self
        if self._depth == 1:
            self.fuel = max(self.fuel, getattr(self, "fuel_per_call", 2_000_000))   # the bound is per top-level fold
        try:
            self._exec_block(fn.node.body, menv)
        except _Return as r:
            return r.value
        except (KeyError, IndexError, ValueError, TypeError, ZeroDivisionError, AttributeError) as exc:
            if self._depth == 1:
                # the folded program itself raised: an outcome of the fold, not a checker crash
                raise FoldRaise(f"{type(exc).__name__}: {exc}", type(exc).__name__)
            raise
        finally:
            self._depth -= 1
        return None


class _Env:
    def __init__(self, folder, mod, globals_, local):
        self.folder = folder
        self.mod = mod
        self.globals = globals_
        self.local = local      # None at module level
        self.parent = None
        self.owner = None       # FunctionInfo being folded (for super())

    def child(self):
        c = _Env(self.folder, self.mod, self.globals, {})
        c.parent = self
        c.owner = self.owner
        c.global_names = getattr(self, "global_names", ())
        return c

    def has(self, name):
        s = self
        while s is not None:
            if s.local is not None and name in s.local:
                return True
            s = s.parent
        return name in self.globals

    def get(self, name):
        s = self
        while s is not None:
            if s.local is not None and name in s.local:
                return s.local[name]
            s = s.parent
        if name in self.globals:
            v = self.globals[name]
            if isinstance(v, Unknown):
                raise AnalysisError(f"constfold: {self.mod.name}.{name}: {v.why}")
            return v
        b = self.folder.index.resolve(self.mod, name)
        if b is not None:
            if b.kind in ("const", "func", "class") and b.module is not self.mod:
                return self.folder.value(b.module, b.name)
            if b.kind == "external":
                if b.target in _STDLIB_CONSTS:
                    return self.folder.stdlib_const(b.target)
                return ("external", b.target)
        if name in _BUILTINS:
            return _BUILTINS[name]
        raise AnalysisError(f"constfold: unbound name {name} in {self.mod.name}")

    def set(self, name, v):
        if self.local is None or name in getattr(self, "global_names", ()):
            self.globals[name] = v          # module level, or a name the function declared `global`
        else:
            self.local[name] = v


def _load(t):
    import copy
    t = copy.copy(t)
    t.ctx = ast.Load()
    return t
