"""Small AST helpers shared by the engines."""
import ast


def src(node):
    """Normalised source text of a node (position independent)."""
    try:
        return ast.unparse(node)
    except Exception:
        return f"<{type(node).__name__}>"


def short(node, n=120):
    s = " ".join(src(node).split())
    return s if len(s) <= n else s[: n - 3] + "..."


def attr_chain(node):
    """a.b.c -> ['a','b','c']; returns None if the base is not a Name."""
    parts = []
    while isinstance(node, ast.Attribute):
        parts.append(node.attr)
        node = node.value
    if isinstance(node, ast.Name):
        parts.append(node.id)
        return list(reversed(parts))
    return None


def is_self_attr(node, selfname="self"):
    return (isinstance(node, ast.Attribute) and isinstance(node.value, ast.Name)
            and node.value.id == selfname)


def walk_no_nested(node):
    """Pre-order, source-order walk that does not descend into nested
    function/class definitions or lambdas (the root itself is yielded even if
    it is one)."""
    yield node
    for c in ast.iter_child_nodes(node):
        if isinstance(c, (ast.FunctionDef, ast.AsyncFunctionDef, ast.ClassDef, ast.Lambda)):
            continue
        yield from walk_no_nested(c)


def body_nodes(fn_node):
    for st in fn_node.body:
        yield from walk_no_nested(st)


def calls_in(node):
    return [n for n in walk_no_nested(node) if isinstance(n, ast.Call)]


def call_name(call):
    """Dotted name of the callee expression, e.g. 'self.buffer.add_chars',
    'deepcopy'; None when not a plain dotted name."""
    ch = attr_chain(call.func)
    return ".".join(ch) if ch else None


def const_value(node, default=None):
    if isinstance(node, ast.Constant):
        return node.value
    return default


def docstring_stripped(body):
    if body and isinstance(body[0], ast.Expr) and isinstance(body[0].value, ast.Constant) \
            and isinstance(body[0].value.value, str):
        return body[1:]
    return body


def kwarg(call, name):
    for k in call.keywords:
        if k.arg == name:
            return k.value
    return None


class ParentMap:
    def __init__(self, root):
        self.parent = {}
        for n in ast.walk(root):
            for c in ast.iter_child_nodes(n):
                self.parent[c] = n

    def ancestors(self, node):
        while node in self.parent:
            node = self.parent[node]
            yield node


def resolve_callee(index, fn, call):
    """FunctionInfo of an in-package callee of `call` made inside `fn`
    (self.m(), cls.m(), Class.m(), module function), or None."""
    f = call.func
    if isinstance(f, ast.Attribute) and isinstance(f.value, ast.Name):
        recv = f.value.id
        if fn.cls is not None and recv in (fn.params[:1] or ["self"]) + ["cls", "self"]:
            return fn.cls.find_method(f.attr)
        b = index.resolve(fn.module, recv)
        if b is not None and b.kind == "class":
            return b.target.find_method(f.attr)
        if b is not None and b.kind == "module":
            b2 = index.resolve(b.target, f.attr)
            if b2 is not None and b2.kind == "func":
                return b2.target
    elif isinstance(f, ast.Name):
        b = index.resolve(fn.module, f.id)
        if b is not None and b.kind == "func":
            return b.target
    elif isinstance(f, ast.Attribute) and isinstance(f.value, ast.Call) and isinstance(f.value.func, ast.Name) \
            and f.value.func.id == "super" and fn.cls is not None:
        for c in fn.cls.mro()[1:]:
            if not isinstance(c, str) and f.attr in c.methods:
                return c.methods[f.attr]
    return None


def closure(index, fn, depth=3, only_private=True):
    """[fn] + the in-package helpers it calls (transitively, bounded): the scope
    in which 'does the routine do X' questions are asked, so that extracting
    statements into a helper does not hide them."""
    seen = {fn.key: fn}
    todo = [(fn, 0)]
    while todo:
        f, d = todo.pop()
        if d >= depth:
            continue
        for n in walk_no_nested(f.node):
            if isinstance(n, ast.Call):
                c = resolve_callee(index, f, n)
                if c is None or c.key in seen:
                    continue
                if only_private and not c.name.startswith("_"):
                    continue
                seen[c.key] = c
                todo.append((c, d + 1))
    return list(seen.values())


def closure_nodes(index, fn, types=None, depth=3, only_private=True):
    for f in closure(index, fn, depth, only_private):
        for n in walk_no_nested(f.node):
            if types is None or isinstance(n, types):
                yield f, n


def closure_src(index, fn, depth=3, only_private=True):
    """Concatenated source text of the closure (for presence-of-construct questions)."""
    return "\n".join(src(f.node) for f in closure(index, fn, depth, only_private))


def _local_defs(fn):
    """name -> (value expression, tuple position or None) for locals with exactly one binding."""
    single, counts = {}, {}

    def bump(name, k=2):
        counts[name] = counts.get(name, 0) + k
    for n in walk_no_nested(fn.node):
        if isinstance(n, ast.Assign):
            for t in n.targets:
                if isinstance(t, ast.Name):
                    bump(t.id, 1 if len(n.targets) == 1 else 2)
                    single[t.id] = (n.value, None)
                elif isinstance(t, (ast.Tuple, ast.List)):
                    for i, tt in enumerate(t.elts):
                        if isinstance(tt, ast.Name) and len(n.targets) == 1:
                            bump(tt.id, 1)
                            single[tt.id] = (n.value, i)
                        else:
                            for x in ast.walk(tt):
                                if isinstance(x, ast.Name):
                                    bump(x.id)
        elif isinstance(n, ast.AnnAssign) and isinstance(n.target, ast.Name) and n.value is not None:
            bump(n.target.id, 1)
            single[n.target.id] = (n.value, None)
        elif isinstance(n, ast.AugAssign) and isinstance(n.target, ast.Name):
            bump(n.target.id)
        elif isinstance(n, (ast.For, ast.comprehension)):
            for tt in ast.walk(n.target):
                if isinstance(tt, ast.Name):
                    bump(tt.id)
        elif isinstance(n, ast.NamedExpr) and isinstance(n.target, ast.Name):
            bump(n.target.id)
        elif isinstance(n, (ast.With,)):
            for it in n.items:
                if it.optional_vars is not None:
                    for x in ast.walk(it.optional_vars):
                        if isinstance(x, ast.Name):
                            bump(x.id)
        elif isinstance(n, ast.ExceptHandler) and n.name:
            bump(n.name)
    params = set(a.arg for a in fn.node.args.posonlyargs + fn.node.args.args + fn.node.args.kwonlyargs)
    if fn.node.args.vararg:
        params.add(fn.node.args.vararg.arg)
    if fn.node.args.kwarg:
        params.add(fn.node.args.kwarg.arg)
    return {k: v for k, v in single.items() if counts.get(k) == 1 and k not in params}


def _straight_line_return(c):
    """The returned expression of a helper whose body is assignments to fresh names followed by
    one return (no branching), else None."""
    body = docstring_stripped(c.node.body)
    if not body or not isinstance(body[-1], ast.Return) or body[-1].value is None:
        return None
    for st in body[:-1]:
        if not isinstance(st, (ast.Assign, ast.AnnAssign)):
            return None
    return body[-1].value


def resolve_local(fn, expr, depth=0, index=None, keep=()):
    """Def-use normalisation of an expression: local names with exactly one binding in `fn` are
    replaced by their right-hand side (tuple unpacking picks the element); with `index`, calls
    of in-package helpers with a straight-line body are replaced by their returned expression
    (parameters substituted).  Purely syntactic; used to make rules insensitive to naming of
    intermediates and to helper extraction."""
    import copy
    if depth > 8 or expr is None:
        return expr
    defs = {k: v for k, v in _local_defs(fn).items() if k not in keep}

    class Sub(ast.NodeTransformer):
        def visit_Name(self, node):
            if isinstance(node.ctx, ast.Load) and node.id in defs:
                value, pos = defs[node.id]
                v = resolve_local(fn, value, depth + 1, index, keep)
                if pos is None:
                    return v
                if isinstance(v, (ast.Tuple, ast.List)) and pos < len(v.elts) \
                        and not any(isinstance(e, ast.Starred) for e in v.elts):
                    return v.elts[pos]
                return ast.Subscript(value=v, slice=ast.Constant(pos), ctx=ast.Load())
            return node

        def visit_Call(self, node):
            self.generic_visit(node)
            if index is None or not hasattr(fn, "module"):
                return node
            c = resolve_callee(index, fn, node)
            if c is None or c is fn:
                return node
            ret = _straight_line_return(c)
            if ret is None or c.node.args.vararg or c.node.args.kwarg:
                return node
            ps = [a.arg for a in c.node.args.posonlyargs + c.node.args.args]
            if c.kind in ("method", "classmethod", "property"):
                ps = ps[1:]
            m = dict(zip(ps, node.args))
            if len(node.args) > len(ps):
                return node
            for kw in node.keywords:
                if kw.arg is None or kw.arg not in ps or kw.arg in m:
                    return node
                m[kw.arg] = kw.value
            nd = len(c.node.args.defaults)
            for a, d in zip(ps[len(ps) - nd:] if nd else [], c.node.args.defaults[-len(ps):] if nd else []):
                m.setdefault(a, d)
            if set(ps) - set(m):
                return node
            inner = resolve_local(c, ret, depth + 1, index)

            class P(ast.NodeTransformer):
                def visit_Name(self, n2):
                    return copy.deepcopy(m[n2.id]) if n2.id in m and isinstance(n2.ctx, ast.Load) else n2
            return P().visit(copy.deepcopy(inner))
    out = Sub().visit(copy.deepcopy(expr))
    return ast.fix_missing_locations(out) if hasattr(out, "lineno") or True else out


def template_holes(n):
    """(literal text, [hole expressions]) of a string template written as an f-string,
    a literal's .format(...) call or a literal % tuple; None for anything else."""
    if isinstance(n, ast.JoinedStr):
        return ("".join(v.value for v in n.values if isinstance(v, ast.Constant)),
                [v.value for v in n.values if isinstance(v, ast.FormattedValue)])
    if isinstance(n, ast.Call) and isinstance(n.func, ast.Attribute) and n.func.attr == "format" \
            and isinstance(n.func.value, ast.Constant) and isinstance(n.func.value.value, str):
        import string
        lits, holes, auto = [], [], 0
        try:
            for lit_, field, _spec, _conv in string.Formatter().parse(n.func.value.value):
                lits.append(lit_ or "")
                if field is None:
                    continue
                if field == "":
                    holes.append(n.args[auto]); auto += 1
                elif field.isdigit():
                    holes.append(n.args[int(field)])
                else:
                    k = kwarg(n, field)
                    if k is None:
                        return None
                    holes.append(k)
        except (IndexError, ValueError):
            return None
        return "".join(lits), holes
    if isinstance(n, ast.BinOp) and isinstance(n.op, ast.Mod) and isinstance(n.left, ast.Constant) \
            and isinstance(n.left.value, str):
        import re as _re
        holes = list(n.right.elts) if isinstance(n.right, ast.Tuple) else [n.right]
        return _re.sub(r"%[-0-9.]*[sdif]", "", n.left.value), holes
    return None


def enclosing_conjuncts(fn, target, index=None):
    """Source texts of the conditions known TRUE at statement `target` because of enclosing
    `if` statements (conjunctions split; locals resolved): the dominating positive guards.
    Conditions of else-branches are returned as 'not (...)'."""
    res = None

    def conj(test, positive):
        if positive and isinstance(test, ast.BoolOp) and isinstance(test.op, ast.And):
            out = []
            for v in test.values:
                out += conj(v, True)
            return out
        if not positive and isinstance(test, ast.BoolOp) and isinstance(test.op, ast.Or):
            out = []
            for v in test.values:
                out += conj(v, False)
            return out
        if isinstance(test, ast.UnaryOp) and isinstance(test.op, ast.Not):
            return conj(test.operand, not positive)
        t = src(resolve_local(fn, test, index=index)).replace('"', "'")
        return [t if positive else f"not ({t})"]

    def visit(body, guards):
        nonlocal res
        guards = list(guards)
        for st in body:
            if st is target:
                res = list(guards)
                return True
            if isinstance(st, ast.If):
                if visit(st.body, guards + conj(st.test, True)):
                    return True
                if visit(st.orelse, guards + conj(st.test, False)):
                    return True
                # guard clause: what follows runs only when the test was false
                if st.body and isinstance(st.body[-1], (ast.Return, ast.Raise, ast.Continue, ast.Break)) and not st.orelse:
                    guards = guards + conj(st.test, False)
            else:
                for blk in ("body", "orelse", "finalbody"):
                    b = getattr(st, blk, None)
                    if isinstance(b, list) and b and isinstance(b[0], ast.stmt) and visit(b, guards):
                        return True
                for h in getattr(st, "handlers", []) or []:
                    if visit(h.body, guards):
                        return True
        return False
    visit(fn.node.body, [])
    return res


def calls_in_eval_order(node):
    """Call nodes under `node` (nested defs excluded) in EVALUATION order: statements in source
    order; for a call, first its receiver / function expression, then its arguments, then the call
    itself - so a chain a.f().g() yields f before g."""
    def expr(e):
        if isinstance(e, (ast.FunctionDef, ast.AsyncFunctionDef, ast.Lambda, ast.ClassDef)):
            return
        if isinstance(e, ast.Call):
            yield from expr(e.func)
            for a in e.args:
                yield from expr(a)
            for k in e.keywords:
                yield from expr(k.value)
            yield e
            return
        for c in ast.iter_child_nodes(e):
            yield from expr(c)
    if isinstance(node, (ast.FunctionDef, ast.AsyncFunctionDef)):
        for st in node.body:
            yield from expr(st)
    else:
        yield from expr(node)


# ---------------------------------------------------------------------------
# Helper inlining: the normal form in which structural rules look at a routine
# ---------------------------------------------------------------------------
def _helper_inlinable(h):
    """A private in-package helper whose control flow lets its body replace a call: every
    `return` is the last statement of the function body (so the body is a statement list that
    falls through to one result), no generator, no nested def that captures, no *args/**kw."""
    a = h.node.args
    if a.vararg or a.kwarg or a.kwonlyargs:
        return False
    body = docstring_stripped(h.node.body)
    if not body:
        return False
    rets = [n for n in walk_no_nested(h.node) if isinstance(n, ast.Return)]
    if any(isinstance(n, (ast.Yield, ast.YieldFrom, ast.Global, ast.Nonlocal)) for n in walk_no_nested(h.node)):
        return False
    if any(isinstance(n, (ast.FunctionDef, ast.Lambda, ast.ClassDef)) for st in body for n in ast.walk(st)):
        return False
    if len(rets) > 1:
        return False
    if rets and rets[0] is not body[-1]:
        return _try_wrapped_return(body) is rets[0]
    return True


def _try_wrapped_return(body):
    """`try: ...; return e` + handlers that all end by raising, as the last statement: the one Return"""
    t = body[-1] if body else None
    if isinstance(t, ast.Try) and not t.orelse and not t.finalbody and t.body and isinstance(t.body[-1], ast.Return) \
            and t.handlers and all(h_.body and isinstance(h_.body[-1], ast.Raise) for h_ in t.handlers):
        return t.body[-1]
    return None


def _helper_inlinable_tail(h):
    """weaker condition for a call that is the LAST thing its caller does (statement call in tail
    position, result unused): early bare `return`s are fine, they end the caller as well"""
    a = h.node.args
    if a.vararg or a.kwarg or a.kwonlyargs:
        return False
    if any(isinstance(n, (ast.Yield, ast.YieldFrom, ast.Global, ast.Nonlocal)) for n in walk_no_nested(h.node)):
        return False
    body = docstring_stripped(h.node.body)
    if not body or any(isinstance(n, (ast.FunctionDef, ast.Lambda, ast.ClassDef)) for st in body for n in ast.walk(st)):
        return False
    return all(n.value is None for n in walk_no_nested(h.node) if isinstance(n, ast.Return))


def inlined(index, fn, depth=2, only_private=True, keep=()):
    """A copy of `fn` (same identity fields) whose body has the calls of inlinable private helpers
    replaced by the helpers' statements:
       helper(args)            ->  <body>
       x = helper(args)        ->  <body without its return>; x = <returned expression>
       return helper(args)     ->  <body without its return>; return <returned expression>
       x += helper(args)       ->  <body ...>; x += <returned expression>
    Parameters are substituted by the argument expressions when those are names, attributes,
    constants or subscripts of such (re-evaluation is harmless), otherwise bound to a fresh
    local first; the helper's locals are renamed only where they would collide with the caller's
    names.  Rules look at the result, so extracting a block into a helper does not change what
    they see.  Helpers that cannot be inlined are left as calls."""
    import copy
    node = copy.deepcopy(fn.node)
    counter = [0]

    def names_of(n):
        return {x.id for x in ast.walk(n) if isinstance(x, ast.Name)} | \
               {a.arg for x in ast.walk(n) if isinstance(x, ast.arguments) for a in x.posonlyargs + x.args + x.kwonlyargs}

    def simple(e):
        if isinstance(e, (ast.Name, ast.Constant)):
            return True
        if isinstance(e, ast.Attribute):
            return simple(e.value)
        if isinstance(e, ast.Subscript):
            return simple(e.value) and isinstance(e.slice, (ast.Constant, ast.Name))
        return False

    def expand(call, owner, level, keep_name=None, tail=False):
        """(prefix statements, result expression or None) or None when not inlinable"""
        h = resolve_callee(index, owner, call)
        if h is None or h.key == fn.key or (only_private and not h.name.startswith("_")) \
                or not (_helper_inlinable(h) or (tail and _helper_inlinable_tail(h))) or h.name in keep:
            return None   # (`keep`: helpers the rule itself treats as atomic operations)
        ps = [a.arg for a in h.node.args.posonlyargs + h.node.args.args]
        if h.kind in ("method", "classmethod", "property"):
            recv = call.func.value if isinstance(call.func, ast.Attribute) else None
            if recv is None or not isinstance(recv, ast.Name):
                return None
            bind = {ps[0]: recv}
            ps = ps[1:]
        else:
            bind = {}
        if len(call.args) > len(ps) or any(isinstance(a, ast.Starred) for a in call.args):
            return None
        given = dict(zip(ps, call.args))
        if keep_name is not None and any(isinstance(x, ast.Name) and x.id == keep_name for a_ in call.args for x in ast.walk(a_)):
            keep_name = None
        for kw in call.keywords:
            if kw.arg is None or kw.arg not in ps or kw.arg in given:
                return None
            given[kw.arg] = kw.value
        defaults = h.node.args.defaults
        for p_, d in zip(ps[len(ps) - len(defaults):] if defaults else [], defaults):
            given.setdefault(p_, d)
        if set(ps) - set(given):
            return None
        body = copy.deepcopy(docstring_stripped(h.node.body))
        prefix = []
        caller_names = names_of(node)
        assigned_in_h = {t.id for st in body for n in ast.walk(st) if isinstance(n, (ast.Assign, ast.AugAssign, ast.AnnAssign, ast.For))
                         for t in ast.walk(n.targets[0] if isinstance(n, ast.Assign) else n.target) if isinstance(t, ast.Name)}
        for p_ in ps:
            a = given[p_]
            if simple(a) and p_ not in assigned_in_h:
                bind[p_] = a
            else:
                counter[0] += 1
                fresh = p_ if p_ not in caller_names else f"{p_}__{counter[0]}"
                prefix.append(ast.Assign(targets=[ast.Name(id=fresh, ctx=ast.Store())], value=a, lineno=call.lineno, col_offset=0))
                bind[p_] = ast.Name(id=fresh, ctx=ast.Load())
        rename = {}
        for nm in sorted(assigned_in_h - set(ps)):
            if nm in caller_names and nm != keep_name:
                counter[0] += 1
                rename[nm] = f"{nm}__{counter[0]}"

        class Sub(ast.NodeTransformer):
            def visit_Name(self, n):
                if n.id in bind and isinstance(n.ctx, ast.Load):
                    return copy.deepcopy(bind[n.id])
                if n.id in bind and isinstance(bind[n.id], ast.Name):
                    return ast.Name(id=bind[n.id].id, ctx=n.ctx)
                if n.id in rename:
                    return ast.Name(id=rename[n.id], ctx=n.ctx)
                return n
        body = [Sub().visit(st) for st in body]
        result = None
        if body and isinstance(body[-1], ast.Return):
            result = body[-1].value
            body = body[:-1]
        elif _try_wrapped_return(body) is not None:
            counter[0] += 1
            tmp = f"_ret__{counter[0]}"
            r_ = body[-1].body[-1]
            body[-1].body[-1] = ast.copy_location(
                ast.Assign(targets=[ast.Name(id=tmp, ctx=ast.Store())], value=r_.value, lineno=r_.lineno, col_offset=0), r_)
            result = ast.Name(id=tmp, ctx=ast.Load())
        hfn = h
        if level < depth:
            body = block(body, hfn, level + 1, tail)
        return prefix + body, result

    def block(stmts, owner, level, tail=False):
        out = []
        for i_, st in enumerate(stmts):
            done = False
            last = tail and i_ == len(stmts) - 1
            if isinstance(st, ast.Expr) and isinstance(st.value, ast.Call):
                r = expand(st.value, owner, level, tail=last)
                if r is not None:
                    out.extend(r[0])
                    done = True
            elif isinstance(st, (ast.Assign, ast.AugAssign, ast.Return, ast.AnnAssign)) and isinstance(st.value, ast.Call):
                tname = st.targets[0].id if isinstance(st, ast.Assign) and len(st.targets) == 1 \
                    and isinstance(st.targets[0], ast.Name) else None
                r = expand(st.value, owner, level, keep_name=tname)
                if r is not None and r[1] is not None:
                    out.extend(r[0])
                    if not (tname is not None and isinstance(r[1], ast.Name) and r[1].id == tname):
                        st2 = copy.copy(st)
                        st2.value = r[1]
                        out.append(st2)
                    done = True
            if not done:
                for name in ("body", "orelse", "finalbody"):
                    b_ = getattr(st, name, None)
                    if isinstance(b_, list) and b_ and isinstance(b_[0], ast.stmt) and not isinstance(st, (ast.FunctionDef, ast.ClassDef)):
                        setattr(st, name, block(b_, owner, level, last and isinstance(st, ast.If)))
                for h_ in getattr(st, "handlers", []) or []:
                    h_.body = block(h_.body, owner, level)
                out.append(st)
        return out
    node.body = block(node.body, fn, 1, True)
    ast.fix_missing_locations(node)
    # line numbers follow the NEW statement order (rules compare positions); the original line is
    # kept for messages
    line = [node.lineno]

    def renumber(stmts):
        for st in stmts:
            line[0] += 1
            for x in ast.walk(st) if not isinstance(st, (ast.If, ast.For, ast.While, ast.With, ast.Try)) else [st]:
                if hasattr(x, "lineno"):
                    x._orig_lineno = getattr(x, "_orig_lineno", x.lineno)
                    x.lineno = line[0]
            if isinstance(st, (ast.If, ast.For, ast.While, ast.With, ast.Try)):
                for f_ in ("test", "iter", "target"):
                    e_ = getattr(st, f_, None)
                    if e_ is not None:
                        for x in ast.walk(e_):
                            if hasattr(x, "lineno"):
                                x._orig_lineno = getattr(x, "_orig_lineno", x.lineno)
                                x.lineno = line[0]
                for it in getattr(st, "items", []) or []:
                    for x in ast.walk(it):
                        if hasattr(x, "lineno"):
                            x._orig_lineno = getattr(x, "_orig_lineno", x.lineno)
                            x.lineno = line[0]
                for name in ("body", "orelse", "finalbody"):
                    b_ = getattr(st, name, None)
                    if isinstance(b_, list) and b_ and isinstance(b_[0], ast.stmt):
                        renumber(b_)
                for h_ in getattr(st, "handlers", []) or []:
                    line[0] += 1
                    h_._orig_lineno = getattr(h_, "_orig_lineno", h_.lineno)
                    h_.lineno = line[0]
                    renumber(h_.body)
    renumber(node.body)
    clone = copy.copy(fn)
    clone.node = node
    clone.inlined_from = fn
    return clone
