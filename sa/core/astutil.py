"""Small AST helpers shared by the engines."""
import ast


def src(node):
    """Normalised source text of a node (position independent)."""
    try:
        return ast.unparse(node)
    except Exception:
        return f"<{type(node).__name__}>"


def short(node, n=120):
    s = " ".join(src(node).split())
    return s if len(s) <= n else s[: n - 3] + "..."


def attr_chain(node):
    """a.b.c -> ['a','b','c']; returns None if the base is not a Name."""
    parts = []
    while isinstance(node, ast.Attribute):
        parts.append(node.attr)
        node = node.value
    if isinstance(node, ast.Name):
        parts.append(node.id)
        return list(reversed(parts))
    return None


def is_self_attr(node, selfname="self"):
    return (isinstance(node, ast.Attribute) and isinstance(node.value, ast.Name)
            and node.value.id == selfname)


def walk_no_nested(node):
    """Pre-order, source-order walk that does not descend into nested
    function/class definitions or lambdas (the root itself is yielded even if
    it is one)."""
    yield node
    for c in ast.iter_child_nodes(node):
        if isinstance(c, (ast.FunctionDef, ast.AsyncFunctionDef, ast.ClassDef, ast.Lambda)):
            continue
        yield from walk_no_nested(c)


def body_nodes(fn_node):
    for st in fn_node.body:
        yield from walk_no_nested(st)


def calls_in(node):
    return [n for n in walk_no_nested(node) if isinstance(n, ast.Call)]


def call_name(call):
    """Dotted name of the callee expression, e.g. 'self.buffer.add_chars',
    'deepcopy'; None when not a plain dotted name."""
    ch = attr_chain(call.func)
    return ".".join(ch) if ch else None


def const_value(node, default=None):
    if isinstance(node, ast.Constant):
        return node.value
    return default


def docstring_stripped(body):
    if body and isinstance(body[0], ast.Expr) and isinstance(body[0].value, ast.Constant) \
            and isinstance(body[0].value.value, str):
        return body[1:]
    return body


def kwarg(call, name):
    for k in call.keywords:
        if k.arg == name:
            return k.value
    return None


class ParentMap:
    def __init__(self, root):
        self.parent = {}
        for n in ast.walk(root):
            for c in ast.iter_child_nodes(n):
                self.parent[c] = n

    def ancestors(self, node):
        while node in self.parent:
            node = self.parent[node]
            yield node
