"""Small AST helpers shared by the engines."""
import ast


def src(node):
    """Normalised source text of a node (position independent)."""
    try:
        return ast.unparse(node)
    except Exception:
        return f"<{type(node).__name__}>"


def short(node, n=120):
    s = " ".join(src(node).split())
    return s if len(s) <= n else s[: n - 3] + "..."


def attr_chain(node):
    """a.b.c -> ['a','b','c']; returns None if the base is not a Name."""
    parts = []
    while isinstance(node, ast.Attribute):
        parts.append(node.attr)
        node = node.value
    if isinstance(node, ast.Name):
        parts.append(node.id)
        return list(reversed(parts))
    return None


def is_self_attr(node, selfname="self"):
    return (isinstance(node, ast.Attribute) and isinstance(node.value, ast.Name)
            and node.value.id == selfname)


def walk_no_nested(node):
    """Pre-order, source-order walk that does not descend into nested
    function/class definitions or lambdas (the root itself is yielded even if
    it is one)."""
    yield node
    for c in ast.iter_child_nodes(node):
        if isinstance(c, (ast.FunctionDef, ast.AsyncFunctionDef, ast.ClassDef, ast.Lambda)):
            continue
        yield from walk_no_nested(c)


def body_nodes(fn_node):
    for st in fn_node.body:
        yield from walk_no_nested(st)


def calls_in(node):
    return [n for n in walk_no_nested(node) if isinstance(n, ast.Call)]


def call_name(call):
    """Dotted name of the callee expression, e.g. 'self.buffer.add_chars',
    'deepcopy'; None when not a plain dotted name."""
    ch = attr_chain(call.func)
    return ".".join(ch) if ch else None


def const_value(node, default=None):
    if isinstance(node, ast.Constant):
        return node.value
    return default


def docstring_stripped(body):
    if body and isinstance(body[0], ast.Expr) and isinstance(body[0].value, ast.Constant) \
            and isinstance(body[0].value.value, str):
        return body[1:]
    return body


def kwarg(call, name):
    for k in call.keywords:
        if k.arg == name:
            return k.value
    return None


class ParentMap:
    def __init__(self, root):
        self.parent = {}
        for n in ast.walk(root):
            for c in ast.iter_child_nodes(n):
                self.parent[c] = n

    def ancestors(self, node):
        while node in self.parent:
            node = self.parent[node]
            yield node


def resolve_callee(index, fn, call):
    """FunctionInfo of an in-package callee of `call` made inside `fn`
    (self.m(), cls.m(), Class.m(), module function), or None."""
    f = call.func
    if isinstance(f, ast.Attribute) and isinstance(f.value, ast.Name):
        recv = f.value.id
        if fn.cls is not None and recv in (fn.params[:1] or ["self"]) + ["cls", "self"]:
            return fn.cls.find_method(f.attr)
        b = index.resolve(fn.module, recv)
        if b is not None and b.kind == "class":
            return b.target.find_method(f.attr)
        if b is not None and b.kind == "module":
            b2 = index.resolve(b.target, f.attr)
            if b2 is not None and b2.kind == "func":
                return b2.target
    elif isinstance(f, ast.Name):
        b = index.resolve(fn.module, f.id)
        if b is not None and b.kind == "func":
            return b.target
    elif isinstance(f, ast.Attribute) and isinstance(f.value, ast.Call) and isinstance(f.value.func, ast.Name) \
            and f.value.func.id == "super" and fn.cls is not None:
        for c in fn.cls.mro()[1:]:
            if not isinstance(c, str) and f.attr in c.methods:
                return c.methods[f.attr]
    return None


def closure(index, fn, depth=3, only_private=True):
    """[fn] + the in-package helpers it calls (transitively, bounded): the scope
    in which 'does the routine do X' questions are asked, so that extracting
    statements into a helper does not hide them."""
    seen = {fn.key: fn}
    todo = [(fn, 0)]
    while todo:
        f, d = todo.pop()
        if d >= depth:
            continue
        for n in walk_no_nested(f.node):
            if isinstance(n, ast.Call):
                c = resolve_callee(index, f, n)
                if c is None or c.key in seen:
                    continue
                if only_private and not c.name.startswith("_"):
                    continue
                seen[c.key] = c
                todo.append((c, d + 1))
    return list(seen.values())


def closure_nodes(index, fn, depth=3, only_private=True):
    for f in closure(index, fn, depth, only_private):
        for n in walk_no_nested(f.node):
            yield f, n


def resolve_local(fn, expr, depth=0, index=None):
    """Def-use normalisation of an expression: local names that have exactly one
    plain assignment in `fn` are replaced by their right-hand side; with `index`,
    calls of in-package helpers whose body is a single `return <expr>` are
    replaced by that expression (parameters substituted)."""
    import copy
    if depth > 6 or expr is None:
        return expr
    single, counts = {}, {}
    for n in walk_no_nested(fn.node):
        if isinstance(n, ast.Assign) and len(n.targets) == 1 and isinstance(n.targets[0], ast.Name):
            counts[n.targets[0].id] = counts.get(n.targets[0].id, 0) + 1
            single[n.targets[0].id] = n.value
        elif isinstance(n, ast.Assign):
            for t in n.targets:
                for tt in (t.elts if isinstance(t, (ast.Tuple, ast.List)) else [t]):
                    if isinstance(tt, ast.Name):
                        counts[tt.id] = counts.get(tt.id, 0) + 2
        elif isinstance(n, ast.AugAssign) and isinstance(n.target, ast.Name):
            counts[n.target.id] = counts.get(n.target.id, 0) + 2
        elif isinstance(n, (ast.For, ast.comprehension)):
            for tt in ast.walk(n.target):
                if isinstance(tt, ast.Name):
                    counts[tt.id] = counts.get(tt.id, 0) + 2
        elif isinstance(n, ast.NamedExpr) and isinstance(n.target, ast.Name):
            counts[n.target.id] = counts.get(n.target.id, 0) + 2
    params = set(a.arg for a in fn.node.args.posonlyargs + fn.node.args.args + fn.node.args.kwonlyargs)

    class Sub(ast.NodeTransformer):
        def visit_Name(self, node):
            if isinstance(node.ctx, ast.Load) and counts.get(node.id) == 1 and node.id not in params:
                return resolve_local(fn, single[node.id], depth + 1, index)
            return node

        def visit_Call(self, node):
            self.generic_visit(node)
            if index is not None and hasattr(fn, "module"):
                c = resolve_callee(index, fn, node)
                if c is not None:
                    body = docstring_stripped(c.node.body)
                    if len(body) == 1 and isinstance(body[0], ast.Return) and body[0].value is not None \
                            and not node.keywords and not c.node.args.vararg:
                        ps = [a.arg for a in c.node.args.posonlyargs + c.node.args.args]
                        if c.kind in ("method", "classmethod", "property"):
                            ps = ps[1:]
                        if len(ps) == len(node.args):
                            m = dict(zip(ps, node.args))

                            class P(ast.NodeTransformer):
                                def visit_Name(self, n2):
                                    return copy.deepcopy(m[n2.id]) if n2.id in m and isinstance(n2.ctx, ast.Load) else n2
                            return P().visit(copy.deepcopy(body[0].value))
            return node
    return Sub().visit(copy.deepcopy(expr))
