"""Flag-automaton extraction (E6): for a boolean attribute that is only
assigned constants and only tested, the per-path summaries
  (entry flag, abstract input class) -> (tokens emitted, exit flag)
of the routine that uses it, checked against the two-state span typestate."""
import ast

from ..core.tree import AnalysisError
from ..core.astutil import src, call_name, walk_no_nested, short

FLAG = "self.open_span"
MAX_PATHS = 2000
_CTX = []         # stack of FunctionInfo being walked: tests are normalised through resolve_local


def _norm(test):
    if _CTX:
        from ..core.astutil import resolve_local
        try:
            return src(resolve_local(_CTX[-1], test))
        except Exception:
            return src(test)
    return src(test)


def _leaf_tests(test):
    """[(list of (text, outcome) for a TRUE evaluation), ...], same for FALSE: short-circuit expansion"""
    if isinstance(test, ast.BoolOp):
        is_and = isinstance(test.op, ast.And)
        trues, falses = [[]], []
        for v in test.values:
            t, f = _leaf_tests(v)
            nt = []
            for pre in trues:
                if is_and:
                    for x in f:
                        falses.append(pre + x)
                    for x in t:
                        nt.append(pre + x)
                else:
                    for x in t:
                        falses.append(pre + x)      # for `or`, collecting "decided" outcomes = TRUE
                    for x in f:
                        nt.append(pre + x)
            trues = nt
        if is_and:
            return trues, falses
        # for or: `falses` collected the TRUE outcomes, `trues` the all-false continuation
        return falses, trues
    if isinstance(test, ast.UnaryOp) and isinstance(test.op, ast.Not):
        t, f = _leaf_tests(test.operand)
        return f, t
    txt = _norm(test)
    return [[("test", txt, True)]], [[("test", txt, False)]]


def _emissions(node):
    """OPEN / CLOSE tokens produced by a statement, in textual order"""
    toks = []
    for n in walk_no_nested(node):
        s = None
        if isinstance(n, ast.Constant) and isinstance(n.value, str):
            s = n.value
        if s:
            i = 0
            while i < len(s):
                if s.startswith("</span", i):
                    toks.append((n.col_offset + i, n.lineno, "CLOSE"))
                    i += 6
                elif s.startswith("<span", i):
                    toks.append((n.col_offset + i, n.lineno, "OPEN"))
                    i += 5
                else:
                    i += 1
    toks.sort(key=lambda t: (t[1], t[0]))
    return [t[2] for t in toks]


def paths_of(body, inline, depth=0):
    paths = [([], False)]        # (items, ended)
    for st in body:
        new = []
        for items, ended in paths:
            if ended:
                new.append((items, ended))
                continue
            for its, end in _stmt(st, inline, depth):
                new.append((items + its, end))
        if len(new) > MAX_PATHS:
            raise AnalysisError("typestate: too many paths")
        paths = new
    return paths


def _stmt(st, inline, depth):
    if isinstance(st, ast.If):
        t, f = _leaf_tests(st.test)
        out = []
        for pre in t:
            for its, end in paths_of(st.body, inline, depth):
                out.append((pre + its, end))
        for pre in f:
            for its, end in paths_of(st.orelse, inline, depth):
                out.append((pre + its, end))
        return out
    if isinstance(st, ast.Return):
        return [(_expr_items(st.value, inline, depth) if st.value is not None else [], True)]
    if isinstance(st, (ast.For, ast.While)):
        # loops in the span routines only assemble attribute text: zero-or-one iteration
        out = [([], False)]
        for its, end in paths_of(st.body, inline, depth):
            out.append((its, False))
        return out
    if isinstance(st, (ast.Assign, ast.AugAssign, ast.Expr)):
        alts = [[]]
        tgt = st.targets[0] if isinstance(st, ast.Assign) else (st.target if isinstance(st, ast.AugAssign) else None)
        if tgt is not None and src(tgt) == FLAG:
            if isinstance(st.value, ast.Constant) and isinstance(st.value.value, bool):
                return [([("set", int(st.value.value))], False)]
            raise AnalysisError(f"typestate: {FLAG} assigned a non-constant")
        val = st.value
        alts = _expr_alts(val, inline, depth)
        kill = [("assign", src(tgt))] if tgt is not None else []
        return [(a + kill, False) for a in alts]
    if isinstance(st, ast.Pass):
        return [([], False)]
    if isinstance(st, ast.Raise):
        return [([("raise",)], True)]
    raise AnalysisError(f"typestate: unsupported statement {type(st).__name__}")


def _expr_items(expr, inline, depth):
    alts = _expr_alts(expr, inline, depth)
    if len(alts) != 1:
        raise AnalysisError("typestate: return expression forks")
    return alts[0]


def _expr_alts(expr, inline, depth):
    """alternatives of item lists produced by evaluating expr (calls to inlined routines fork)"""
    if expr is None:
        return [[]]
    calls = [c for c in walk_no_nested(expr) if isinstance(c, ast.Call) and call_name(c) in inline]
    if calls:
        if len(calls) > 1 or depth > 3:
            raise AnalysisError("typestate: nested span-routine calls")
        fn = inline[call_name(calls[0])]
        _CTX.append(fn)
        try:
            sub = paths_of(fn.node.body, inline, depth + 1)
        finally:
            _CTX.pop()
        return [its for its, _ in sub]
    return [[("emit", t) for t in _emissions(expr)]]


def span_table(ctx, fn, inline=None):
    """{(entry flag, start, markup): set of (tokens tuple, exit flag)}"""
    inline = inline or {}
    _CTX.append(fn)
    try:
        paths = paths_of(fn.node.body, inline)
    finally:
        _CTX.pop()
    table = {}
    import re as _re
    for items, _ in paths:
        # a path is feasible only if repeated tests of the same expression agree (no assignment to
        # a name of the expression in between)
        known, consistent = {}, True
        start = markup = None
        for it in items:
            if it[0] == "assign":
                for k in list(known):
                    if _re.search(r"(?<![\w.])" + _re.escape(it[1]) + r"(?![\w])", k):
                        del known[k]
            elif it[0] == "test" and it[1] != FLAG:
                if it[1] in known and known[it[1]] != it[2]:
                    consistent = False
                    break
                known[it[1]] = it[2]
                if it[1].endswith(".start") and "." in it[1]:
                    start = it[2] if start is None else start
                else:
                    # any other tested value decides whether there is markup to write
                    markup = (markup or False) or it[2]
        if not consistent:
            continue
        for flag in (0, 1):
            cur = flag
            toks = []
            feasible = True
            for it in items:
                if it[0] == "test" and it[1] == FLAG:
                    if bool(cur) != it[2]:
                        feasible = False
                        break
                elif it[0] == "emit":
                    toks.append(it[1])
                elif it[0] == "set":
                    cur = it[1]
            if feasible:
                table.setdefault((flag, start, markup), set()).add((tuple(toks), cur))
    if not table:
        raise AnalysisError(f"{fn.qualname}: no span paths extracted")
    if not any(k[1] is True for k in table) or not any(k[1] is False for k in table):
        raise AnalysisError(f"{fn.qualname}: the start / end distinction (node.start) was not found")
    return table


def _fmt(table):
    rows = []
    for (flag, start, markup), outs in sorted(table.items(), key=str):
        for toks, ex in sorted(outs):
            rows.append({"state": "open" if flag else "closed",
                         "input": ("start" if start else "end" if start is False else "any") +
                                  ("" if markup is None else (" with markup" if markup else " without markup")),
                         "emits": list(toks), "next": "open" if ex else "closed"})
    return rows


def check_alternation(report, fn, table, clause, every_input=True):
    """(a) for every input: closed -> [] | [OPEN]; open -> [] | [CLOSE] | [CLOSE, OPEN]; flag == last tag was OPEN"""
    bad = []
    for (flag, start, markup), outs in table.items():
        for toks, ex in outs:
            toks = list(toks)
            if flag == 0:
                ok = (toks == [] and ex == 0) or (toks == ["OPEN"] and ex == 1)
            else:
                ok = (toks == [] and ex == 1) or (toks == ["CLOSE"] and ex == 0) or (toks == ["CLOSE", "OPEN"] and ex == 1)
            if not ok:
                bad.append({"state": "open" if flag else "closed", "start": start, "markup": markup, "emits": toks,
                            "next": "open" if ex else "closed"})
    report.check(not bad, "R-SPAN-TYPESTATE", fn,
                 "span tags alternate for every node sequence (flag == 'last tag emitted was an opening one')",
                 {"table": _fmt(table), "violating_rows": bad}, clause)
    return not bad


def check_flat(report, fn, table, clause):
    """(b) under the flat-span grammar (start end)*: explore (flag, grammar state, depth)"""
    seen = set()
    todo = [(0, "G0", 0)]
    bad = []
    while todo:
        flag, g, depth = todo.pop()
        if (flag, g, depth) in seen:
            continue
        seen.add((flag, g, depth))
        inputs = [(True, True), (True, False)] if g == "G0" else [(False, None)]
        for start, markup in inputs:
            outs = set()
            for (f, s, m), o in table.items():
                if f != flag:
                    continue
                if s is not None and s != start:
                    continue
                if m is not None and markup is not None and m != markup:
                    continue
                outs |= o
            if not outs:
                bad.append({"state": flag, "input": (start, markup), "why": "no path"})
                continue
            for toks, ex in outs:
                d = depth
                okseq = True
                for t in toks:
                    d += 1 if t == "OPEN" else -1
                    if d < 0 or d > 1:
                        okseq = False
                ng = "G1" if g == "G0" else "G0"
                if not okseq or (ng == "G0" and d != 0) or (bool(ex) != (d > 0)):
                    bad.append({"state": "open" if flag else "closed", "grammar": g, "input": "start" if start else "end",
                                "markup": markup, "emits": list(toks), "depth_after": d, "flag_after": ex})
                    continue
                todo.append((ex, ng, d))
    report.check(not bad, "R-SPAN-TYPESTATE", fn, "span tags are balanced for flat (non-nested) style spans",
                 {"reachable_states": sorted(map(str, seen)), "violations": bad[:4], "table": _fmt(table)}, clause)
    return not bad
