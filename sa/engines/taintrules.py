"""R-ESCAPE-ONCE / R-ESCAPE-TABLE on the sink events of absint."""
from ..core.astutil import short
from ..spec import hazards as H
from .effects import where_of


def data_pieces(v, depth=0, include_keys=True):
    out = set()
    if v is None or depth > 4:
        return out
    out |= {p for p in v.pieces if p.kind == "data"}
    out |= data_pieces(v.elem, depth + 1)
    if include_keys:
        out |= data_pieces(v.keys, depth + 1)
    for x in (v.fields or {}).values():
        out |= data_pieces(x, depth + 1)
    return out


def judge_piece(piece, context):
    """None if the piece is properly neutralised for the context, else a reason"""
    need = H.CONTEXT_HAZARDS[context]
    covered, amp, problems = H.coverage(piece.escapes)
    missing = H.missing_hazards(need, covered)
    if missing:
        if not piece.escapes:
            return f"reaches the output unescaped (needs {sorted(need)})"
        return f"escaping {list(piece.escapes)} does not neutralise {missing}"
    if amp > 1:
        return f"escaped {amp} times ({list(piece.escapes)}): '&' becomes '&amp;amp;'"
    if problems:
        return "; ".join(problems)
    return None


def rule_escape_once(report, run, sources, clause, label, known_ok=()):
    """every data piece of the given sources reaching a raw sink is neutralised
    exactly once for that sink's context"""
    ser = run.events("serialise")
    raw = all(e.what == "None" for e in ser) and bool(ser)
    verdicts = {}
    n_sinks = 0
    for e in run.events("sink"):
        n_sinks += 1
        for p in data_pieces(e.value):
            if p.src not in sources:
                continue
            if e.what == "attr":
                ctx = "soup-attr-raw"
            elif e.what == "text-raw":
                ctx = "markup-attr-dq-raw" if p.ctx == "attr" else "markup-text-raw"
            else:
                ctx = "soup-attr-raw"
            if raw:
                why = judge_piece(p, ctx)
            else:
                # a substituting formatter escapes at serialisation: then the obligation flips
                why = None if not p.escapes else f"escaped by hand {list(p.escapes)} AND by the serialiser's formatter"
            key = (e.fn.key if e.fn else "?", short(e.node, 70), p.src, ctx)
            if key not in verdicts or (why and not verdicts[key][0]):
                verdicts[key] = (why, e, p)
    bad = 0
    for (fnkey, nodetxt, src_, ctx), (why, e, p) in sorted(verdicts.items(), key=lambda kv: kv[0]):
        construct = f"{src_} -> {ctx} at `{nodetxt}`"
        if why:
            bad += 1
            report.violation("R-ESCAPE-ONCE", where_of(e), construct, {"problem": why, "escapes_applied": list(p.escapes)},
                             clause)
        else:
            report.ok("R-ESCAPE-ONCE", where_of(e), construct, {"escapes_applied": list(p.escapes)}, clause)
    report.check(bool(ser), "R-RAW-SINK", run.entry, f"{label}: serialised with prettify(formatter=None) (raw sinks)",
                 {"formatter": [e.what for e in ser]}, clause) if ser or True else None
    return n_sinks, bad
