"""E5 - helpers for rules over constant-folded tables."""
import re

from ..core.tree import AnalysisError
from ..spec import cea608

HEX2 = re.compile(r"^[0-9a-f]{2}$")
HEX4 = re.compile(r"^[0-9a-f]{4}$")


def parity_ok(hexstr):
    return all(cea608.has_odd_parity(int(hexstr[i:i + 2], 16)) for i in range(0, len(hexstr), 2))


def require_dict(v, name, min_len):
    if not isinstance(v, dict):
        raise AnalysisError(f"table {name} does not fold to a dict")
    if len(v) < min_len:
        raise AnalysisError(f"table {name} has {len(v)} entries, below the floor {min_len} confirmed by hand")
    return v
