"""The string-rewriting steps of a small routine, in EXECUTION order.

replace_steps(fn, folder) -> [(kind, a, b, node)] with kind 'replace' (str.replace(a, b)) or
'sub' (PATTERN.sub(repl, ...): a = pattern name / text, b = replacement source).  Handles
statement sequences, chained calls (a.replace(..).replace(..): innermost first) and loops over
a constant table (`for old, new in TABLE: s = s.replace(old, new)` - the table is folded and
expanded in iteration order).  Anything else that rewrites the string is an AnalysisError."""
import ast

from ..core.tree import AnalysisError
from ..core.astutil import calls_in_eval_order, src, walk_no_nested


def replace_steps(fn, folder, what="routine"):
    steps = []
    loops = [l for l in walk_no_nested(fn.node) if isinstance(l, ast.For)]
    for n in calls_in_eval_order(fn.node):
        if not isinstance(n.func, ast.Attribute):
            continue
        if n.func.attr == "replace" and len(n.args) == 2:
            if all(isinstance(a, ast.Constant) for a in n.args):
                steps.append(("replace", n.args[0].value, n.args[1].value, n))
                continue
            loop = None
            for l in loops:
                if any(x is n for x in walk_no_nested(l)):
                    loop = l
            if loop is None:
                raise AnalysisError(f"{what}: replace() with non-constant arguments outside a table loop")
            try:
                table = folder.eval_in(fn.module, loop.iter)
            except AnalysisError as e:
                raise AnalysisError(f"{what}: replacement table cannot be folded: {e}")
            pairs = list(table.items()) if isinstance(table, dict) else list(table)
            names = [src(a) for a in n.args]
            tnames = [src(e) for e in loop.target.elts] if isinstance(loop.target, ast.Tuple) else []
            if names != tnames or not all(isinstance(p, (tuple, list)) and len(p) == 2 for p in pairs):
                raise AnalysisError(f"{what}: table loop shape not recognised")
            steps.extend(("replace", a, b, n) for a, b in pairs)
        elif n.func.attr == "sub" and n.args:
            steps.append(("sub", src(n.func.value), src(n.args[0]), n))
    return steps
