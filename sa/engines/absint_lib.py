"""Library summaries for absint: builtins, external callables, methods of
builtin / third-party values.  Every summary is conservative for provenance
(the result carries the pieces / regions of what it was computed from)."""
import ast

from ..core.tree import AnalysisError
from ..core.astutil import src, short
from ..core.constfold import EnumClass, RegexConst
from .absint import (AV, TOP, NONE, BOOL, NUM, Piece, lit, str_av, const_av, join, join_all, _cap, MUTATORS, PURE_STR,
                     BOOL_STR, NONDET, PROCSTATE)

TAG = lambda regions=("F",): AV(kinds=["ext"], tag="tag", regions=regions)
DOCSTR = lambda: AV(kinds=["str"], pieces=[Piece("data", "doc", (), None, None)])


def _recopy(v, region, seen=None):
    """deepcopy: same shape, every object in the copy region"""
    if v is None:
        return None
    seen = seen if seen is not None else {}
    if id(v) in seen:
        return seen[id(v)]
    regs = [region] if (v.regions or v.kinds & {"obj", "dict", "list", "set", "top"}) else []
    nv = v.copy(regions=regs, oid=None)
    seen[id(v)] = nv
    nv.elem = _recopy(v.elem, region, seen)
    nv.keys = _recopy(v.keys, region, seen)
    if v.fields is not None:
        nv.fields = {k: _recopy(x, region, seen) for k, x in v.fields.items()}
    return nv


def sanitise(v, name):
    """apply a sanitiser to every data piece of a string value"""
    out = set()
    # a replacement whose result cannot contain its own pattern again is idempotent: applied a second time in a row (a loop
    # that re-scans its accumulator) it changes nothing and is recorded once
    idem = False
    if name.startswith("replace:") and "→" in name:
        a_, _, b_ = name[len("replace:"):].partition("→")
        idem = bool(a_) and a_ not in b_
    for p in v.pieces:
        if p.kind == "data":
            if idem and p.escapes and p.escapes[-1] == name:
                out.add(p)
                continue
            out.add(p._replace(escapes=(p.escapes + (name,))[-4:]))
        else:
            out.add(p)
    if not v.pieces:
        out.add(Piece("data", "unknown", (name,), None, None))
    return v.copy(pieces=_cap(out), const=None, kinds=(v.kinds - {"dict"}) | {"str"} if v.tag == "data" else v.kinds)


def as_text(interp, v, st, node):
    """string view of a value that may be polymorphic model data"""
    if v.tag == "data" and "dict" in v.kinds and "str" in v.kinds:
        return v.copy(kinds=["str"])
    return v


# ------------------------------------------------------------------------------
def builtin(I, name, args, kwargs, st, node):
    a0 = args[0] if args else None
    if name in ("len", "int", "float", "abs", "round", "ord", "hash", "sum", "min", "max", "divmod", "pow"):
        if name in ("min", "max") and a0 is not None and not (a0.kinds <= {"num"}):
            return join_all([I.iterate(a, node, st, quiet=True) if a.kinds & {"list", "tuple", "set"} else a
                             for a in args]) or NUM
        if name == "divmod":
            return AV(kinds=["tuple"], elem=NUM, fields={0: NUM, 1: NUM})
        if name == "hash" or name == "id":
            pass
        return NUM
    if name in ("bool", "isinstance", "issubclass", "hasattr", "callable", "any", "all"):
        if name in ("any", "all") and a0 is not None:
            I.iterate(a0, node, st, quiet=True)
        return BOOL
    if name == "id":
        I.emit("nondet", "id()", None, node)
        return NUM
    if name == "str" or name == "repr" or name == "format":
        if a0 is None:
            return const_av("")
        return str_av(I.str_pieces(a0, None, node, st))
    if name == "chr":
        return AV(kinds=["str"], pieces=[Piece("data", "charref", (), None, None)])
    if name in ("list", "tuple"):
        if a0 is None:
            return AV(kinds=[name], regions=["F"] if name == "list" else [])
        e = I.iterate(a0, node, st)
        return AV(kinds=[name], regions=["F"] if name == "list" else [], elem=e)
    if name == "sorted":
        e = I.iterate(a0, node, st, quiet=True)
        return AV(kinds=["list"], regions=["F"], elem=e)
    if name == "reversed":
        e = I.iterate(a0, node, st)
        return AV(kinds=["list"], regions=["F"], elem=e)
    if name in ("set", "frozenset"):
        e = I.iterate(a0, node, st, quiet=True) if a0 is not None else None
        return AV(kinds=["set"], regions=["F"], elem=e, setlike=True)
    if name == "dict":
        if a0 is None:
            return AV(kinds=["dict"], regions=["F"], fields={k: v for k, v in kwargs.items() if k != "**"})
        if "dict" in a0.kinds:
            return a0.copy(regions=["F"], oid=None)
        e = I.iterate(a0, node, st, quiet=True)
        # a dict built from a hash-ordered set keeps that order: iterating IT is order sensitive
        return AV(kinds=["dict"], regions=["F"], elem=(e.fields or {}).get(1, e.elem), keys=(e.fields or {}).get(0),
                  setlike=bool(a0.setlike))
    if name in ("map", "filter") and len(args) >= 2:
        e = I.iterate(args[1], node, st)
        if name == "map":
            r = I.apply(a0, [e], {}, st, node) if "func" in a0.kinds else e
            return AV(kinds=["list"], regions=["F"], elem=r)
        if "func" in a0.kinds:
            I.apply(a0, [e], {}, st, node)
        return AV(kinds=["list"], regions=["F"], elem=e)
    if name == "enumerate":
        e = I.iterate(a0, node, st)
        return AV(kinds=["list"], regions=["F"], elem=AV(kinds=["tuple"], elem=join(NUM, e), fields={0: NUM, 1: e}))
    if name == "zip":
        es = [I.iterate(a, node, st) for a in args]
        return AV(kinds=["list"], regions=["F"], elem=AV(kinds=["tuple"], elem=join_all(es),
                                                          fields={i: e for i, e in enumerate(es)}))
    if name == "range":
        return AV(kinds=["list"], regions=["F"], elem=NUM)
    if name in ("iter",):
        return a0 if a0 is not None else TOP
    if name == "next":
        return I.iterate(a0, node, st) if a0 is not None else TOP
    if name == "getattr":
        obj, nm = args[0], args[1]
        default = args[2] if len(args) > 2 else None
        names = [p.text for p in nm.pieces if p.kind == "lit" and p.text] if nm.const is None else [nm.const]
        if names and all(isinstance(n, str) for n in names):
            out = default
            for n in names:
                out = join(out, I.load_attr(obj, n, st, node))
            return out
        return AV(kinds=["top"], regions=obj.regions)
    if name == "setattr":
        obj, nm, val = args[0], args[1], args[2]
        names = [nm.const] if isinstance(nm.const, str) else [p.text for p in nm.pieces if p.kind == "lit" and p.text]
        if not names:
            names = ["?"]
        for n in names:
            I.store_attr(obj, n, val, st, node)
        return NONE
    if name == "super":
        fr = I.stack[-1]
        return AV(kinds=["super"], cls=fr.cls, selfv=fr.selfv)
    if name == "type":
        if a0 is not None and a0.cls is not None:
            return AV(kinds=["class"], cls=a0.cls)
        return TOP
    if name == "print":
        return NONE
    if name in ("open", "input", "eval", "exec", "compile", "__import__"):
        I.emit("nondet", name, None, node)
        return TOP
    if name in ("Exception", "ValueError", "TypeError", "KeyError", "IndexError", "RuntimeError", "AttributeError",
                "NotImplementedError", "LookupError", "ModuleNotFoundError", "UnicodeEncodeError",
                "UnicodeDecodeError", "StopIteration", "ZeroDivisionError"):
        return AV(kinds=["ext"], tag="exception")
    I.counters["calls_unresolved"] += 1
    I.unresolved.append(f"builtin {name}")
    return I._havoc(args, kwargs, None)


# ------------------------------------------------------------------------------
def external(I, name, args, kwargs, st, node):
    I.counters["calls_external"] += 1
    a0 = args[0] if args else None
    last = name.split(".")[-1]
    if name.startswith("builtins.") and a0 is not None:
        return method(I, a0, last, args[1:], kwargs, st, node)
    if name in PROCSTATE:
        I.emit("procstate", name, None, node)
        return TOP
    if name in NONDET or last in ("urandom",):
        I.emit("nondet", name, None, node)
        return TOP
    if name in ("copy.deepcopy",):
        cls = a0.cls if a0 is not None else None
        if cls is not None:
            for hook in ("__deepcopy__", "__copy__", "__reduce__", "__reduce_ex__", "__getstate__", "__setstate__"):
                if cls.find_method(hook) is not None:
                    I.emit("deepcopy-hook", f"{cls.name}.{hook}", a0, node)
                    return a0
        return _recopy(a0, "C")
    if name in ("copy.copy",):
        return a0.copy(regions=["C"], oid=None) if a0 is not None else TOP
    if name in ("xml.sax.saxutils.escape", "html.escape"):
        ents = args[1] if len(args) > 1 else kwargs.get("entities")
        tbl = "xml"
        if ents is not None and ents.fields and '"' in ents.fields:
            tbl = "xml+quot"
        if name == "html.escape":
            tbl = "xml+quot"
        return sanitise(as_text(I, a0, st, node), tbl)
    if name in ("xml.sax.saxutils.unescape", "html.unescape"):
        return sanitise(as_text(I, a0, st, node), "unescape")
    if name in ("xml.sax.saxutils.quoteattr",):
        # quoteattr picks the quote character from the data: a value with '"' and no "'" comes back
        # as '...' with the '"' left as it is.  Only & < > are escaped for certain; a slice of the
        # result (dropping its own quotes) therefore carries no guarantee about '"'.
        return sanitise(as_text(I, a0, st, node), "xml")
    if last == "BeautifulSoup" or name.endswith("bs4.BeautifulSoup"):
        return AV(kinds=["ext"], tag="soup", regions=["F"], const=("soup", a0.const if a0 is not None else None))
    if name.startswith("re."):
        f = name[3:]
        if f == "compile":
            return AV(kinds=["ext"], tag="regex", const=RegexConst(a0.const, 0) if a0 is not None and
                      isinstance(a0.const, str) else None)
        if f in ("match", "search", "fullmatch"):
            return AV(kinds=["ext", "none"], tag="match")
        if f == "sub":
            return str_av((args[1].pieces if len(args) > 1 else set()) | (args[2].pieces if len(args) > 2 else set()))
        if f in ("findall", "split"):
            return AV(kinds=["list"], regions=["F"], elem=join(args[1].copy(const=None) if len(args) > 1 else TOP,
                                                                AV(kinds=["tuple"], elem=DOCSTR())))
        return TOP
    if name in ("datetime.timedelta", "datetime.datetime.timedelta"):
        return AV(kinds=["ext"], tag="timedelta")
    if name in ("collections.defaultdict", "collections.OrderedDict"):
        return AV(kinds=["dict"], regions=["F"], fields={})
    if name == "collections.deque":
        e = I.iterate(a0, node, st, quiet=True) if a0 is not None else None
        return AV(kinds=["list"], regions=["F"], elem=e)
    if name == "collections.namedtuple":
        return AV(kinds=["func"], fn=("external", "namedtuple-instance"))
    if name == "namedtuple-instance":
        vals = list(args) + [v for k, v in kwargs.items() if k != "**"]
        return AV(kinds=["tuple"], regions=[], elem=join_all(vals), fields={**{i: v for i, v in enumerate(args)},
                                                                          **{k: v for k, v in kwargs.items()}})
    if name == "textwrap.fill":
        return a0.copy(const=None) if a0 is not None else TOP
    if name.startswith("math.") or name in ("fractions.Fraction", "decimal.Decimal"):
        return NUM
    if name in ("os.getenv", "os.environ.get"):
        return AV(kinds=["str", "none"], pieces=[Piece("safe", "env", (), None, None)])
    if name.startswith("os.path."):
        return AV(kinds=["str"], pieces=[Piece("safe", "path", (), None, None)])
    if name == "itertools.product":
        return AV(kinds=["list"], regions=["F"], elem=AV(kinds=["tuple"], elem=join_all(
            [I.iterate(a, node, st, quiet=True) for a in args])))
    if name == "sys.exc_info":
        return AV(kinds=["tuple"], elem=TOP)
    if name.endswith("HTMLParser.__init__"):
        return NONE
    if name.endswith("HTMLParser.feed"):
        selfv = a0
        if selfv is not None and selfv.cls is not None:
            data = DOCSTR()
            attrs = AV(kinds=["list"], regions=["F"], elem=AV(kinds=["tuple"], elem=data, fields={0: data, 1: data}))
            calls = [("handle_starttag", [data, attrs]), ("handle_endtag", [data]), ("handle_data", [data]),
                     ("handle_entityref", [data]), ("handle_charref", [data]), ("handle_comment", [data]),
                     ("handle_startendtag", [data, attrs]), ("handle_decl", [data]), ("handle_pi", [data])]
            for _round in range(2):
                for mname, margs in calls:
                    m = selfv.cls.find_method(mname)
                    if m is not None:
                        I.call_function(m, margs, {}, st, selfv=selfv, node=node)
        return NONE
    if name.startswith("cssutils") or name.startswith("logging") or "log." in name or name.startswith("nltk"):
        return AV(kinds=["top"], pieces=[Piece("data", "doc", (), None, None)])
    if name.startswith("html.entities"):
        if last == "copy":
            return AV(kinds=["dict"], regions=["F"], elem=NUM)
        return AV(kinds=["dict"], regions=["G:html.entities"], elem=NUM)
    if name.endswith("Enum") or last in ("Number",):
        return TOP
    if last in ("SyntaxErr",):
        return TOP
    # method of an external class called through the class: Base.method(self, ...)
    if a0 is not None and a0.cls is not None and any(name.startswith(b.rsplit(".", 1)[0]) or b.split(".")[-1] in name
                                                    for b in a0.cls.external_bases()):
        return method(I, a0, last, args[1:], kwargs, st, node)
    I.unresolved.append(f"external {name}")
    I.counters["calls_unresolved"] += 1
    return I._havoc(args, kwargs, None)


# ------------------------------------------------------------------------------
def method(I, base, name, args, kwargs, st, node):
    a0 = args[0] if args else None
    kinds = base.kinds
    # --- bs4 -----------------------------------------------------------------
    is_soup = base.tag in ("soup", "tag") or (base.cls is not None and any(
        b.split(".")[-1] == "BeautifulSoup" for b in base.cls.external_bases()))
    if base.tag == "tagattrs":
        if name == "update":
            I.emit("sink", "attr", a0, node, {"via": "tag.attrs.update()"})
            return NONE
        if name == "get":
            return join(DOCSTR(), args[1] if len(args) > 1 else NONE)
        return TOP
    if is_soup:
        regs = base.regions or ("F",)
        if name in ("find", "findChild", "select_one", "find_parent", "find_next", "find_previous"):
            return TAG(regs).copy(kinds=["ext", "none"])
        if name in ("find_all", "findAll", "findChildren", "select", "find_parents"):
            return AV(kinds=["list"], regions=["F"], elem=TAG(regs))
        if name == "new_tag":
            for k, v in kwargs.items():
                I.emit("sink", "attr", v, node, {"via": f"new_tag(..., {k}=)", "key": const_av(k)})
            if a0 is not None and a0.const is None:
                I.emit("sink", "tagname", a0, node, {"via": "new_tag(name)"})
            return TAG(["F"])
        if name in ("append", "insert", "insert_after", "insert_before", "extend"):
            v = args[-1] if args else None
            if v is not None and ("str" in v.kinds or v.is_top() and v.pieces):
                I.emit("sink", "text-raw", v, node, {"via": f"tag.{name}(str)"})
            return NONE
        if name in ("extract", "decompose", "clear", "replace_with", "unwrap", "wrap"):
            return NONE
        if name == "prettify" or name in ("decode", "encode", "__str__"):
            f = kwargs.get("formatter", args[1] if len(args) > 1 else None)
            fconst = "absent" if f is None else ("None" if f.kinds == frozenset(["none"]) else repr(f.const))
            I.emit("serialise", fconst, base, node)
            return AV(kinds=["str"], pieces=[Piece("safe", "serialised-soup", (), None, None)])
        if name in ("get", "get_text", "getText", "has_attr", "__getitem__"):
            if name == "has_attr":
                return BOOL
            return AV(kinds=["str", "none"], pieces=[Piece("data", "doc", (), None, None)])
        if name == "__init__":
            return NONE
        return TOP
    if base.tag == "match":
        if name in ("group", "__getitem__"):
            return AV(kinds=["str", "none"], pieces=[Piece("data", "doc", (), None, None)])
        if name in ("groups",):
            return AV(kinds=["tuple"], elem=AV(kinds=["str", "none"], pieces=[Piece("data", "doc", (), None, None)]))
        if name == "groupdict":
            return AV(kinds=["dict"], regions=["F"], elem=DOCSTR())
        return NUM
    if base.tag == "regex":
        if name in ("search", "match", "fullmatch"):
            return AV(kinds=["ext", "none"], tag="match")
        if name == "sub":
            return str_av((a0.pieces if a0 is not None else set()) | (args[1].pieces if len(args) > 1 else set()))
        if name in ("findall", "split", "finditer"):
            return AV(kinds=["list"], regions=["F"], elem=join(args[0].copy(const=None) if args else TOP,
                                                                AV(kinds=["tuple"], elem=DOCSTR())))
        return TOP
    if base.tag == "timedelta":
        return NUM
    if "super" in kinds:
        return TOP
    # --- in-package list/dict subclasses falling through to the builtin behaviour ---
    # --- str -------------------------------------------------------------------
    if "str" in kinds and not (kinds & {"list", "set"}) and (name in PURE_STR or name in BOOL_STR or name in (
            "replace", "split", "rsplit", "splitlines", "join", "format", "encode", "decode", "find", "rfind", "index",
            "count", "partition", "rpartition", "format_map", "translate", "isidentifier")) and not (
            "dict" in kinds and name in ("items", "keys", "values", "get", "update", "pop", "copy")):
        sv = as_text(I, base, st, node)
        if name in BOOL_STR:
            return BOOL
        if name in ("find", "rfind", "index", "count"):
            return NUM
        if name in PURE_STR:
            if sv.const is not None and isinstance(sv.const, str) and all(a.const is not None for a in args):
                try:
                    return const_av(getattr(sv.const, name)(*[a.const for a in args]))
                except Exception:
                    pass
            return sv.copy(const=None)
        if name == "replace":
            if sv.const is not None and a0 is not None and isinstance(a0.const, str) and len(args) > 1 \
                    and isinstance(args[1].const, str) and isinstance(sv.const, str):
                return const_av(sv.const.replace(a0.const, args[1].const))
            if a0 is not None and isinstance(a0.const, str) and len(args) > 1 and isinstance(args[1].const, str):
                r = sanitise(sv, f"replace:{a0.const}→{args[1].const}")
                return r.copy(pieces=_cap(r.pieces | {lit(args[1].const)}))
            return str_av(sv.pieces | (args[1].pieces if len(args) > 1 else set()))
        if name in ("split", "rsplit", "splitlines", "partition", "rpartition"):
            return AV(kinds=["list"], regions=["F"], elem=sv.copy(const=None))
        if name == "join":
            e = I.iterate(a0, node, st) if a0 is not None else None
            pieces = set(sv.pieces)
            if e is not None:
                pieces |= I.str_pieces(e, None, node, st)
            return str_av(pieces)
        if name in ("format", "format_map"):
            pieces = set(sv.pieces)
            for v in list(args) + [v for k, v in kwargs.items()]:
                pieces |= I.str_pieces(v, None, node, st)
            return str_av(pieces)
        if name in ("encode", "decode", "translate"):
            return sv.copy(const=None)
        return TOP
    # --- dict --------------------------------------------------------------------
    if "dict" in kinds or (base.tag == "data" and name in ("items", "keys", "values", "get", "copy")):
        vals = join(base.elem, join_all((base.fields or {}).values()) if base.fields else None)
        if vals is None:
            vals = AV(kinds=["top"], regions=base.regions)
        keys = base.keys
        if keys is None:
            ks = [k for k in (base.fields or {}) if isinstance(k, str)]
            keys = AV(kinds=["str"], pieces=[lit(k) for k in ks] or [lit(None)])
        if name == "items":
            if base.fields and base.elem is None:
                # field-sensitive: keep (key, value) pairs together
                pairs = [AV(kinds=["tuple"], elem=join(const_av(k), v), fields={0: const_av(k), 1: v})
                         for k, v in base.fields.items()]
                return AV(kinds=["list"], regions=["F"], elem=join_all(pairs), tag="dictview", setlike=bool(base.setlike))
            return AV(kinds=["list"], regions=["F"], elem=AV(kinds=["tuple"], elem=join(keys, vals),
                                                              fields={0: keys, 1: vals}), tag="dictview", setlike=bool(base.setlike))
        if name == "keys":
            return AV(kinds=["list"], regions=["F"], elem=keys, tag="dictview", setlike=bool(base.setlike))
        if name == "values":
            return AV(kinds=["list"], regions=["F"], elem=vals, setlike=bool(base.setlike))
        if name == "get":
            d = args[1] if len(args) > 1 else NONE
            if a0 is not None and a0.const is not None and base.fields is not None and a0.const in base.fields \
                    and base.elem is None:
                return base.fields[a0.const]
            got = I.load_item(base, a0 if a0 is not None else TOP, st, node)
            return join(got, d)
        if name == "copy":
            return base.copy(regions=["C"] if (base.regions - {"F"}) else ["F"], oid=None)
        if name in ("update", "setdefault", "pop", "popitem", "clear", "__setitem__", "__delitem__"):
            I.mutation(base, f"dict.{name}()", node, st)
            if name == "update" and a0 is not None:
                nb = base.copy(fields={**(base.fields or {}), **(a0.fields or {})} if (base.fields is not None or a0.fields)
                               else None, elem=join(base.elem, a0.elem), keys=join(base.keys, a0.keys))
                for k, v in kwargs.items():
                    if k != "**":
                        nb.fields = dict(nb.fields or {})
                        nb.fields[k] = v
                _writeback(I, node, nb, st)
                return NONE
            if name == "setdefault":
                d = args[1] if len(args) > 1 else NONE
                nb = base.copy(elem=join(base.elem, d))
                _writeback(I, node, nb, st)
                return join(vals, d)
            if name == "pop":
                return join(vals, args[1] if len(args) > 1 else None)
            return vals if name == "popitem" else NONE
        if name in ("fromkeys",):
            return AV(kinds=["dict"], regions=["F"], elem=args[1] if len(args) > 1 else NONE)
    if kinds <= {"num", "bool", "none"} and kinds:
        return BOOL if name.startswith("is") else NUM
    # --- list / set / deque ----------------------------------------------------------
    if kinds & {"list", "set", "tuple"}:
        elem = join(base.elem, join_all((base.fields or {}).values()) if base.fields and not ("dict" in kinds) else None)
        if base.cls is not None and "obj" in kinds:
            elem = join(elem, I.model_elem(base))
        heap_obj = base.oid is not None and base.oid in st.heap
        if heap_obj:
            elem = join(elem, st.heap[base.oid].get("__elem__"))
        if name == "__init__":
            if a0 is not None and heap_obj:
                st.heap[base.oid]["__elem__"] = join(elem, I.iterate(a0, node, st, quiet=True))
            return NONE
        if name in ("__getitem__", "__getslice__", "__add__", "__mul__", "__iter__"):
            if name == "__getitem__":
                return join(elem, base.copy(regions=["F"], oid=None)) if elem is not None else TOP
            return base.copy(regions=["F"], oid=None, elem=join(elem, a0.elem if a0 is not None else None))
        if name in MUTATORS or name in ("__setitem__", "__delitem__"):
            # in-package subclass overriding the method is resolved by the caller; here: builtin behaviour
            I.mutation(base, f"{'/'.join(sorted(kinds & {'list', 'set'}))}.{name}()", node, st)
            if name in ("append", "add", "appendleft", "insert"):
                v = args[-1] if args else None
                if heap_obj:
                    st.heap[base.oid]["__elem__"] = join(elem, v)
                    return NONE
                nb = base.copy(elem=join(elem, v), fields=None if base.fields and "tuple" not in kinds else base.fields)
                _writeback(I, node, nb, st)
                return NONE
            if name in ("extend", "update", "extendleft"):
                v = I.iterate(a0, node, st, quiet=True) if a0 is not None else None
                if heap_obj:
                    st.heap[base.oid]["__elem__"] = join(elem, v)
                    return NONE
                nb = base.copy(elem=join(elem, v))
                _writeback(I, node, nb, st)
                return NONE
            if name in ("pop", "popleft"):
                if base.setlike:
                    I.emit("set-order", "pop() on a hash-ordered set", base, node)
                return elem if elem is not None else AV(kinds=["top"], regions=base.regions)
            if name in ("sort", "reverse", "clear", "remove", "discard", "rotate"):
                return NONE
            return NONE
        if name in ("index", "count", "__len__"):
            return NUM
        if name == "copy":
            return base.copy(regions=["F"], oid=None)
        if name in ("union", "intersection", "difference", "symmetric_difference"):
            return base.copy(regions=["F"], elem=join(elem, a0.elem if a0 is not None else None))
        if name in ("issubset", "issuperset", "isdisjoint", "__contains__"):
            return BOOL
    # --- opaque / unknown receivers --------------------------------------------------
    if name in MUTATORS and (base.regions or base.is_top()):
        I.mutation(base, f".{name}() on an unresolved receiver", node, st)
    if base.cls is not None and "obj" in kinds:
        I.unresolved.append(f"{base.cls.name}.{name}")
    else:
        I.unresolved.append(f"?.{name}")
    I.counters["calls_unresolved"] += 1
    r = I._havoc(args, kwargs, None)
    return r.copy(regions=r.regions | base.regions, pieces=_cap(r.pieces | base.pieces))


def _writeback(I, call_node, nv, st):
    """store the updated abstract container where the receiver expression lives"""
    if isinstance(call_node, ast.Call) and isinstance(call_node.func, ast.Attribute):
        I.rebind(call_node.func.value, nv, st)
