"""R-AFFINE / R-EXACT helpers on top of symeval."""
from fractions import Fraction

from ..core.tree import AnalysisError
from .symeval import Poly, inner_of, Raised, SNone


def unwrap_floor(poly):
    """(inner polynomial, floored?) - peel one outer floor[...] atom."""
    if isinstance(poly, Poly) and len(poly.terms) == 1:
        (m, c), = poly.terms.items()
        if c == 1 and len(m) == 1 and m[0][1] == 1 and m[0][0].startswith("floor["):
            inner = inner_of(m[0][0])
            if inner is not None:
                return inner, True
    return poly, False


def base_atoms(poly, known=()):
    """input atoms of a form, looking through nested floor[...] atoms (an atom
    listed in `known` is kept as it is)"""
    out = set()
    for a in poly.atoms():
        inner = inner_of(a) if a.startswith("floor[") and a not in known else None
        if inner is not None:
            out |= base_atoms(inner, known)
        else:
            out.add(a)
    return out


def flatten_floors(poly, known=()):
    """Replace every floor[...] atom (not listed in `known`) by the form under
    it: coefficients are compared on the exact value, truncation is judged
    separately (R-EXACT / want_floor).  Returns (flattened poly, list of the
    inner forms that were truncated)."""
    truncated = []
    out = Poly({}, poly.rounds, poly.isfloat, rational=poly.rational)
    changed = False
    for m, c in poly.terms.items():
        term = Poly({(): c})
        for a, e in m:
            inner = inner_of(a) if a.startswith("floor[") and a not in known else None
            if inner is not None and e == 1:
                flat, more = flatten_floors(inner, known)
                truncated.append(inner)
                truncated.extend(more)
                term = term.mul(flat)
                changed = True
            else:
                term = term.mul(Poly({((a, e),): 1}))
        out = out.add(term)
    out.rounds, out.isfloat = poly.rounds, poly.isfloat
    return (out if changed else poly), truncated


def form_dict(poly):
    """{monomial text: coefficient} with '' for the constant term."""
    out = {}
    for m, c in poly.terms.items():
        key = "*".join(a if e == 1 else f"{a}^{e}" for a, e in m)
        out[key] = c
    return out


def show_form(d):
    if not d:
        return "0"
    return " + ".join((f"{c}*{k}" if k else f"{c}") for k, c in sorted(d.items()))


def check_affine(report, rule, where, label, poly, expected, vocabulary, clause=None,
                 want_floor=None, note=None):
    """expected: {monomial text: Fraction}; vocabulary: set of atom names the
    oracle can interpret.  Unknown atoms -> AnalysisError (shape changed);
    otherwise any difference in terms or coefficients is a VIOLATION."""
    if not isinstance(poly, Poly):
        raise AnalysisError(f"{label}: result is not numeric ({type(poly).__name__})")
    inner, floored = unwrap_floor(poly)
    # a value rounded to NEAREST where the oracle wants truncation (or an exact value)
    rounded = [a for m in inner.terms for a, _ in m if a.startswith("round[")]
    if len(rounded) == 1 and len(inner.terms) == 1 and list(inner.terms.values())[0] == 1 \
            and rounded[0].endswith("]") and ", " not in rounded[0].rsplit("]", 1)[0].rsplit("[", 1)[-1][-4:]:
        report.violation(rule, where, label, {"found": inner.show()[:200],
                                              "why": "the value is rounded to the nearest integer; sub-unit remainders must be "
                                                     "dropped (truncated), so results differ by one unit whenever the remainder "
                                                     "exceeds one half"}, clause)
        return False, inner, False
    early = []
    for m, c in inner.terms.items():
        for a, e in m:
            if a.startswith("floor[") and a not in vocabulary and inner_of(a) is not None:
                if len(m) > 1 or e != 1 or c != 1:
                    early.append(a[:120])
    inner, _trunc = flatten_floors(inner, vocabulary)
    atoms = base_atoms(inner, vocabulary)
    unknown = sorted(a for a in atoms if a not in vocabulary)
    if unknown:
        raise AnalysisError(f"{label}: the conversion reads inputs the oracle cannot interpret: {unknown[:4]} "
                            f"(found form {inner.show()[:200]})")
    found = form_dict(inner)
    exp = {k: Fraction(v) for k, v in expected.items() if Fraction(v) != 0}
    diffs = {}
    for k in sorted(set(found) | set(exp)):
        if found.get(k, 0) != exp.get(k, 0):
            diffs[k or "<constant>"] = {"found": str(found.get(k, 0)), "required": str(exp.get(k, 0))}
    detail = {"found": show_form(found), "required": show_form(exp)}
    if diffs:
        detail["coefficients_that_differ"] = diffs
    if note:
        detail["note"] = note
    if early:
        detail["truncated_before_scaling"] = early
        detail["why"] = "a factor is truncated to an integer and then multiplied: the lost fraction is scaled up"
    ok = not diffs and not early
    if want_floor is not None and ok:
        needs = inner.isfloat or any(c.denominator != 1 for c in inner.terms.values()) \
            or any(e < 0 for m in inner.terms for _, e in m)
        if want_floor and needs and not floored:
            ok = False
            detail["truncation"] = "result is not truncated to an integer"
    report.check(ok, rule, where, label, detail, clause)
    return ok, inner, floored


def outcome_table(outcomes):
    rows = []
    for o in outcomes:
        v = o.value
        if isinstance(v, Poly):
            d = v.show()
        elif isinstance(v, Raised):
            d = f"raise {v.exc}"
        elif isinstance(v, SNone):
            d = "None"
        else:
            d = type(v).__name__
        rows.append({"when": o.cond_text(), "result": d})
    return rows
