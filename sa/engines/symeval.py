"""E1/E7 - symbolic evaluation of loop-free numeric code into exact
polynomial forms over canonical input atoms, with a rounding-kind lattice.

Values
  Poly      exact rational polynomial (Laurent: negative exponents allowed) over
            atoms, plus `rounds` = number of binary-float roundings performed on
            the way (0 = exact integer/Fraction arithmetic) and `isfloat`.
  SStr      symbolic string, identified by a canonical access path built from
            the function's parameters (`$stamp.split(':')[0]`, `$m.group('hours')`)
  SList     result of str.split / match.groups()
  SMatch    a match object of a known pattern
  SObj      opaque object with symbolic attributes (timedelta, self)
Branches on undecidable tests fork the path; each outcome carries its path
condition as canonical text.  Loops are not supported (the analysed sites are
loop-free); anything outside the modelled subset raises AnalysisError.
"""
import ast
from fractions import Fraction

from ..core.tree import AnalysisError
from ..core.astutil import src, call_name
from ..core.constfold import RegexConst, Unknown, EnumMember, EnumClass

MAX_PATHS = 256


# ---------------------------------------------------------------------------
class Poly:
    __slots__ = ("terms", "rounds", "isfloat", "floored", "rational")

    def __init__(self, terms=None, rounds=0, isfloat=False, floored=False, rational=False):
        self.terms = {m: c for m, c in (terms or {}).items() if c != 0}
        self.rounds = rounds
        self.isfloat = isfloat
        self.floored = floored
        self.rational = rational   # exact non-integer type (fractions.Fraction)

    @staticmethod
    def const(v, isfloat=False):
        return Poly({(): Fraction(v)} if v != 0 else {}, 0, isfloat)

    @staticmethod
    def atom(key, isfloat=False, rounds=0):
        return Poly({((key, 1),): Fraction(1)}, rounds, isfloat)

    def is_const(self):
        return all(m == () for m in self.terms)

    def const_value(self):
        return self.terms.get((), Fraction(0))

    def atoms(self):
        return sorted({a for m in self.terms for a, _ in m})

    def coeff(self, *atoms):
        m = tuple(sorted((a, 1) for a in atoms))
        return self.terms.get(m, Fraction(0))

    def _combine_meta(self, other, op):
        isf = self.isfloat or other.isfloat
        rounds = max(self.rounds, other.rounds)
        if op == "/" and not isf and not (self.rational or other.rational):
            isf = True   # int / int -> float
            rounds += 1
        elif isf:
            rounds = max(self.rounds, other.rounds) + 1
        return isf, rounds

    def add(self, o, sign=1):
        t = dict(self.terms)
        for m, c in o.terms.items():
            t[m] = t.get(m, 0) + sign * c
        isf, r = self._combine_meta(o, "+")
        return Poly(t, r, isf, rational=(self.rational or o.rational) and not isf)

    def mul(self, o):
        t = {}
        for m1, c1 in self.terms.items():
            for m2, c2 in o.terms.items():
                d = dict(m1)
                for a, e in m2:
                    d[a] = d.get(a, 0) + e
                m = tuple(sorted((a, e) for a, e in d.items() if e != 0))
                t[m] = t.get(m, 0) + c1 * c2
        isf, r = self._combine_meta(o, "*")
        return Poly(t, r, isf, rational=(self.rational or o.rational) and not isf)

    def div(self, o, exact=False):
        if len(o.terms) != 1:
            raise AnalysisError("symeval: division by a sum is not modelled")
        (m2, c2), = o.terms.items()
        inv = Poly({tuple(sorted((a, -e) for a, e in m2)): Fraction(1) / c2}, o.rounds, o.isfloat)
        res = self.mul(inv)
        if exact:
            res.isfloat = self.isfloat or o.isfloat
            res.rounds = max(self.rounds, o.rounds) + (1 if res.isfloat else 0)
        else:
            isf, r = self._combine_meta(o, "/")
            res.isfloat, res.rounds = isf, r
        res.rational = (self.rational or o.rational) and not res.isfloat
        return res

    def same_form(self, o):
        return self.terms == o.terms

    def show(self):
        if not self.terms:
            return "0"
        parts = []
        for m, c in sorted(self.terms.items(), key=lambda kv: (len(kv[0]), str(kv[0]))):
            mono = "*".join(a if e == 1 else f"{a}^{e}" for a, e in m)
            cs = str(c) if c.denominator == 1 else f"({c})"
            parts.append(f"{cs}*{mono}" if mono and c != 1 else (mono or cs))
        s = " + ".join(parts)
        if self.floored:
            s = f"floor[{s}]"
        return s

    def describe(self):
        return {"form": self.show(), "float": self.isfloat, "roundings": self.rounds}

    def __repr__(self):
        return f"<Poly {self.show()} f={self.isfloat} r={self.rounds}>"


class SStr:
    group_of = None

    def __init__(self, path, known=None, parts=None):
        self.path = path
        self.known = known      # concrete value when constant
        self.parts = parts      # for concat: list of SStr

    def __repr__(self):
        return f"<SStr {self.path}>"


class SDigits(SStr):
    """A string of KNOWN length whose characters are known characters or symbolic decimal
    digits (atoms): the abstract value of a regex group `\\d{n}` for a chosen n.  int() of it is
    the exact polynomial sum(d_i * 10^(n-i)); slicing, padding and len() are exact."""

    def __init__(self, path, chars):
        SStr.__init__(self, path)
        self.chars = list(chars)        # each: ("c", char) known character | ("d", atom name)
        if all(k == "c" for k, _ in self.chars):
            self.known = "".join(v for _, v in self.chars)

    @staticmethod
    def symbolic(path, n):
        return SDigits(path, [("d", f"{path}#{i + 1}") for i in range(n)])

    def value(self):
        out = Poly.const(0)
        n = len(self.chars)
        for i, (k, v) in enumerate(self.chars):
            w = Poly.const(10 ** (n - 1 - i))
            if k == "d":
                out = out.add(Poly.atom(v).mul(w))
            elif v.isdigit():
                out = out.add(Poly.const(int(v)).mul(w))
            else:
                raise AnalysisError(f"symeval: int() of a digit string containing {v!r}")
        if not self.chars:
            raise AnalysisError("symeval: int('')")
        return out


class SList:
    def __init__(self, path, items=None):
        self.path = path
        self.items = dict(items or {})   # index -> value overrides

    def get(self, i):
        if i in self.items:
            return self.items[i]
        return SStr(f"{self.path}[{i}]")


class SMatch:
    """Match object of a known pattern; groups are canonicalised to their
    1-based index (named groups through the pattern's group index)."""

    def __init__(self, pattern, subject_path, how, tag=None):
        self.pattern = pattern      # RegexConst | str | None
        self.subject = subject_path
        self.how = how
        self.tag = tag or f"M[{subject_path}]"
        self.path = f"{self.tag}:{how}"

    def pattern_text(self):
        return self.pattern.pattern if isinstance(self.pattern, RegexConst) else self.pattern

    def group_name(self, g):
        """canonical group label: the name when the group is named, else the index"""
        pat = self.pattern_text()
        if pat is None:
            return g
        import re
        gi = re.compile(pat).groupindex
        if isinstance(g, str):
            if g not in gi:
                raise AnalysisError(f"symeval: no group {g!r} in pattern")
            return g
        for name, i in gi.items():
            if i == g:
                return name
        return g

    overrides = None        # {group name: value} chosen by a rule (e.g. a group of n symbolic digits)

    def group(self, g):
        if self.overrides and self.group_name(g) in self.overrides:
            return self.overrides[self.group_name(g)]
        s = SStr(f"{self.tag}.g<{self.group_name(g)}>")
        s.group_of = (self, self.group_name(g))
        return s


class SGroups(SList):
    def __init__(self, match):
        SList.__init__(self, f"{match.tag}.groups()")
        self.match = match

    def get(self, i):
        if i in self.items:
            return self.items[i]
        return self.match.group(i + 1)


class SObj:
    def __init__(self, kind, attrs=None, path=None, cls=None):
        self.kind = kind
        self.attrs = attrs or {}
        self.path = path or kind
        self.cls = cls          # ClassInfo of an in-package instance

    def __repr__(self):
        return f"<SObj {self.kind} {sorted(self.attrs)}>"


class SNone:
    pass


NONE = SNone()


class Raised:
    def __init__(self, exc):
        self.exc = exc

    def __repr__(self):
        return f"<raise {self.exc}>"


class Outcome:
    def __init__(self, conds, value, kind="return", env=None):
        self.conds = tuple(conds)
        self.value = value
        self.kind = kind  # return | raise
        self.env = env

    def cond_text(self):
        return " and ".join((c if b else f"not ({c})") for c, b in self.conds) or "always"


class _Path:
    def __init__(self, env, conds):
        self.env = env
        self.conds = conds

    def fork(self):
        memo = {}
        return _Path({k: _copy_val(v, memo) for k, v in self.env.items()}, list(self.conds))


class _Ret(Exception):
    pass


def _copy_val(v, memo):
    """Mutable symbolic containers must not be shared between forked paths."""
    i = id(v)
    if i in memo:
        return memo[i]
    if isinstance(v, SGroups):
        c = SGroups(v.match)
        memo[i] = c
        c.items = {k: _copy_val(x, memo) for k, x in v.items.items()}
        return c
    if isinstance(v, SList):
        c = SList(v.path, None)
        memo[i] = c
        c.items = {k: _copy_val(x, memo) for k, x in v.items.items()}
        return c
    if isinstance(v, SObj):
        c = SObj(v.kind, None, v.path, v.cls)
        memo[i] = c
        c.attrs = {k: _copy_val(x, memo) for k, x in v.attrs.items()}
        return c
    if isinstance(v, dict):
        c = {}
        memo[i] = c
        for k, x in v.items():
            c[k] = _copy_val(x, memo)
        return c
    if isinstance(v, list):
        c = []
        memo[i] = c
        c.extend(_copy_val(x, memo) for x in v)
        return c
    return v


# ---------------------------------------------------------------------------
class SymEvaluator:
    def __init__(self, index, folder, assume=None, atom_kinds=None):
        self.index = index
        self.folder = folder
        self.assume = assume or {}    # canonical cond text -> bool (prune)
        self.stubs = {}               # function key -> callable(args, kw) -> value
        self._sink = []
        self.cond_objs = {}           # condition text -> tested value (Cmp / Poly / ...)
        self.depth = 0
        self.notes = []

    # -- entry ------------------------------------------------------------
    def run(self, fn, args=None, self_obj=None, use_defaults=False):
        """Evaluate function `fn`; args: dict param -> value (missing params
        become symbolic `$name`).  Returns list[Outcome]."""
        env = {}
        params = list(fn.params)
        if fn.kind in ("method", "property") and params:
            env[params[0]] = self_obj or SObj("self", path="self")
            params = params[1:]
        elif fn.kind == "classmethod" and params:
            env[params[0]] = SObj("cls", path="cls")
            params = params[1:]
        a = fn.node.args
        pos = a.posonlyargs + a.args
        defaults = dict(zip([p.arg for p in pos[len(pos) - len(a.defaults):]], a.defaults))
        for k, d in zip(a.kwonlyargs, a.kw_defaults):
            params.append(k.arg)
            if d is not None:
                defaults[k.arg] = d
        args = dict(args or {})
        for p in params:
            if p in args:
                env[p] = args[p]
            elif use_defaults and p in defaults:
                try:
                    env[p] = self._lift(self.folder.eval_in(fn.module, defaults[p]))
                except AnalysisError:
                    env[p] = Param(p, defaults.get(p))
            else:
                env[p] = Param(p, defaults.get(p))
        self.fn = fn
        outcomes = []
        self._sink = outcomes
        paths = [_Path(env, [])]
        self._block(fn.node.body, paths, outcomes, fn)
        for p in paths:
            outcomes.append(Outcome(p.conds, NONE, env=p.env))
        return outcomes

    def _locals_of(self, fn):
        cache = self.__dict__.setdefault("_locals_cache", {})
        if fn.key not in cache:
            names = set()
            for n in ast.walk(fn.node):
                if isinstance(n, ast.Name) and isinstance(n.ctx, ast.Store):
                    names.add(n.id)
            cache[fn.key] = names
        return cache[fn.key]

    # -- statements -------------------------------------------------------
    def _block(self, body, paths, outcomes, fn):
        """Execute statements on every live path (in place: `paths` is replaced
        by the surviving paths)."""
        for st in body:
            if not paths:
                return
            new_paths = []
            for p in paths:
                try:
                    new_paths.extend(self._stmt(st, p, outcomes, fn))
                except _PropagateRaise as pr:
                    outcomes.append(Outcome(pr.path.conds, pr.raised, "raise"))
            if len(new_paths) > MAX_PATHS:
                raise AnalysisError(f"symeval: more than {MAX_PATHS} paths in {fn.key}")
            paths[:] = new_paths

    def _stmt(self, st, p, outcomes, fn):
        if isinstance(st, ast.Expr):
            if isinstance(st.value, ast.Constant):
                return [p]
            res = []
            for pp, _v in self._eval(st.value, p, fn):
                res.append(pp)
            return res
        if isinstance(st, ast.Assign):
            res = []
            for pp, v in self._eval(st.value, p, fn):
                for t in st.targets:
                    self._assign(t, v, pp, fn)
                res.append(pp)
            return res
        if isinstance(st, ast.AnnAssign):
            if st.value is None:
                return [p]
            res = []
            for pp, v in self._eval(st.value, p, fn):
                self._assign(st.target, v, pp, fn)
                res.append(pp)
            return res
        if isinstance(st, ast.AugAssign):
            res = []
            load = _as_load(st.target)
            for pp, cur in self._eval(load, p, fn):
                for pp2, v in self._eval(st.value, pp, fn):
                    self._assign(st.target, self._binop(st.op, cur, v, st), pp2, fn)
                    res.append(pp2)
            return res
        if isinstance(st, ast.Return):
            if st.value is None:
                outcomes.append(Outcome(p.conds, NONE, env=p.env))
                return []
            for pp, v in self._eval(st.value, p, fn):
                outcomes.append(Outcome(pp.conds, v, env=pp.env))
            return []
        if isinstance(st, ast.Raise):
            name = "?"
            if st.exc is not None:
                name = call_name(st.exc) if isinstance(st.exc, ast.Call) else src(st.exc)
            outcomes.append(Outcome(p.conds, Raised(name), "raise"))
            return []
        if isinstance(st, ast.If):
            res = []
            for pp, truth in self._test(st.test, p, fn):
                branch = st.body if truth else st.orelse
                sub = [pp]
                self._block(branch, sub, outcomes, fn)
                res.extend(sub)
            return res
        if isinstance(st, ast.Pass):
            return [p]
        if isinstance(st, ast.Assert):
            return [p]
        if isinstance(st, ast.For):
            res = []
            for pp, seq in self._eval(st.iter, p, fn):
                if not isinstance(seq, (list, tuple)):
                    raise AnalysisError(f"symeval: loop over a symbolic sequence in {fn.key}: {src(st.iter)[:60]}")
                cur = [pp]
                for item in seq:
                    nxt = []
                    for q in cur:
                        self._assign(st.target, item, q, fn)
                        sub = [q]
                        self._block(st.body, sub, outcomes, fn)
                        nxt.extend(sub)
                    cur = nxt
                res.extend(cur)
            return res
        if isinstance(st, ast.Try):
            # only the no-exception flow of the protected body is modelled
            sub = [p]
            self._block(st.body, sub, outcomes, fn)
            if st.orelse:
                self._block(st.orelse, sub, outcomes, fn)
            if st.finalbody:
                self._block(st.finalbody, sub, outcomes, fn)
            return sub
        raise AnalysisError(f"symeval: unsupported statement {type(st).__name__} in {fn.key}: {src(st)[:80]}")

    def _assign(self, t, v, p, fn):
        if isinstance(t, ast.Name):
            p.env[t.id] = v
        elif isinstance(t, (ast.Tuple, ast.List)):
            n = len(t.elts)
            if isinstance(v, tuple):
                if len(v) != n:
                    raise AnalysisError("symeval: unpack arity")
                for tt, vv in zip(t.elts, v):
                    self._assign(tt, vv, p, fn)
            elif isinstance(v, SList):
                for i, tt in enumerate(t.elts):
                    self._assign(tt, v.get(i), p, fn)
            elif isinstance(v, (Param, SAttr)):
                for i, tt in enumerate(t.elts):
                    self._assign(tt, SAttr(v, f"[{i}]", sub=True), p, fn)
            else:
                raise AnalysisError(f"symeval: cannot unpack {type(v).__name__}")
        elif isinstance(t, ast.Subscript):
            base = self._eval1(t.value, p, fn)
            idx = self._eval1(t.slice, p, fn)
            if isinstance(base, SList) and isinstance(idx, Poly) and idx.is_const():
                base.items[int(idx.const_value())] = v
            elif isinstance(base, dict):
                base[_key(idx)] = v
            else:
                raise AnalysisError("symeval: unsupported subscript store")
        elif isinstance(t, ast.Attribute):
            base = self._eval1(t.value, p, fn)
            if isinstance(base, SObj):
                base.attrs[t.attr] = v
            else:
                raise AnalysisError("symeval: unsupported attribute store")
        else:
            raise AnalysisError("symeval: unsupported assignment target")

    # -- tests ------------------------------------------------------------
    def _test(self, test, p, fn):
        """Fork on a condition: returns [(path, truth)]; undecided conditions
        are appended to the path condition of each fork."""
        if isinstance(test, ast.BoolOp):
            is_and = isinstance(test.op, ast.And)

            def rec(vals, path):
                if not vals:
                    return [(path, is_and)]
                res = []
                for pp, truth in self._test(vals[0], path, fn):
                    if truth == is_and:
                        res.extend(rec(vals[1:], pp))
                    else:
                        res.append((pp, truth))
                return res
            return rec(test.values, p)
        if isinstance(test, ast.UnaryOp) and isinstance(test.op, ast.Not):
            return [(pp, not truth) for pp, truth in self._test(test.operand, p, fn)]
        out = []
        for pp, v in self._eval(test, p, fn):
            d = self._truth(v)
            if d is not None:
                out.append((pp, d))
                continue
            ctext = self._canon(test, pp, fn, v)
            self.cond_objs[ctext] = v
            if ctext in self.assume:
                out.append((pp, self.assume[ctext]))
                continue
            prior = [b for c, b in pp.conds if c == ctext]
            if prior:
                out.append((pp, prior[-1]))
                continue
            p2 = pp.fork()
            pp.conds.append((ctext, True))
            p2.conds.append((ctext, False))
            out.append((pp, True))
            out.append((p2, False))
        return out

    def _truth(self, v):
        if isinstance(v, bool):
            return v
        if isinstance(v, Poly) and v.is_const():
            return v.const_value() != 0
        if isinstance(v, SNone):
            return False
        if isinstance(v, SDigits):
            return bool(v.chars)
        if isinstance(v, SStr) and v.known is not None:
            return bool(v.known)
        if isinstance(v, str):
            return bool(v)
        if isinstance(v, SObj) and v.cls is not None:
            return True
        if isinstance(v, (list, tuple, dict)):
            return bool(v)
        if isinstance(v, EnumMember):
            return True
        return None

    def _canon(self, test, p, fn, v=None):
        if isinstance(v, Cmp):
            return v.text
        if isinstance(v, SStr):
            return f"truthy({v.path})"
        if isinstance(v, SMatch):
            return f"matched({v.path})"
        if isinstance(v, Param):
            return f"truthy(${v.name})"
        if isinstance(v, Poly):
            return f"nonzero({v.show()})"
        return src(test)

    # -- expressions ------------------------------------------------------
    def _eval1(self, x, p, fn):
        r = self._eval(x, p, fn)
        if len(r) != 1:
            raise AnalysisError(f"symeval: expression forks where a single value is needed: {src(x)[:60]}")
        return r[0][1]

    def _eval(self, x, p, fn):
        """returns list of (path, value)"""
        if isinstance(x, ast.Constant):
            return [(p, self._const(x))]
        if isinstance(x, ast.Name):
            if x.id in p.env:
                return [(p, p.env[x.id])]
            if x.id in self._locals_of(fn):
                self._sink.append(Outcome(p.conds, Raised("UnboundLocalError"), "raise"))
                return []
            return [(p, self._global(x.id, fn))]
        if isinstance(x, ast.BinOp):
            res = []
            for p1, l in self._eval(x.left, p, fn):
                for p2, r in self._eval(x.right, p1, fn):
                    res.append((p2, self._binop(x.op, l, r, x)))
            return res
        if isinstance(x, ast.UnaryOp):
            res = []
            for p1, v in self._eval(x.operand, p, fn):
                if isinstance(x.op, ast.USub):
                    res.append((p1, _num(v).mul(Poly.const(-1))))
                elif isinstance(x.op, ast.UAdd):
                    res.append((p1, v))
                elif isinstance(x.op, ast.Not):
                    t = self._truth(v)
                    res.append((p1, (not t) if t is not None else Cmp(f"not ({_show(v)})")))
                else:
                    raise AnalysisError("symeval: unsupported unary op")
            return res
        if isinstance(x, ast.IfExp):
            res = []
            for pp, truth in self._test(x.test, p, fn):
                res.extend(self._eval(x.body if truth else x.orelse, pp, fn))
            return res
        if isinstance(x, ast.BoolOp):
            # value-returning and/or: fork on truthiness of the left operands
            def rec(vals, path):
                if len(vals) == 1:
                    return self._eval(vals[0], path, fn)
                res = []
                for p1, v in self._eval(vals[0], path, fn):
                    t = self._truth(v)
                    is_and = isinstance(x.op, ast.And)
                    if t is None:
                        ctext = self._canon(vals[0], p1, fn, v)
                        self.cond_objs[ctext] = v
                        if ctext in self.assume:
                            t = self.assume[ctext]
                        else:
                            prior = [b for c, b in p1.conds if c == ctext]
                            if prior:
                                t = prior[-1]
                    if t is None:
                        p_true, p_false = p1, p1.fork()
                        p_true.conds.append((ctext, True))
                        p_false.conds.append((ctext, False))
                        if is_and:
                            res.extend(rec(vals[1:], p_true))
                            res.append((p_false, v))
                        else:
                            res.append((p_true, v))
                            res.extend(rec(vals[1:], p_false))
                    elif t == is_and:
                        res.extend(rec(vals[1:], p1))
                    else:
                        res.append((p1, v))
                return res
            return rec(x.values, p)
        if isinstance(x, ast.Compare):
            res = []
            if len(x.ops) == 1:
                for p1, l in self._eval(x.left, p, fn):
                    for p2, r in self._eval(x.comparators[0], p1, fn):
                        res.append((p2, self._compare(x.ops[0], l, r)))
                return res
            # chained: a < b < c
            for p1, first in self._eval(x.left, p, fn):
                vals = [first]
                pp = p1
                for c in x.comparators:
                    (pp, v), = self._eval(c, pp, fn)
                    vals.append(v)
                parts = [self._compare(op, a, b) for op, a, b in zip(x.ops, vals, vals[1:])]
                if all(isinstance(q, bool) for q in parts):
                    res.append((pp, all(parts)))
                else:
                    res.append((pp, Cmp(" and ".join(q.text if isinstance(q, Cmp) else str(q) for q in parts))))
            return res
        if isinstance(x, ast.Subscript):
            res = []
            for p1, base in self._eval(x.value, p, fn):
                if isinstance(x.slice, ast.Slice):
                    lo = self._eval1(x.slice.lower, p1, fn) if x.slice.lower else None
                    hi = self._eval1(x.slice.upper, p1, fn) if x.slice.upper else None
                    res.append((p1, self._slice(base, lo, hi)))
                else:
                    for p2, idx in self._eval(x.slice, p1, fn):
                        if isinstance(base, dict) and isinstance(idx, SStr) and idx.known is None and base \
                                and all(isinstance(k, str) for k in base):
                            res.extend(self._dict_fork(base, idx, p2, None))
                        else:
                            res.append((p2, self._index(base, idx, x)))
            return res
        if isinstance(x, ast.Attribute):
            res = []
            for p1, base in self._eval(x.value, p, fn):
                res.append((p1, self._attr(base, x.attr, x, fn)))
            return res
        if isinstance(x, ast.Call):
            return self._call(x, p, fn)
        if isinstance(x, ast.Tuple):
            res = [(p, [])]
            for e in x.elts:
                nxt = []
                for pp, acc in res:
                    for p2, v in self._eval(e, pp, fn):
                        nxt.append((p2, acc + [v]))
                res = nxt
            return [(pp, tuple(acc)) for pp, acc in res]
        if isinstance(x, ast.List):
            res = [(p, [])]
            for e in x.elts:
                nxt = []
                for pp, acc in res:
                    for p2, v in self._eval(e, pp, fn):
                        nxt.append((p2, acc + [v]))
                res = nxt
            return [(pp, list(acc)) for pp, acc in res]
        if isinstance(x, ast.Dict):
            d = {}
            for k, v in zip(x.keys, x.values):
                d[_key(self._eval1(k, p, fn))] = self._eval1(v, p, fn)
            return [(p, d)]
        if isinstance(x, ast.JoinedStr):
            res = [(p, [])]
            for v in x.values:
                nxt = []
                for pp, acc in res:
                    if isinstance(v, ast.Constant):
                        nxt.append((pp, acc + [SStr(repr(v.value), known=v.value)]))
                    else:
                        spec = None
                        if v.format_spec is not None:
                            spec = "".join(c.value for c in v.format_spec.values if isinstance(c, ast.Constant))
                        for p2, val in self._eval(v.value, pp, fn):
                            nxt.append((p2, acc + [Fmt(val, spec)]))
                res = nxt
            return [(pp, SStr("fstring", parts=acc)) for pp, acc in res]
        raise AnalysisError(f"symeval: unsupported expression {type(x).__name__}: {src(x)[:80]}")

    def _const(self, x):
        v = x.value
        if isinstance(v, bool) or v is None:
            return NONE if v is None else v
        if isinstance(v, int):
            return Poly.const(v)
        if isinstance(v, float):
            # exact decimal reading of the literal's source text
            return Poly.const(Fraction(repr(v)), isfloat=True)
        if isinstance(v, str):
            return SStr(repr(v), known=v)
        raise AnalysisError("symeval: unsupported constant")

    def _global(self, name, fn):
        b = self.index.resolve(fn.module, name)
        if b is None:
            if name in ("int", "float", "str", "len", "round", "divmod", "abs", "min", "max", "bool",
                        "isinstance", "Fraction", "getattr", "setattr", "any", "all", "hasattr"):
                return Builtin(name)
            if name == "True":
                return True
            if name == "False":
                return False
            raise AnalysisError(f"symeval: unbound name {name} in {fn.key}")
        if b.kind == "const":
            v = self.folder.value(b.module, b.name)
            return self._lift(v)
        if b.kind == "func":
            return FuncVal(b.target)
        if b.kind == "class":
            v = self.folder.try_value(b.module, b.name)
            if isinstance(v, EnumClass):
                return v
            return ClassVal(b.target)
        if b.kind == "external":
            return External(b.target)
        if b.kind == "module":
            return ModuleVal(b.target)
        raise AnalysisError(f"symeval: unsupported binding kind {b.kind} for {name}")

    def _lift(self, v):
        if isinstance(v, bool):
            return v
        if isinstance(v, int):
            return Poly.const(v)
        if isinstance(v, float):
            return Poly.const(Fraction(repr(v)), isfloat=True)
        if isinstance(v, str):
            return SStr(repr(v), known=v)
        if isinstance(v, dict):
            return {k: self._lift(x) for k, x in v.items()}
        if isinstance(v, (list, tuple)):
            return type(v)(self._lift(x) for x in v)
        if v is None:
            return NONE
        return v

    def _binop(self, op, l, r, node):
        if isinstance(l, SObj) and l.cls is not None:
            name = {ast.Add: "__add__", ast.Sub: "__sub__", ast.Mult: "__mul__"}.get(type(op))
            m = l.cls.find_method(name) if name else None
            if m is None:
                raise AnalysisError(f"symeval: operator on {l.kind} without {name}")
            res = self._apply(BoundMethod(m, l), [r], {}, _Path({}, []), node, m)
            vals = [v for _, v in res]
            if len(vals) != 1:
                raise AnalysisError(f"symeval: {name} forks")
            self._pending_conds = res[0][0].conds
            return vals[0]
        if isinstance(op, ast.Add) and (isinstance(l, SStr) or isinstance(r, SStr)):
            if isinstance(l, SStr) and isinstance(r, SStr):
                known = l.known + r.known if l.known is not None and r.known is not None else None
                return SStr(f"({l.path} + {r.path})", known=known, parts=[l, r])
            if isinstance(l, SStr) and isinstance(r, Fmt) or isinstance(r, SStr) and isinstance(l, Fmt):
                return SStr("concat", parts=[l, r])
            raise AnalysisError("symeval: str + non-str")
        a, b = _num(l), _num(r)
        if isinstance(op, ast.Add):
            return a.add(b)
        if isinstance(op, ast.Sub):
            return a.add(b, -1)
        if isinstance(op, ast.Mult):
            return a.mul(b)
        if isinstance(op, ast.Div):
            return a.div(b)
        if isinstance(op, ast.Pow):
            if a.is_const() and b.is_const() and b.const_value().denominator == 1:
                e_ = int(b.const_value())
                # int ** negative int is a float in Python
                return Poly.const(a.const_value() ** e_, a.isfloat or b.isfloat or e_ < 0)
            raise AnalysisError("symeval: symbolic power")
        if isinstance(op, ast.FloorDiv):
            if b.is_const() and a.is_const():
                return Poly.const(a.const_value() // b.const_value(), a.isfloat or b.isfloat)
            q = a.div(b, exact=True)
            return _floor(q, keep_float=(a.isfloat or b.isfloat))
        if isinstance(op, ast.Mod):
            if b.is_const() and a.is_const():
                return Poly.const(a.const_value() % b.const_value(), a.isfloat or b.isfloat)
            q = _floor(a.div(b, exact=True))
            return a.add(q.mul(b), -1)
        raise AnalysisError(f"symeval: unsupported operator {type(op).__name__}")

    def _compare(self, op, l, r):
        names = {ast.Eq: "==", ast.NotEq: "!=", ast.Lt: "<", ast.LtE: "<=", ast.Gt: ">", ast.GtE: ">=",
                 ast.In: "in", ast.NotIn: "not in", ast.Is: "is", ast.IsNot: "is not"}
        o = names[type(op)]
        # decide when both constant
        lv, rv = _concrete(l), _concrete(r)
        if lv is not _NO and rv is not _NO:
            try:
                if o == "==":
                    return lv == rv
                if o == "!=":
                    return lv != rv
                if o == "<":
                    return lv < rv
                if o == "<=":
                    return lv <= rv
                if o == ">":
                    return lv > rv
                if o == ">=":
                    return lv >= rv
                if o == "in":
                    return lv in rv
                if o == "not in":
                    return lv not in rv
                if o == "is":
                    return lv is rv or lv == rv
                if o == "is not":
                    return not (lv is rv or lv == rv)
            except TypeError:
                pass
        if o in ("is", "is not") and isinstance(r, SNone):
            if isinstance(l, (Poly, SStr, SList, SMatch, tuple, dict, SObj)) and not isinstance(l, Param):
                return o == "is not"
        return Cmp(f"{_show(l)} {o} {_show(r)}", o, l, r)

    def _slice(self, base, lo, hi):
        def c(v):
            if v is None:
                return None
            if isinstance(v, Poly) and v.is_const():
                return int(v.const_value())
            raise AnalysisError("symeval: symbolic slice bound")
        lo, hi = c(lo), c(hi)
        if isinstance(base, SDigits):
            return SDigits(f"{base.path}[{'' if lo is None else lo}:{'' if hi is None else hi}]", base.chars[lo:hi])
        if isinstance(base, SStr):
            if base.known is not None:
                return SStr(repr(base.known[lo:hi]), known=base.known[lo:hi])
            return SStr(f"{base.path}[{'' if lo is None else lo}:{'' if hi is None else hi}]")
        if isinstance(base, (list, tuple)):
            return base[lo:hi]
        raise AnalysisError("symeval: slice of unsupported value")

    def _dict_fork(self, table, key, p, default=None):
        """table[key] / table.get(key) for a constant table and a symbolic string key: one
        outcome per key under the condition `key == k`, and the miss outcome (default, or
        KeyError when default is None-the-Python-object)."""
        out = []
        miss = p.fork()
        for k, v in table.items():
            text = f"{key.path} == {k!r}"
            self.cond_objs[text] = Cmp(text, "==", key, SStr(repr(k), known=k))
            prior = [b for c, b in p.conds if c == text]
            if prior and not prior[-1]:
                continue
            pp = p.fork()
            if not prior:
                pp.conds.append((text, True))
            out.append((pp, v))
            if prior:           # already known equal: no other outcome
                return out
            miss.conds.append((text, False))
        if default is not None:
            out.append((miss, default))
        else:
            self._sink.append(Outcome(miss.conds, Raised("KeyError"), "raise"))
        return out

    def _index(self, base, idx, node):
        if isinstance(base, dict):
            k = _key(idx)
            if k not in base:
                raise AnalysisError(f"symeval: key {k!r} not in constant dict")
            return base[k]
        if isinstance(idx, Poly) and idx.is_const():
            i = int(idx.const_value())
            if isinstance(base, SList):
                return base.get(i)
            if isinstance(base, (list, tuple)):
                return base[i]
            if isinstance(base, SStr):
                if base.known is not None:
                    return SStr(repr(base.known[i]), known=base.known[i])
                return SStr(f"{base.path}[{i}]")
        if isinstance(base, (Param, SAttr)):
            return SStr(f"{_show(base)}[{_show(idx)}]")
        raise AnalysisError(f"symeval: unsupported subscript {src(node)[:60]}")

    def _attr(self, base, attr, node, fn):
        if isinstance(base, SObj):
            if attr in base.attrs:
                return base.attrs[attr]
            if base.cls is not None:
                m = base.cls.find_method(attr)
                if m is not None:
                    if m.kind == "property":
                        raise AnalysisError(f"symeval: property {attr} not modelled")
                    return BoundMethod(m, base)
                c, v = base.cls.find_class_attr(attr)
                if c is not None:
                    return self._lift(self.folder.eval_in(c.module, v))
                return SAttr(base, attr)
            if base.kind == "timedelta":
                raise AnalysisError(f"symeval: timedelta.{attr} not modelled")
            if base.kind == "self" and fn.cls is not None:
                m = fn.cls.find_method(attr)
                if m is not None:
                    return BoundMethod(m, base)
                c, v = fn.cls.find_class_attr(attr)
                if c is not None:
                    return self._lift(self.folder.eval_in(c.module, v))
            return SAttr(base, attr)
        if isinstance(base, ModuleVal):
            b = self.index.resolve(base.mod, attr)
            if b is not None and b.kind == "const":
                return self._lift(self.folder.value(b.module, b.name))
            if b is not None and b.kind == "func":
                return FuncVal(b.target)
            if b is not None and b.kind == "class":
                return ClassVal(b.target)
        if isinstance(base, External):
            return External(f"{base.name}.{attr}")
        if isinstance(base, ClassVal):
            m = base.cls.find_method(attr)
            if m is not None:
                return FuncVal(m)
            c, v = base.cls.find_class_attr(attr)
            if c is not None:
                return self._lift(self.folder.eval_in(c.module, v))
        if isinstance(base, EnumClass):
            m = base.by_name(attr)
            if m is not None:
                return m
        if isinstance(base, EnumMember) and attr == "value":
            return self._lift(base.value)
        if isinstance(base, (Param, SAttr)):
            return SAttr(base, attr)
        if isinstance(base, (SStr, SList, SMatch, dict, list, RegexConst)):
            return MethodRef(base, attr)
        raise AnalysisError(f"symeval: attribute {attr} of {type(base).__name__}")

    # -- calls ------------------------------------------------------------
    def _call(self, x, p, fn):
        res = []
        for p0, f in self._eval(x.func, p, fn):
            argsets = [(p0, [], {})]
            for a in x.args:
                nxt = []
                for pp, av, kv in argsets:
                    for p2, v in self._eval(a, pp, fn):
                        nxt.append((p2, av + [v], kv))
                argsets = nxt
            for k in x.keywords:
                nxt = []
                for pp, av, kv in argsets:
                    for p2, v in self._eval(k.value, pp, fn):
                        kv2 = dict(kv)
                        if k.arg is None:
                            if not isinstance(v, dict):
                                raise AnalysisError("symeval: ** of a non-dict")
                            kv2.update(v)
                        else:
                            kv2[k.arg] = v
                        nxt.append((p2, av, kv2))
                argsets = nxt
            for pp, av, kv in argsets:
                res.extend(self._apply(f, av, kv, pp, x, fn))
        return res

    def _apply(self, f, args, kw, p, node, fn):
        if isinstance(f, Builtin):
            return [(p, self._builtin(f.name, args, kw, node))]
        if isinstance(f, External):
            return [(p, self._external(f.name, args, kw, node))]
        if isinstance(f, MethodRef):
            if isinstance(f.base, dict) and f.attr == "get" and args and isinstance(args[0], SStr) \
                    and args[0].known is None and f.base and all(isinstance(k, str) for k in f.base):
                default = args[1] if len(args) > 1 else NONE
                return self._dict_fork(f.base, args[0], p, default)
            return [(p, self._method(f.base, f.attr, args, kw, node))]
        if isinstance(f, SAttr):
            return [(p, self._method(f.base, f.attr, args, kw, node))]
        if isinstance(f, (FuncVal, BoundMethod)):
            target = f.fn
            if target.key in self.stubs:
                a2 = args if isinstance(f, BoundMethod) or target.kind not in ("method",) else args[1:]
                return [(p, self.stubs[target.key](a2, kw))]
            if self.depth > 6:
                raise AnalysisError("symeval: call depth")
            sub = SymEvaluator(self.index, self.folder, self.assume)
            sub.stubs = self.stubs
            sub.cond_objs = self.cond_objs
            sub.depth = self.depth + 1
            params = list(target.params)
            argmap = {}
            if target.kind in ("method", "property"):
                selfobj = f.selfobj if isinstance(f, BoundMethod) else (args[0] if args else None)
                if not isinstance(f, BoundMethod):
                    args = args[1:]
                params = params[1:]
            else:
                selfobj = None
                if target.kind == "classmethod":
                    params = params[1:]
            for i, a in enumerate(args):
                if i < len(params):
                    argmap[params[i]] = a
            for k, v in kw.items():
                argmap[k] = v
            outs = sub.run(target, argmap, self_obj=selfobj, use_defaults=True)
            res = []
            for o in outs:
                pp = p.fork()
                pp.conds.extend(o.conds)
                if o.kind == "raise":
                    self._sink.append(Outcome(pp.conds, o.value, "raise"))
                    continue
                res.append((pp, o.value))
            return res
        if isinstance(f, ClassVal):
            init = f.cls.find_method("__init__")
            obj = SObj(f"inst:{f.cls.name}", {}, f"<{f.cls.name}>", cls=f.cls)
            if init is None or self.depth > 6:
                obj.attrs["_args"] = args
                obj.attrs["_kw"] = kw
                return [(p, obj)]
            sub = SymEvaluator(self.index, self.folder, self.assume)
            sub.stubs = self.stubs
            sub.cond_objs = self.cond_objs
            sub.depth = self.depth + 1
            params = init.params[1:]
            argmap = {}
            for i, a in enumerate(args):
                if i < len(params):
                    argmap[params[i]] = a
            argmap.update(kw)
            res = []
            for o in sub.run(init, argmap, self_obj=obj, use_defaults=True):
                pp = p.fork()
                pp.conds.extend(o.conds)
                if o.kind == "raise":
                    self._sink.append(Outcome(pp.conds, o.value, "raise"))
                    continue
                res.append((pp, o.env[init.params[0]] if o.env else obj))
            return res
        raise AnalysisError(f"symeval: call of {type(f).__name__}: {src(node)[:60]}")

    def _builtin(self, name, args, kw, node):
        if name == "int":
            v = args[0]
            if isinstance(v, SDigits):
                return v.value()
            if isinstance(v, SStr):
                if v.known is not None:
                    return Poly.const(int(v.known))
                return Poly.atom(f"int({v.path})")
            if isinstance(v, Param):
                return Poly.atom(f"int(${v.name})")
            pv = _num(v)
            if not pv.isfloat and not pv.rational and not _has_negative_exp(pv):
                return pv
            return _floor(pv)
        if name == "float":
            v = args[0]
            if isinstance(v, SStr):
                if v.known is not None:
                    return Poly.const(Fraction(v.known), isfloat=True)
                return Poly.atom(f"float({v.path})", isfloat=True, rounds=1)
            if isinstance(v, Param):
                return Poly.atom(f"float(${v.name})", isfloat=True, rounds=1)
            pv = _num(v)
            return Poly(pv.terms, pv.rounds, True)
        if name == "Fraction":
            v = args[0]
            if isinstance(v, SStr):
                q = Poly.atom(f"Fraction({v.path})")
                q.rational = True
                return q
            q = _num(v)
            return Poly(q.terms, q.rounds, q.isfloat, rational=not q.isfloat)
        if name == "str":
            return Fmt(args[0], None)
        if name == "round":
            pv = _num(args[0])
            nd = args[1] if len(args) > 1 else None
            q = Poly.atom(f"round[{pv.show()}" + (f", {_show(nd)}]" if nd is not None else "]"), pv.isfloat)
            q.rounds = pv.rounds
            return q
        if name == "divmod":
            a, b = _num(args[0]), _num(args[1])
            q = _floor(a.div(b, exact=True))
            return (q, a.add(q.mul(b), -1))
        if name == "abs":
            pv = _num(args[0])
            return Poly.atom(f"abs[{pv.show()}]", pv.isfloat, pv.rounds)
        if name == "len":
            if isinstance(args[0], SDigits):
                return Poly.const(len(args[0].chars))
            if isinstance(args[0], SStr) and args[0].known is not None:
                return Poly.const(len(args[0].known))
            return Poly.atom(f"len({_show(args[0])})")
        if name == "bool":
            return Cmp(f"truthy({_show(args[0])})")
        if name == "isinstance":
            a, c = args[0], args[1]
            if isinstance(c, EnumClass):
                if isinstance(a, EnumMember):
                    return a.cls is c
                if isinstance(a, (Poly, SStr, SObj, SNone)):
                    return False
            if isinstance(c, ClassVal):
                if isinstance(a, SObj) and a.cls is not None:
                    return c.cls in a.cls.mro()
                if isinstance(a, (Poly, SStr, SNone, EnumMember)):
                    return False
            return Cmp(f"isinstance({_show(a)}, {_show(c)})")
        if name == "getattr":
            obj, nm = args[0], args[1]
            if isinstance(nm, SStr) and nm.known is not None:
                if isinstance(obj, SObj):
                    if nm.known in obj.attrs:
                        return obj.attrs[nm.known]
                    if len(args) > 2:
                        return args[2]
                    return SAttr(obj, nm.known)
                if isinstance(obj, (Param, SAttr)):
                    return SAttr(obj, nm.known)
                if isinstance(obj, SNone) and len(args) > 2:
                    return args[2]
            raise AnalysisError("symeval: getattr with a symbolic name")
        if name == "setattr":
            obj, nm, val = args
            if isinstance(obj, SObj) and isinstance(nm, SStr) and nm.known is not None:
                obj.attrs[nm.known] = val
                return NONE
            raise AnalysisError("symeval: setattr with a symbolic name")
        if name == "any" or name == "all":
            seq = args[0]
            if isinstance(seq, (list, tuple)):
                ts = [self._truth(x) for x in seq]
                if all(t is not None for t in ts):
                    return any(ts) if name == "any" else all(ts)
            return Cmp(f"{name}({_show(seq)})")
        raise AnalysisError(f"symeval: builtin {name}")

    def _external(self, name, args, kw, node):
        if name in ("fractions.Fraction", "decimal.Decimal"):
            return self._builtin("Fraction", args, kw, node)
        if name in ("math.floor",):
            return _floor(_num(args[0]))
        if name in ("datetime.timedelta", "datetime.datetime.timedelta"):
            if set(kw) == {"microseconds"} and not args:
                us = _num(kw["microseconds"])
                # library facts: total = days*86400 s + seconds + microseconds/1e6, 0<=seconds<86400, 0<=us<1e6
                total_s = Poly.atom(f"floor[({us.show()})/1000000]")
                if us.isfloat:
                    total_s = Poly.atom(f"floor[round_us({us.show()})/1000000]")
                return SObj("timedelta", {
                    "microseconds_total": us,
                    "seconds": Poly.atom("td.seconds"),
                    "microseconds": Poly.atom("td.microseconds"),
                    "days": Poly.atom("td.days"),
                })
            units = {"days": 86400 * 10**6, "hours": 3600 * 10**6, "minutes": 60 * 10**6, "seconds": 10**6,
                     "milliseconds": 1000, "microseconds": 1, "weeks": 7 * 86400 * 10**6}
            if not args and kw and set(kw) <= set(units):
                total = Poly.const(0)
                for k_, v_ in kw.items():
                    total = total.add(_num(v_).mul(Poly.const(units[k_])))
                # library fact: total = days*86400e6 + seconds*1e6 + microseconds (normalised fields).  The
                # microseconds field is expressed through the other two, so that any expression that
                # recombines all three fields is the plain total again, and one that forgets `days`
                # keeps an explicit -86400e6*td.days term.
                sec, days = Poly.atom("td.seconds"), Poly.atom("td.days")
                micro = total.add(sec.mul(Poly.const(10**6)), -1).add(days.mul(Poly.const(86400 * 10**6)), -1)
                return SObj("timedelta", {"microseconds_total": total, "seconds": sec, "days": days, "microseconds": micro})
            raise AnalysisError("symeval: timedelta with unsupported arguments")
        if name == "re.match" or name == "re.search" or name == "re.fullmatch":
            pat = args[0]
            subj = args[1]
            return SMatch(pat.known if isinstance(pat, SStr) else None, _show(subj), name.split(".")[1])
        raise AnalysisError(f"symeval: external call {name}")

    def _method(self, base, attr, args, kw, node):
        if isinstance(base, list) and attr in ("append", "extend", "insert"):
            # local list being assembled (paths own their lists: deep-copied on fork)
            if attr == "append":
                base.append(args[0])
            elif attr == "extend":
                if not isinstance(args[0], (list, tuple)):
                    raise AnalysisError("symeval: extend with a symbolic sequence")
                base.extend(args[0])
            else:
                base.insert(int(_num(args[0]).const_value()), args[1])
            return NONE
        if isinstance(base, SStr) and base.known is not None and attr == "join" and args \
                and isinstance(args[0], (list, tuple)):
            parts = []
            for i, a in enumerate(args[0]):
                if i and base.known:
                    parts.append(SStr(repr(base.known), known=base.known))
                parts.append(a if isinstance(a, SStr) else Fmt(a, None))
            if all(isinstance(x, SStr) and x.known is not None for x in parts):
                k = "".join(x.known for x in parts)
                return SStr(repr(k), known=k)
            return SStr("fstring", parts=parts)
        if isinstance(base, (SStr, Param, SAttr)):
            path = base.path if isinstance(base, SStr) else _show(base)
            known = base.known if isinstance(base, SStr) else None
            if attr == "split":
                sep = args[0] if args else None
                sp = sep.known if isinstance(sep, SStr) else None
                if known is not None and sp is not None:
                    return [SStr(repr(s), known=s) for s in known.split(sp)]
                if isinstance(base, SStr) and base.parts and sp is not None:
                    # (X + 'c1') .split(sep) under "sep not in X": [X + before, after...]
                    lhs, rhs = base.parts[0], base.parts[-1]
                    if len(base.parts) == 2 and isinstance(rhs, SStr) and rhs.known is not None \
                            and rhs.known.count(sp) >= 1:
                        pieces = rhs.known.split(sp)
                        items = {0: lhs if pieces[0] == "" else SStr(f"({lhs.path} + {pieces[0]!r})")}
                        for i, piece in enumerate(pieces[1:], 1):
                            items[i] = SStr(repr(piece), known=piece)
                        return SList(f"{path}.split({sp!r})", items)
                return SList(f"{path}.split({sp!r})")
            if attr == "format" and known is not None:
                # str.format on a literal template == the equivalent f-string
                import string
                parts, auto = [], 0
                for lit_, field, spec, conv in string.Formatter().parse(known):
                    if lit_:
                        parts.append(SStr(repr(lit_), known=lit_))
                    if field is None:
                        continue
                    if conv:
                        raise AnalysisError("symeval: str.format conversion flags are not modelled")
                    if field == "":
                        val, auto = args[auto], auto + 1
                    elif field.isdigit():
                        val = args[int(field)]
                    elif field in kw:
                        val = kw[field]
                    else:
                        raise AnalysisError(f"symeval: str.format field {field!r} is not modelled")
                    parts.append(Fmt(val, spec or None))
                return SStr("fstring", parts=parts)
            if attr in ("strip", "lstrip", "rstrip", "lower", "upper"):
                if known is not None:
                    return SStr(repr(getattr(known, attr)(*[a.known for a in args])),
                                known=getattr(known, attr)(*[a.known for a in args]))
                return SStr(f"{path}.{attr}({', '.join(_show(a) for a in args)})")
            if isinstance(base, SDigits) and attr in ("ljust", "rjust", "zfill") and base.known is None \
                    and all(_concrete(a) is not _NO for a in args):
                width = int(_concrete(args[0]))
                fill = "0" if attr == "zfill" else (_concrete(args[1]) if len(args) > 1 else " ")
                pad = [("c", fill)] * max(0, width - len(base.chars))
                chars = base.chars + pad if attr == "ljust" else pad + base.chars
                return SDigits(f"{base.path}.{attr}({', '.join(_show(a) for a in args)})", chars)
            if attr in ("replace", "ljust", "rjust", "zfill", "center"):
                if known is not None and all(_concrete(a) is not _NO for a in args):
                    r = getattr(known, attr)(*[_concrete(a) for a in args])
                    return SStr(repr(r), known=r)
                return SStr(f"{path}.{attr}({', '.join(_show(a) for a in args)})")
            if attr in ("isdigit", "startswith", "endswith"):
                return Cmp(f"{path}.{attr}({', '.join(_show(a) for a in args)})")
        if isinstance(base, RegexConst):
            if attr in ("search", "match", "fullmatch"):
                return SMatch(base, _show(args[0]), attr)
        if isinstance(base, SMatch):
            if attr == "group":
                g = args[0] if args else Poly.const(0)
                gv = g.known if isinstance(g, SStr) else int(g.const_value())
                return base.group(gv)
            if attr == "groups":
                return SGroups(base)
        if isinstance(base, (Param, SAttr, SStr)) and attr == "group":
            g = args[0] if args else Poly.const(0)
            gv = g.known if isinstance(g, SStr) else int(g.const_value())
            return SStr(f"{_show(base)}.group({gv!r})")
        if isinstance(base, (Param, SAttr)) and attr == "groups":
            return SList(f"{_show(base)}.groups()")
        if isinstance(base, (Param, SAttr)) and attr == "get":
            return SStr(f"{_show(base)}.get({', '.join(_show(a) for a in args)})")
        if isinstance(base, dict) and attr == "get":
            k = _key(args[0])
            return base.get(k, args[1] if len(args) > 1 else NONE)
        raise AnalysisError(f"symeval: method {attr} on {type(base).__name__}: {src(node)[:60]}")


class _PropagateRaise(Exception):
    def __init__(self, path, raised):
        self.path = path
        self.raised = raised


# -- small value classes ------------------------------------------------------
class Param:
    def __init__(self, name, default=None):
        self.name = name
        self.default = default
        self.path = f"${name}"

    def default_is_none_const(self):
        return isinstance(self.default, ast.Constant) and self.default.value is None

    def __repr__(self):
        return f"<Param {self.name}>"


class SAttr:
    def __init__(self, base, attr, sub=False):
        self.base = base
        self.attr = attr
        self.path = f"{_show(base)}{attr}" if sub else f"{_show(base)}.{attr}"


class Cmp:
    def __init__(self, text, op=None, left=None, right=None):
        self.text = text
        self.op = op
        self.left = left
        self.right = right


class Fmt:
    def __init__(self, value, spec):
        self.value = value
        self.spec = spec


class Builtin:
    def __init__(self, name):
        self.name = name


class External:
    def __init__(self, name):
        self.name = name


class FuncVal:
    def __init__(self, fn):
        self.fn = fn


class BoundMethod:
    def __init__(self, fn, selfobj):
        self.fn = fn
        self.selfobj = selfobj


class ClassVal:
    def __init__(self, cls):
        self.cls = cls


class ModuleVal:
    def __init__(self, mod):
        self.mod = mod


class MethodRef:
    def __init__(self, base, attr):
        self.base = base
        self.attr = attr


_NO = object()


def _concrete(v):
    if isinstance(v, bool):
        return v
    if isinstance(v, EnumMember):
        return v
    if isinstance(v, Poly) and v.is_const():
        c = v.const_value()
        return int(c) if c.denominator == 1 and not v.isfloat else c
    if isinstance(v, SStr) and v.known is not None:
        return v.known
    if isinstance(v, SNone):
        return None
    if isinstance(v, (list, tuple)) and all(_concrete(x) is not _NO for x in v):
        return type(v)(_concrete(x) for x in v)
    return _NO


def _key(v):
    c = _concrete(v)
    if c is _NO:
        raise AnalysisError("symeval: symbolic dictionary key")
    return c


def _num(v):
    if isinstance(v, Poly):
        return v
    if isinstance(v, bool):
        return Poly.const(int(v))
    if isinstance(v, Param):
        return Poly.atom(f"${v.name}")
    if isinstance(v, SAttr):
        return Poly.atom(v.path)
    raise AnalysisError(f"symeval: {type(v).__name__} used as a number")


def _show(v):
    if isinstance(v, Poly):
        return v.show()
    if isinstance(v, (SStr, Param, SAttr)):
        return v.path
    if isinstance(v, SNone):
        return "None"
    if isinstance(v, SObj):
        return v.path
    if isinstance(v, Cmp):
        return v.text
    if isinstance(v, (list, tuple)):
        return "[" + ", ".join(_show(x) for x in v) + "]"
    if isinstance(v, SList):
        return v.path
    return repr(v)


def _has_negative_exp(p):
    return any(e < 0 for m in p.terms for _, e in m)


def _floor(p, keep_float=False):
    """floor of a polynomial value: identity on exact integer-valued forms."""
    if p.is_const():
        c = p.const_value()
        import math
        return Poly.const(math.floor(c))
    if not p.isfloat and not p.rational and not _has_negative_exp(p) \
            and all(c.denominator == 1 for c in p.terms.values()):
        return p
    q = Poly(dict(p.terms), p.rounds, keep_float, floored=True)
    # represent as an opaque atom so that further arithmetic stays polynomial
    a = Poly.atom(f"floor[{p.show()}]", keep_float, 0)
    a.floored = False
    a_inner[a_key(a)] = p
    return a


a_inner = {}


def a_key(poly_atom):
    return poly_atom.atoms()[0]


def inner_of(atom_key):
    """The polynomial under a floor[...] atom created by _floor."""
    return a_inner.get(atom_key)


def _as_load(t):
    import copy
    t = copy.deepcopy(t)
    for n in ast.walk(t):
        if hasattr(n, "ctx"):
            n.ctx = ast.Load()
    return t


# ---------------------------------------------------------------------------
# numeric evaluation of forms (finite-domain folds)
import math as _math


def eval_poly(poly, env):
    """Exact value of a form for concrete atom values (Fractions); floor[...]
    atoms are evaluated through their inner form."""
    total = Fraction(0)
    for m, c in poly.terms.items():
        v = Fraction(c)
        for a, e in m:
            v *= eval_atom(a, env) ** e
        total += v
    return total


def eval_atom(a, env):
    if a in env:
        return Fraction(env[a])
    if a.startswith("floor["):
        inner = inner_of(a)
        if inner is None:
            raise AnalysisError(f"symeval: no inner form for {a[:60]}")
        return Fraction(_math.floor(eval_poly(inner, env)))
    raise AnalysisError(f"symeval: no value for atom {a[:80]}")


def eval_cond(obj, env):
    """truth value of a recorded condition object"""
    if isinstance(obj, Poly):
        return eval_poly(obj, env) != 0
    if isinstance(obj, Cmp) and obj.op is not None and isinstance(obj.left, Poly) and isinstance(obj.right, Poly):
        l, r = eval_poly(obj.left, env), eval_poly(obj.right, env)
        return {"==": l == r, "!=": l != r, "<": l < r, "<=": l <= r, ">": l > r, ">=": l >= r}[obj.op]
    raise AnalysisError(f"symeval: condition not numerically evaluable: {_show(obj)[:80]}")
