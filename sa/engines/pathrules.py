"""E6 - path rules on structured control flow (no goto in Python: a
syntax-directed walk with a small state decides must-call / exactly-once /
ordering / dominance rules).

path_summaries(body, classify) enumerates the paths of a statement list as
tuples of event labels; each path ends in 'fallthrough', 'return', 'raise',
'break' or 'continue'.  Loops are summarised as zero or one iteration (events of
a loop body are wrapped in ('loop', ...)), which is exact for the exactly-once /
precedence obligations used here because every obligation is checked per
iteration or on loop-free code.
"""
import ast

from ..core.tree import AnalysisError
from ..core.astutil import walk_no_nested, call_name, src

MAX_PATHS = 4096


def events_of_expr(expr, classify):
    out = []
    if expr is None:
        return out
    for n in walk_no_nested(expr):
        lab = classify(n)
        if lab is not None:
            out.append(lab)
    return out


def paths_of_block(body, classify):
    """returns list of (events tuple, end) ; end in fallthrough|return|raise|break|continue"""
    paths = [((), "fallthrough")]
    for st in body:
        new = []
        for ev, end in paths:
            if end != "fallthrough":
                new.append((ev, end))
                continue
            for ev2, end2 in paths_of_stmt(st, classify):
                new.append((ev + ev2, end2))
        if len(new) > MAX_PATHS:
            raise AnalysisError("pathrules: too many paths")
        paths = new
    return paths


def _test_paths(test, classify):
    """events when the test is true / false, with short-circuit evaluation"""
    if isinstance(test, ast.BoolOp):
        is_and = isinstance(test.op, ast.And)
        # each operand evaluated only if the previous ones did not decide
        true_paths, false_paths = [], []
        prefix = [()]
        for i, v in enumerate(test.values):
            tp, fp = _test_paths(v, classify)
            last = i == len(test.values) - 1
            nxt = []
            for pre in prefix:
                if is_and:
                    for f in fp:
                        false_paths.append(pre + f)
                    for t in tp:
                        (true_paths if last else nxt).append(pre + t)
                else:
                    for t in tp:
                        true_paths.append(pre + t)
                    for f in fp:
                        (false_paths if last else nxt).append(pre + f)
            prefix = nxt
        return true_paths, false_paths
    if isinstance(test, ast.UnaryOp) and isinstance(test.op, ast.Not):
        tp, fp = _test_paths(test.operand, classify)
        return fp, tp
    ev = tuple(events_of_expr(test, classify))
    return [ev], [ev]


def paths_of_stmt(st, classify):
    if isinstance(st, ast.If):
        tp, fp = _test_paths(st.test, classify)
        out = []
        for t in tp:
            for ev, end in paths_of_block(st.body, classify):
                out.append((t + ev, end))
        for f in fp:
            for ev, end in paths_of_block(st.orelse, classify):
                out.append((f + ev, end))
        return out
    if isinstance(st, (ast.For, ast.While)):
        head = tuple(events_of_expr(st.iter if isinstance(st, ast.For) else st.test, classify))
        out = [(head, "fallthrough")]
        for ev, end in paths_of_block(st.body, classify):
            wrapped = (("loop", ev),) if ev else ()
            if end in ("break", "continue", "fallthrough"):
                out.append((head + wrapped, "fallthrough"))
            else:
                out.append((head + wrapped, end))
        res = []
        for ev, end in out:
            if end == "fallthrough" and st.orelse:
                for ev2, end2 in paths_of_block(st.orelse, classify):
                    res.append((ev + ev2, end2))
            else:
                res.append((ev, end))
        return res
    if isinstance(st, ast.Try):
        out = []
        body_paths = paths_of_block(st.body, classify)
        for ev, end in body_paths:
            if end == "fallthrough" and st.orelse:
                for ev2, end2 in paths_of_block(st.orelse, classify):
                    out.append((ev + ev2, end2))
            else:
                out.append((ev, end))
        for h in st.handlers:
            # the exception may strike anywhere in the body: approximate by "before the body's events"
            for ev, end in paths_of_block(h.body, classify):
                out.append(((("except", h.type and src(h.type)),) + ev, end))
        if st.finalbody:
            res = []
            for ev, end in out:
                for ev2, end2 in paths_of_block(st.finalbody, classify):
                    res.append((ev + ev2, end if end2 == "fallthrough" else end2))
            out = res
        return out
    if isinstance(st, ast.Return):
        return [(tuple(events_of_expr(st.value, classify)) + (("return", st.lineno),), "return")]
    if isinstance(st, ast.Raise):
        name = None
        if st.exc is not None:
            name = call_name(st.exc) if isinstance(st.exc, ast.Call) else src(st.exc)
        return [(tuple(events_of_expr(st.exc, classify)) + (("raise", name),), "raise")]
    if isinstance(st, ast.Break):
        return [((), "break")]
    if isinstance(st, ast.Continue):
        return [((), "continue")]
    if isinstance(st, ast.With):
        head = ()
        for it in st.items:
            head += tuple(events_of_expr(it.context_expr, classify))
        return [(head + ev, end) for ev, end in paths_of_block(st.body, classify)]
    if isinstance(st, (ast.FunctionDef, ast.ClassDef)):
        return [((), "fallthrough")]
    return [(tuple(events_of_expr(st, classify)), "fallthrough")]


def flat(events):
    out = []
    for e in events:
        if isinstance(e, tuple) and e and e[0] == "loop":
            out.extend(flat(e[1]))
        else:
            out.append(e)
    return out


def count_label(events, label):
    return sum(1 for e in flat(events) if e == label)


def call_classifier(mapping):
    """mapping: {dotted-name suffix: label}; labels calls whose dotted name
    ends with the suffix"""
    def classify(n):
        if isinstance(n, ast.Call):
            cn = call_name(n)
            if cn:
                for suf, lab in mapping.items():
                    if cn == suf or cn.endswith("." + suf):
                        return lab
        return None
    return classify
