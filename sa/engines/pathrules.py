"""E6 - path rules on structured control flow (no goto in Python: a
syntax-directed walk with a small state decides must-call / exactly-once /
ordering / dominance rules).

path_summaries(body, classify) enumerates the paths of a statement list as
tuples of event labels; each path ends in 'fallthrough', 'return', 'raise',
'break' or 'continue'.  Loops are summarised as zero or one iteration (events of
a loop body are wrapped in ('loop', ...)), which is exact for the exactly-once /
precedence obligations used here because every obligation is checked per
iteration or on loop-free code.
"""
import ast

from ..core.tree import AnalysisError
from ..core.astutil import walk_no_nested, call_name, src

MAX_PATHS = 4096
_INLINE = []      # stack of resolvers: Call node -> FunctionInfo of a helper to splice in, or None


class inlining:
    """with PR.inlining(resolver): statement-level calls `helper(...)` for which resolver(call)
    returns a FunctionInfo are replaced by the helper's own paths (one level of nesting per
    helper, recursion refused), so extracting statements into a helper does not hide events."""

    def __init__(self, resolver):
        self.resolver = resolver

    def __enter__(self):
        _INLINE.append((self.resolver, []))

    def __exit__(self, *a):
        _INLINE.pop()


def _inline_target(st):
    if not _INLINE or not isinstance(st, (ast.Expr, ast.Assign, ast.Return)) or not isinstance(st.value, ast.Call):
        return None
    resolver, active = _INLINE[-1]
    f = resolver(st.value)
    if f is None or f.key in active or len(active) > 3:
        return None
    return f


def events_of_expr(expr, classify):
    out = []
    if expr is None:
        return out
    for n in walk_no_nested(expr):
        lab = classify(n)
        if lab is not None:
            out.append(lab)
    return out


def paths_of_block(body, classify):
    """returns list of (events tuple, end) ; end in fallthrough|return|raise|break|continue"""
    paths = [((), "fallthrough")]
    for st in body:
        new = []
        for ev, end in paths:
            if end != "fallthrough":
                new.append((ev, end))
                continue
            for ev2, end2 in paths_of_stmt(st, classify):
                new.append((ev + ev2, end2))
        if len(new) > MAX_PATHS:
            raise AnalysisError("pathrules: too many paths")
        paths = new
    return paths


def _test_paths(test, classify):
    """events when the test is true / false, with short-circuit evaluation"""
    if isinstance(test, ast.BoolOp):
        is_and = isinstance(test.op, ast.And)
        # each operand evaluated only if the previous ones did not decide
        true_paths, false_paths = [], []
        prefix = [()]
        for i, v in enumerate(test.values):
            tp, fp = _test_paths(v, classify)
            last = i == len(test.values) - 1
            nxt = []
            for pre in prefix:
                if is_and:
                    for f in fp:
                        false_paths.append(pre + f)
                    for t in tp:
                        (true_paths if last else nxt).append(pre + t)
                else:
                    for t in tp:
                        true_paths.append(pre + t)
                    for f in fp:
                        (false_paths if last else nxt).append(pre + f)
            prefix = nxt
        return true_paths, false_paths
    if isinstance(test, ast.UnaryOp) and isinstance(test.op, ast.Not):
        tp, fp = _test_paths(test.operand, classify)
        return fp, tp
    ev = tuple(events_of_expr(test, classify))
    return [ev], [ev]


def paths_of_stmt(st, classify):
    f = _inline_target(st)
    if f is not None and classify(st) is None and classify(st.value) is None:
        active = _INLINE[-1][1]
        active.append(f.key)
        try:
            sub = paths_of_block(f.node.body, classify)
        finally:
            active.pop()
        args = tuple(events_of_expr(ast.Tuple(elts=list(st.value.args), ctx=ast.Load()), classify))
        out = []
        for ev, end in sub:
            ev = args + tuple(e for e in ev if not (isinstance(e, tuple) and e and e[0] == "return"))
            if end == "return":
                end = "return" if isinstance(st, ast.Return) else "fallthrough"
            if isinstance(st, ast.Return) and end == "fallthrough":
                end = "return"
            out.append((ev, end))
        return out
    if isinstance(st, ast.If):
        tp, fp = _test_paths(st.test, classify)
        out = []
        for t in tp:
            for ev, end in paths_of_block(st.body, classify):
                out.append((t + ev, end))
        for f in fp:
            for ev, end in paths_of_block(st.orelse, classify):
                out.append((f + ev, end))
        return out
    if isinstance(st, (ast.For, ast.While)):
        head = tuple(events_of_expr(st.iter if isinstance(st, ast.For) else st.test, classify))
        out = [(head, "fallthrough")]
        for ev, end in paths_of_block(st.body, classify):
            wrapped = (("loop", ev),) if ev else ()
            if end in ("break", "continue", "fallthrough"):
                out.append((head + wrapped, "fallthrough"))
            else:
                out.append((head + wrapped, end))
        res = []
        for ev, end in out:
            if end == "fallthrough" and st.orelse:
                for ev2, end2 in paths_of_block(st.orelse, classify):
                    res.append((ev + ev2, end2))
            else:
                res.append((ev, end))
        return res
    if isinstance(st, ast.Try):
        out = []
        body_paths = paths_of_block(st.body, classify)
        for ev, end in body_paths:
            if end == "fallthrough" and st.orelse:
                for ev2, end2 in paths_of_block(st.orelse, classify):
                    out.append((ev + ev2, end2))
            else:
                out.append((ev, end))
        for h in st.handlers:
            # the exception may strike anywhere in the body: approximate by "before the body's events"
            for ev, end in paths_of_block(h.body, classify):
                out.append(((("except", h.type and src(h.type)),) + ev, end))
        if st.finalbody:
            res = []
            for ev, end in out:
                for ev2, end2 in paths_of_block(st.finalbody, classify):
                    res.append((ev + ev2, end if end2 == "fallthrough" else end2))
            out = res
        return out
    if isinstance(st, ast.Return):
        return [(tuple(events_of_expr(st.value, classify)) + (("return", st.lineno),), "return")]
    if isinstance(st, ast.Raise):
        name = None
        if st.exc is not None:
            name = call_name(st.exc) if isinstance(st.exc, ast.Call) else src(st.exc)
        return [(tuple(events_of_expr(st.exc, classify)) + (("raise", name),), "raise")]
    if isinstance(st, ast.Break):
        return [((), "break")]
    if isinstance(st, ast.Continue):
        return [((), "continue")]
    if isinstance(st, ast.With):
        head = ()
        for it in st.items:
            head += tuple(events_of_expr(it.context_expr, classify))
        return [(head + ev, end) for ev, end in paths_of_block(st.body, classify)]
    if isinstance(st, (ast.FunctionDef, ast.ClassDef)):
        return [((), "fallthrough")]
    return [(tuple(events_of_expr(st, classify)), "fallthrough")]


def flat(events):
    out = []
    for e in events:
        if isinstance(e, tuple) and e and e[0] == "loop":
            out.extend(flat(e[1]))
        else:
            out.append(e)
    return out


def count_label(events, label):
    return sum(1 for e in flat(events) if e == label)


def call_classifier(mapping):
    """mapping: {dotted-name suffix: label}; labels calls whose dotted name
    ends with the suffix"""
    def classify(n):
        if isinstance(n, ast.Call):
            cn = call_name(n)
            if cn:
                for suf, lab in mapping.items():
                    if cn == suf or cn.endswith("." + suf):
                        return lab
        return None
    return classify


# ---------------------------------------------------------------------------
# Feasible paths with test outcomes and boolean locals
# ---------------------------------------------------------------------------
def feasible_paths(fn, classify, normalise=None, flags=(), resolve_ast=None, classify_stmt=None):
    """Paths of `fn` as lists of items
         ('test', text, outcome) | ('ev', label, node) | ('end', kind, node)
    where statements that contain no event, no exit and no assignment to a tracked
    boolean local are skipped as a whole (they cannot change the verdict of a must-pass /
    dominance rule), loops run zero or one time, and a path is kept only when it is
    feasible with respect to (a) boolean locals assigned constants and later tested and
    (b) repeated tests of the same side-effect-free expression.
    classify(node) -> label or None, asked for every expression node;
    normalise(test expr) -> text (default: source text)."""
    norm = normalise or src
    bool_locals = set(flags)
    for n in walk_no_nested(fn.node):
        if isinstance(n, ast.Assign) and len(n.targets) == 1 and isinstance(n.targets[0], ast.Name) \
                and isinstance(n.value, ast.Constant) and isinstance(n.value.value, bool):
            bool_locals.add(n.targets[0].id)

    def relevant(st):
        for n in ast.walk(st):
            if isinstance(n, (ast.Return, ast.Raise, ast.Break, ast.Continue)):
                return True
            if isinstance(n, ast.Assign) and any(isinstance(t, ast.Name) and t.id in bool_locals for t in n.targets):
                return True
            if isinstance(n, ast.expr) and classify(n) is not None:
                return True
            if classify_stmt is not None and isinstance(n, ast.stmt) and classify_stmt(n) is not None:
                return True
        return False

    def leaf(test):
        if isinstance(test, ast.BoolOp):
            is_and = isinstance(test.op, ast.And)
            cont, done = [[]], []
            for v in test.values:
                t, f = leaf(v)
                nc = []
                for pre in cont:
                    for x in (f if is_and else t):
                        done.append(pre + x)
                    for x in (t if is_and else f):
                        nc.append(pre + x)
                cont = nc
            return (cont, done) if is_and else (done, cont)
        if isinstance(test, ast.UnaryOp) and isinstance(test.op, ast.Not):
            t, f = leaf(test.operand)
            return f, t
        evs = [("ev", classify(n), n) for n in walk_no_nested(test) if classify(n) is not None]
        txt = norm(test)
        return [evs + [("test", txt, True)]], [evs + [("test", txt, False)]]

    def expr_events(e):
        return [("ev", classify(n), n) for n in walk_no_nested(e) if classify(n) is not None] if e is not None else []

    def block(body):
        paths = [([], None)]
        for st in body:
            if not relevant(st):
                continue
            new = []
            for items, end in paths:
                if end is not None:
                    new.append((items, end))
                    continue
                for its, e2 in stmt(st):
                    new.append((items + its, e2))
            if len(new) > MAX_PATHS:
                raise AnalysisError("pathrules: too many paths")
            paths = new
        return paths

    def stmt(st):
        if isinstance(st, ast.If):
            t, f = leaf(resolve_ast(st.test) if resolve_ast else st.test)
            out = []
            for pre in t:
                out += [(pre + its, e) for its, e in block(st.body)]
            for pre in f:
                out += [(pre + its, e) for its, e in block(st.orelse)]
            return out
        if isinstance(st, ast.Return):
            return [(expr_events(st.value) + [("end", "return", st)], "return")]
        if isinstance(st, ast.Raise):
            return [([("end", "raise", st)], "raise")]
        if isinstance(st, (ast.Break, ast.Continue)):
            return [([], "loop-exit")]   # leaves the (0/1-iteration) loop body: execution continues after the loop
        if isinstance(st, (ast.For, ast.While)):
            out = [([], None)]
            for its, e in block(st.body):
                out.append((its + [("iter-end", e or "fallthrough")], e if e in ("return", "raise") else None))
            return out
        if isinstance(st, ast.With):
            return block(st.body)
        if isinstance(st, ast.Try):
            out = list(block(st.body + st.orelse))
            for h in st.handlers:
                out += block(h.body)
            return out
        if isinstance(st, ast.Assign) and len(st.targets) == 1 and isinstance(st.targets[0], ast.Name) \
                and st.targets[0].id in bool_locals:
            if isinstance(st.value, ast.Constant) and isinstance(st.value.value, bool):
                return [([("set", st.targets[0].id, st.value.value)], None)]
            return [(expr_events(st.value) + [("kill", st.targets[0].id)], None)]
        if isinstance(st, (ast.Assign, ast.AugAssign, ast.AnnAssign, ast.Expr)):
            tgt = st.targets[0] if isinstance(st, ast.Assign) else getattr(st, "target", None)
            kill = [("kill", src(tgt))] if tgt is not None else []
            own = [("ev", classify_stmt(st), st)] if classify_stmt is not None and classify_stmt(st) is not None else []
            return [(expr_events(st.value) + own + kill, None)]
        return [([], None)]

    import re as _re
    out = []
    for items, end in block(fn.node.body):
        vals, known, ok = {}, {}, True
        for it in items:
            if it[0] == "set":
                vals[it[1]] = it[2]
            elif it[0] == "kill":
                vals.pop(it[1], None)
                for k in list(known):
                    if _re.search(r"(?<![\w.])" + _re.escape(it[1]) + r"(?![\w])", k):
                        del known[k]
            elif it[0] == "test":
                if it[1] in vals and vals[it[1]] != it[2]:
                    ok = False
                    break
                if it[1] in known and known[it[1]] != it[2]:
                    ok = False
                    break
                known[it[1]] = it[2]
        if ok:
            out.append([it for it in items if it[0] in ("test", "ev", "end", "iter-end")] +
                       ([] if end else [("end", "fallthrough", None)]))
    return out
