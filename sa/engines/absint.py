"""E3/E4 - interprocedural abstract interpretation for provenance (taint) and
effects (ownership, per-call state, hash-order, shared-object mutation).

One interpreter, one rich abstract value:

  regions   who owns the object:  P:<param>  reachable from an entry parameter
                                  C          defensive copy (deepcopy / .copy())
                                  F          created during this call
                                  G:<name>   module-level / class-level object
                                  S:<attr>   object left in self.<attr> by __init__ or an earlier call
  pieces    for strings: set of Piece(kind, src, escapes, ctx) -
            kind lit|num|safe|data; escapes = sanitisers applied, in order;
            ctx = 'attr' when the piece was embedded right after `="` in hand-written markup
  fields    constant-key dictionary entries; elem = join of everything else inside a container
  cls/oid   in-package instances created in the call have their attributes tracked in an
            abstract heap (strong updates on the single abstract object per allocation site+context)

In-package callees are inlined (context sensitive; recursion and depth are
bounded, the overflow is counted and reported).  Loops are iterated to a
bounded fix-point with join.  Library calls are modelled by summaries listed
in `LIB`; an unknown external call returns TOP carrying the join of its
arguments' regions and pieces (conservative for provenance) and is counted.
Events are collected for the rules to judge:
  mutate, sink, stale-read, self-write, set-order, nondet, deepcopy-hook, unresolved
"""
import ast
from collections import namedtuple

from ..core.tree import AnalysisError
from ..core.astutil import src, call_name, short
from ..core.constfold import RegexConst, EnumClass, EnumMember, Inst, ClassRef, FuncRef

Piece = namedtuple("Piece", "kind src escapes ctx text")
Event = namedtuple("Event", "kind what value node fn extra")

MAX_DEPTH = 14
LOOP_ROUNDS = 2
MAX_PIECES = 60

MUTATORS = {"append", "extend", "insert", "remove", "pop", "clear", "sort", "reverse", "update", "setdefault",
            "popitem", "add", "discard", "appendleft", "popleft", "extendleft", "rotate"}
PURE_STR = {"strip", "lstrip", "rstrip", "lower", "upper", "title", "capitalize", "casefold", "ljust", "rjust",
            "zfill", "center", "expandtabs", "swapcase"}
BOOL_STR = {"startswith", "endswith", "isdigit", "isspace", "isalpha", "isalnum", "isupper", "islower", "isnumeric",
            "isdecimal"}
NONDET = {"time.time", "time.monotonic", "time.perf_counter", "random.random", "random.randint", "random.choice",
          "random.shuffle", "uuid.uuid4", "uuid.uuid1", "os.urandom", "datetime.datetime.now", "datetime.now",
          "datetime.datetime.utcnow", "os.getpid", "id", "hash", "os.getenv", "os.environ.get", "secrets.token_hex"}


# calls that change the state of the PROCESS (what later reads and writes run under)
PROCSTATE = {"sys.setrecursionlimit", "sys.setswitchinterval", "locale.setlocale", "os.chdir", "os.putenv", "os.unsetenv", "os.umask",
             "random.seed", "warnings.simplefilter", "warnings.filterwarnings", "gc.disable", "gc.enable", "gc.set_threshold",
             "socket.setdefaulttimeout", "decimal.setcontext", "time.tzset", "sys.setprofile", "sys.settrace",
             "importlib.reload", "faulthandler.enable", "signal.signal"}


def lit(text=None):
    return Piece("lit", None, (), None, text)


def _cap(pieces):
    if len(pieces) > MAX_PIECES:
        # keep every non-literal piece; collapse literal texts
        keep = {p for p in pieces if p.kind != "lit"}
        keep.add(lit(None))
        return frozenset(keep)
    return frozenset(pieces)


class AV:
    __slots__ = ("kinds", "regions", "elem", "cls", "pieces", "fields", "oid", "fn", "selfv", "setlike", "const",
                 "tag", "keys")

    def __init__(self, kinds=(), regions=(), elem=None, cls=None, pieces=(), fields=None, oid=None, fn=None,
                 selfv=None, setlike=False, const=None, tag=None, keys=None):
        self.kinds = frozenset(kinds)
        self.regions = frozenset(regions)
        self.elem = elem
        self.cls = cls
        self.pieces = frozenset(pieces)
        self.fields = fields        # dict key -> AV (constant keys) or None
        self.oid = oid
        self.fn = fn                # FunctionInfo | ('lambda', node, env) | list of those
        self.selfv = selfv
        self.setlike = setlike
        self.const = const          # concrete python value when known (str/int/bool/None/EnumMember/...)
        self.tag = tag              # 'soup' | 'tag' | 'match' | 'regex' | model kind ...
        self.keys = keys            # AV of dictionary keys

    def copy(self, **kw):
        d = {s: getattr(self, s) for s in self.__slots__}
        d.update(kw)
        return AV(**d)

    def is_top(self):
        return "top" in self.kinds

    def __repr__(self):
        bits = ["/".join(sorted(self.kinds)) or "?"]
        if self.regions:
            bits.append("@" + ",".join(sorted(self.regions)))
        if self.cls is not None:
            bits.append(self.cls.name)
        if self.const is not None:
            bits.append(repr(self.const)[:30])
        if self.pieces:
            bits.append(f"{len(self.pieces)}pc")
        return "<AV " + " ".join(bits) + ">"


NOCONST = None
TOP = AV(kinds=["top"])
NONE = AV(kinds=["none"])
BOOL = AV(kinds=["bool"])
NUM = AV(kinds=["num"], pieces=[Piece("num", None, (), None, None)])


def const_av(v):
    if v is None:
        return NONE
    if isinstance(v, bool):
        return AV(kinds=["bool"], const=v)
    if isinstance(v, (int, float)):
        return AV(kinds=["num"], const=v, pieces=[Piece("num", None, (), None, None)])
    if isinstance(v, str):
        return AV(kinds=["str"], const=v, pieces=[lit(v if len(v) <= 80 else None)])
    return TOP


def str_av(pieces, regions=("F",)):
    return AV(kinds=["str"], pieces=_cap(pieces), regions=regions)


def join(a, b):
    if a is None:
        return b
    if b is None:
        return a
    if a is b:
        return a
    fields = None
    if a.fields is not None or b.fields is not None:
        fa, fb = a.fields or {}, b.fields or {}
        fields = {}
        for k in set(fa) | set(fb):
            fields[k] = join(fa.get(k), fb.get(k))
    fn = a.fn
    if a.fn is not None and b.fn is not None and a.fn is not b.fn:
        la = a.fn if isinstance(a.fn, list) else [a.fn]
        lb = b.fn if isinstance(b.fn, list) else [b.fn]
        fn = la + [x for x in lb if x not in la]
    elif a.fn is None:
        fn = b.fn
    return AV(kinds=a.kinds | b.kinds, regions=a.regions | b.regions, elem=join(a.elem, b.elem),
              cls=a.cls if a.cls is b.cls or b.cls is None else (b.cls if a.cls is None else a.cls),
              pieces=_cap(a.pieces | b.pieces), fields=fields, oid=a.oid if a.oid == b.oid else (a.oid or b.oid),
              fn=fn, selfv=a.selfv or b.selfv, setlike=a.setlike or b.setlike,
              const=a.const if (a.const == b.const and type(a.const) is type(b.const)) else None,
              tag=a.tag if a.tag == b.tag else (a.tag or b.tag), keys=join(a.keys, b.keys))


def join_all(vals):
    out = None
    for v in vals:
        out = join(out, v)
    return out


def same(a, b):
    """cheap structural equality for fix-point detection"""
    if a is b:
        return True
    if a is None or b is None:
        return False
    if (a.kinds, a.regions, a.pieces, a.setlike, a.cls, a.oid, a.tag) != \
            (b.kinds, b.regions, b.pieces, b.setlike, b.cls, b.oid, b.tag):
        return False
    if not same(a.elem, b.elem) and not (a.elem is None and b.elem is None):
        return False
    fa, fb = a.fields or {}, b.fields or {}
    if set(fa) != set(fb):
        return False
    return all(same(fa[k], fb[k]) for k in fa)


class State:
    def __init__(self, env=None, heap=None):
        self.env = env if env is not None else {}
        self.heap = heap if heap is not None else {}

    def fork(self):
        return State(dict(self.env), {k: dict(v) for k, v in self.heap.items()})

    def join_with(self, other):
        if other is None:
            return self
        env = {}
        for k in set(self.env) | set(other.env):
            env[k] = join(self.env.get(k), other.env.get(k))
        heap = {}
        for oid in set(self.heap) | set(other.heap):
            a, b = self.heap.get(oid, {}), other.heap.get(oid, {})
            heap[oid] = {k: join(a.get(k), b.get(k)) for k in set(a) | set(b)}
        return State(env, heap)

    def equal(self, other):
        if set(self.env) != set(other.env) or set(self.heap) != set(other.heap):
            return False
        for k in self.env:
            if not same(self.env[k], other.env[k]):
                return False
        for oid in self.heap:
            a, b = self.heap[oid], other.heap[oid]
            if set(a) != set(b):
                return False
            for k in a:
                if not same(a[k], b[k]):
                    return False
        return True


def join_states(a, b):
    if a is None:
        return b
    if b is None:
        return a
    return a.join_with(b)


class Frame:
    def __init__(self, fn, module, cls):
        self.fn = fn
        self.module = module
        self.cls = cls          # class in which the function is defined (for super())
        self.returns = None
        self.selfv = None


class Flow:
    """result of executing a block"""
    __slots__ = ("normal", "brk", "cont")

    def __init__(self, normal=None, brk=None, cont=None):
        self.normal = normal
        self.brk = brk
        self.cont = cont


class Interp:
    def __init__(self, index, folder, schema=None, lib=None):
        self.index = index
        self.folder = folder
        self.schema = schema or {}
        self.events = []
        self.stack = []
        self.counters = {"calls_inlined": 0, "calls_external": 0, "calls_unresolved": 0, "depth_cutoffs": 0,
                         "recursion_cutoffs": 0}
        self.unresolved = []
        self.visited_functions = set()
        self._oid = 0
        self.memo = {}
        self.global_cache = {}
        self.lib = lib or {}

    # -- events -------------------------------------------------------------
    def emit(self, kind, what, value, node, extra=None):
        fr = self.stack[-1] if self.stack else None
        self.events.append(Event(kind, what, value, node, fr.fn if fr else None, extra))

    def new_oid(self, hint):
        self._oid += 1
        return f"{hint}#{self._oid}"

    # -- entry --------------------------------------------------------------
    def call_function(self, fn, args, kwargs, state, selfv=None, node=None):
        """Inline `fn`; returns the abstract return value (state is updated in place: heap)."""
        key = fn.key
        if len(self.stack) >= MAX_DEPTH:
            self.counters["depth_cutoffs"] += 1
            return self._havoc(args, kwargs, selfv)
        if sum(1 for f in self.stack if f.fn is fn) >= 1:
            self.counters["recursion_cutoffs"] += 1
            return self._havoc(args, kwargs, selfv)
        mkey = self._memo_key(fn, args, kwargs, selfv, state)
        if mkey in self.memo:
            self.counters["memo_hits"] = self.counters.get("memo_hits", 0) + 1
            return self.memo[mkey]
        self.counters["calls_inlined"] += 1
        self.visited_functions.add(key)
        # an ESCAPED string handed to a model accessor as a key (language code, style class): the model
        # is keyed by the raw value, the escaped one finds nothing
        if fn.cls is not None and fn.cls.name in ("CaptionSet", "CaptionList", "Caption") and fn.name.startswith(("get_", "set_")):
            for a_ in list(args)[:1]:
                esc = [p_ for p_ in getattr(a_, "pieces", ()) if p_.kind == "data" and p_.escapes]
                if esc:
                    self.emit("escaped-key", f"{fn.cls.name}.{fn.name}", a_, node,
                              {"escapes": sorted({e for p_ in esc for e in p_.escapes})})
        fr = Frame(fn, fn.module, fn.cls)
        fr.selfv = selfv
        env = {}
        a = fn.node.args
        pos = [x.arg for x in a.posonlyargs + a.args]
        defaults = dict(zip(pos[len(pos) - len(a.defaults):], a.defaults))
        for k, d in zip(a.kwonlyargs, a.kw_defaults):
            if d is not None:
                defaults[k.arg] = d
        params = list(pos)
        if fn.kind in ("method", "property", "setter") and params:
            env[params[0]] = selfv if selfv is not None else TOP
            params = params[1:]
        elif fn.kind == "classmethod" and params:
            env[params[0]] = selfv if selfv is not None else AV(kinds=["class"], cls=fn.cls)
            params = params[1:]
        args = list(args)
        for i, p in enumerate(params):
            if i < len(args):
                env[p] = args[i]
        extra_pos = args[len(params):]
        kw = dict(kwargs)
        for p in params + [k.arg for k in a.kwonlyargs]:
            if p in kw:
                env[p] = kw.pop(p)
        self.stack.append(fr)
        try:
            for p in params + [k.arg for k in a.kwonlyargs]:
                if p not in env:
                    if p in defaults:
                        dv = self.eval(defaults[p], State({}, state.heap))
                        # a mutable default object is shared between calls: it lives in a global region
                        if dv.kinds & {"dict", "list", "set"}:
                            dv = dv.copy(regions=[f"G:default:{fn.qualname}.{p}"])
                        env[p] = dv
                    else:
                        env[p] = TOP
            if a.vararg:
                env[a.vararg.arg] = AV(kinds=["tuple"], regions=["F"], elem=join_all(extra_pos))
            if a.kwarg:
                env[a.kwarg.arg] = AV(kinds=["dict"], regions=["F"], fields=dict(kw), elem=join_all(kw.values()))
            st = State(env, state.heap)
            flow = self.exec_block(fn.node.body, st)
            if flow.normal is not None:
                fr.returns = join(fr.returns, NONE)
                state.heap = flow.normal.heap
            if fr.returns_heap is not None if hasattr(fr, "returns_heap") else False:
                pass
            ret = fr.returns if fr.returns is not None else NONE
            if getattr(fr, "yields", None) is not None:
                # a generator function: its caller sees the sequence of yielded values (order abstracted away)
                ret = AV(kinds=["list"], regions=["F"], elem=fr.yields)
            # heap: join of heaps at every return point
            hs = getattr(fr, "heaps", [])
            if flow.normal is not None:
                hs = hs + [flow.normal.heap]
            if hs:
                merged = State({}, hs[0])
                for h in hs[1:]:
                    merged = merged.join_with(State({}, h))
                state.heap = merged.heap
            if len(self.memo) < 20000:
                self.memo[mkey] = ret
            return ret
        finally:
            self.stack.pop()

    def _sig(self, v, depth=0):
        if v is None:
            return None
        base = (v.kinds, v.regions, v.cls.name if v.cls is not None else None, v.oid, v.tag, v.setlike,
                frozenset((p.kind, p.src, p.escapes, p.ctx) for p in v.pieces),
                v.const if isinstance(v.const, (str, int, bool, float)) else None)
        if depth >= 2:
            return base
        f = tuple(sorted((str(k), self._sig(x, depth + 1)) for k, x in (v.fields or {}).items())) if v.fields else None
        return base + (self._sig(v.elem, depth + 1), f)

    def _memo_key(self, fn, args, kwargs, selfv, state):
        stale = ()
        if "self" in state.heap:
            stale = tuple(sorted(a for a, v in state.heap["self"].items()
                                 if v is not None and any(r.startswith("S:") for r in v.regions)))
        sheap = ()
        if selfv is not None and selfv.oid is not None and selfv.oid in state.heap:
            sheap = tuple(sorted((a, self._sig(v, 1)) for a, v in state.heap[selfv.oid].items()))
        return (fn.key, tuple(self._sig(a) for a in args),
                tuple(sorted((k, self._sig(v)) for k, v in kwargs.items())), self._sig(selfv), stale, sheap)

    def _havoc(self, args, kwargs, selfv):
        vals = list(args) + list(kwargs.values())
        return AV(kinds=["top"], regions=frozenset().union(*[v.regions for v in vals]) if vals else (),
                  pieces=_cap(frozenset().union(*[v.pieces for v in vals])) if vals else ())

    # -- statements ---------------------------------------------------------
    def exec_block(self, body, st):
        cur = st
        brk = cont = None
        for s in body:
            if cur is None:
                break
            f = self.exec_stmt(s, cur)
            cur = f.normal
            brk = join_states(brk, f.brk)
            cont = join_states(cont, f.cont)
        return Flow(cur, brk, cont)

    def exec_stmt(self, s, st):
        fr = self.stack[-1]
        if isinstance(s, ast.Expr):
            self.eval(s.value, st)
            return Flow(st)
        if isinstance(s, ast.Assign):
            v = self.eval(s.value, st)
            for t in s.targets:
                self.assign(t, v, st, s)
            return Flow(st)
        if isinstance(s, ast.AnnAssign):
            if s.value is not None:
                self.assign(s.target, self.eval(s.value, st), st, s)
            return Flow(st)
        if isinstance(s, ast.AugAssign):
            cur = self.eval(_load(s.target), st)
            v = self.eval(s.value, st)
            if isinstance(s.op, ast.Add) and (cur.kinds & {"list"}) and not (cur.kinds & {"str", "num"}):
                # list += x mutates in place
                self.mutation(cur, "augmented assignment", s, st)
                nv = cur.copy(elem=join(cur.elem, v.elem if v.kinds & {"list", "tuple", "set", "dict"} else v))
            else:
                nv = self.binop(s.op, cur, v, s, st)
            self.assign(s.target, nv, st, s, aug=True)
            return Flow(st)
        if isinstance(s, ast.Return):
            v = self.eval(s.value, st) if s.value is not None else NONE
            fr.returns = join(fr.returns, v)
            if not hasattr(fr, "heaps"):
                fr.heaps = []
            fr.heaps.append(st.heap)
            return Flow(None)
        if isinstance(s, ast.Raise):
            if s.exc is not None:
                self.eval(s.exc, st)
            return Flow(None)
        if isinstance(s, ast.If):
            self.eval(s.test, st)
            t = self.truth(s.test, st)
            a = b = None
            if t is not False:
                sa = st.fork()
                self.refine(s.test, sa, True)
                a = self.exec_block(s.body, sa)
            if t is not True:
                sb = st.fork()
                self.refine(s.test, sb, False)
                b = self.exec_block(s.orelse, sb)
            fl = Flow()
            for x in (a, b):
                if x is not None:
                    fl.normal = join_states(fl.normal, x.normal)
                    fl.brk = join_states(fl.brk, x.brk)
                    fl.cont = join_states(fl.cont, x.cont)
            return fl
        if isinstance(s, (ast.For, ast.While)):
            return self.exec_loop(s, st)
        if isinstance(s, ast.Try):
            pre = st.fork()
            body = self.exec_block(s.body, st)
            out = Flow(body.normal, body.brk, body.cont)
            if s.orelse and out.normal is not None:
                o = self.exec_block(s.orelse, out.normal)
                out = Flow(o.normal, join_states(out.brk, o.brk), join_states(out.cont, o.cont))
            for h in s.handlers:
                hs = join_states(pre.fork(), body.normal.fork() if body.normal is not None else None)
                if h.name:
                    hs.env[h.name] = TOP
                hf = self.exec_block(h.body, hs)
                out = Flow(join_states(out.normal, hf.normal), join_states(out.brk, hf.brk), join_states(out.cont, hf.cont))
            if s.finalbody and out.normal is not None:
                f2 = self.exec_block(s.finalbody, out.normal)
                out = Flow(f2.normal, join_states(out.brk, f2.brk), join_states(out.cont, f2.cont))
            return out
        if isinstance(s, ast.With):
            for it in s.items:
                v = self.eval(it.context_expr, st)
                if it.optional_vars is not None:
                    self.assign(it.optional_vars, v, st, s)
            return self.exec_block(s.body, st)
        if isinstance(s, ast.Break):
            return Flow(None, st, None)
        if isinstance(s, ast.Continue):
            return Flow(None, None, st)
        if isinstance(s, (ast.Pass, ast.Import, ast.ImportFrom, ast.Global, ast.Nonlocal)):
            return Flow(st)
        if isinstance(s, ast.Assert):
            self.eval(s.test, st)
            return Flow(st)
        if isinstance(s, ast.Delete):
            for t in s.targets:
                if isinstance(t, (ast.Subscript, ast.Attribute)):
                    base = self.eval(t.value, st)
                    self.mutation(base, "del", s, st)
                elif isinstance(t, ast.Name):
                    st.env.pop(t.id, None)
            return Flow(st)
        if isinstance(s, ast.FunctionDef):
            st.env[s.name] = AV(kinds=["func"], fn=("localdef", s, dict(st.env)))
            return Flow(st)
        if isinstance(s, ast.ClassDef):
            st.env[s.name] = TOP
            return Flow(st)
        raise AnalysisError(f"absint: unsupported statement {type(s).__name__} in {fr.fn.key}")

    def exec_loop(self, s, st):
        if isinstance(s, ast.For):
            it = self.eval(s.iter, st)
            item = self.iterate(it, s.iter, st)
            # a loop over a constant table (a literal tuple / list, or a module-level constant the function does not
            # shadow): executed element by element, in order - a table-driven sequence of replacements is the same steps as
            # the statements written out
            fields = it.fields
            literal = isinstance(s.iter, (ast.Tuple, ast.List)) or (isinstance(s.iter, ast.Name) and s.iter.id not in st.env)
            if literal and it.kinds <= frozenset(["tuple", "list"]) and fields and it.oid is None \
                    and sorted(fields) == list(range(len(fields))) and len(fields) <= 12:
                cur, brk = st.fork(), None
                for i in range(len(fields)):
                    self.assign(s.target, fields[i], cur, s)
                    f = self.exec_block(s.body, cur)
                    brk = join_states(brk, f.brk)
                    cur = join_states(f.normal, f.cont)
                    if cur is None:
                        break
                if s.orelse and cur is not None:
                    cur = self.exec_block(s.orelse, cur).normal
                return Flow(join_states(brk, cur))
        else:
            item = None
        entry = st
        exit_state = None
        if isinstance(s, ast.While):
            self.eval(s.test, st)
        # zero iterations
        exit_state = entry.fork()
        cur = entry.fork()
        for _round in range(LOOP_ROUNDS):
            if isinstance(s, ast.For):
                self.assign(s.target, item, cur, s)
            else:
                self.eval(s.test, cur)
            f = self.exec_block(s.body, cur)
            after = join_states(f.normal, f.cont)
            exit_state = join_states(exit_state, f.brk)
            if after is None:
                break
            exit_state = join_states(exit_state, after)
            nxt = join_states(entry.fork(), after)
            if _round > 0 and nxt.equal(cur_prev):
                break
            cur_prev = nxt
            cur = nxt.fork()
            if isinstance(s, ast.For):
                # re-evaluate the iterable's elements: they may have grown
                pass
        if s.orelse and exit_state is not None:
            o = self.exec_block(s.orelse, exit_state)
            return Flow(o.normal, None, None)
        return Flow(exit_state)

    # -- refinement / truth ---------------------------------------------------
    def truth(self, test, st):
        try:
            v = self.eval_quiet(test, st)
        except AnalysisError:
            return None
        if v is None:
            return None
        if v.const is not None and not v.is_top():
            return bool(v.const)
        if v.kinds == frozenset(["none"]):
            return False
        return None

    def eval_quiet(self, expr, st):
        n = len(self.events)
        c = dict(self.counters)
        try:
            return self.eval(expr, st.fork())
        finally:
            del self.events[n:]
            self.counters = c

    def refine(self, test, st, truth):
        """light refinement: `x is None` / `not x` / isinstance on names"""
        if isinstance(test, ast.UnaryOp) and isinstance(test.op, ast.Not):
            return self.refine(test.operand, st, not truth)
        if isinstance(test, ast.BoolOp):
            if isinstance(test.op, ast.And) and truth:
                for v in test.values:
                    self.refine(v, st, True)
            if isinstance(test.op, ast.Or) and not truth:
                for v in test.values:
                    self.refine(v, st, False)
            return
        if isinstance(test, ast.Call) and isinstance(test.func, ast.Name) and test.func.id == "isinstance" \
                and len(test.args) == 2 and isinstance(test.args[0], ast.Name) and test.args[0].id in st.env \
                and isinstance(test.args[1], ast.Name) and test.args[1].id == "str":
            v = st.env[test.args[0].id]
            if truth:
                st.env[test.args[0].id] = v.copy(kinds=["str"])
            else:
                # not a string: no text can flow on through this value
                rest = v.kinds - {"str"}
                st.env[test.args[0].id] = AV(kinds=rest or ["top"], regions=v.regions, const=None)
            return
        if isinstance(test, ast.Name) and test.id in st.env and not truth:
            v = st.env[test.id]
            if "none" in v.kinds and len(v.kinds) > 1:
                st.env[test.id] = NONE
        if isinstance(test, ast.Name) and test.id in st.env and truth:
            v = st.env[test.id]
            if "none" in v.kinds and len(v.kinds) > 1:
                st.env[test.id] = v.copy(kinds=v.kinds - {"none"})
        if isinstance(test, ast.Compare) and len(test.ops) == 1 and isinstance(test.left, ast.Name) \
                and test.left.id in st.env and isinstance(test.comparators[0], ast.Constant) \
                and test.comparators[0].value is None:
            v = st.env[test.left.id]
            is_none = isinstance(test.ops[0], ast.Is) == truth
            if is_none:
                st.env[test.left.id] = NONE
            elif "none" in v.kinds and len(v.kinds) > 1:
                st.env[test.left.id] = v.copy(kinds=v.kinds - {"none"})

    # -- assignment -----------------------------------------------------------
    def assign(self, t, v, st, node, aug=False):
        if isinstance(t, ast.Name):
            st.env[t.id] = v
        elif isinstance(t, (ast.Tuple, ast.List)):
            n = len(t.elts)
            parts = self.unpack(v, n, st)
            for tt, vv in zip(t.elts, parts):
                if isinstance(tt, ast.Starred):
                    self.assign(tt.value, AV(kinds=["list"], regions=["F"], elem=vv), st, node)
                else:
                    self.assign(tt, vv, st, node)
        elif isinstance(t, ast.Attribute):
            base = self.eval(t.value, st)
            self.store_attr(base, t.attr, v, st, node)
        elif isinstance(t, ast.Subscript):
            base = self.eval(t.value, st)
            key = self.eval(t.slice, st) if not isinstance(t.slice, ast.Slice) else TOP
            self.store_item(base, key, v, st, node, t)
        elif isinstance(t, ast.Starred):
            self.assign(t.value, v, st, node)
        else:
            raise AnalysisError("absint: unsupported assignment target")

    def unpack(self, v, n, st):
        if v.kinds == frozenset(["tuple"]) and v.fields is not None and all(i in v.fields for i in range(n)):
            return [v.fields[i] for i in range(n)]
        if v.fields is not None and v.kinds & {"tuple", "list"} and all(i in v.fields for i in range(n)):
            return [join(v.fields[i], None) for i in range(n)]
        item = self.iterate(v, None, st, quiet=True)
        return [item] * n

    def store_attr(self, base, attr, v, st, node):
        fr = self.stack[-1]
        if base.oid is not None and base.oid in st.heap:
            st.heap[base.oid][attr] = v
            if base.oid == "self":
                self.emit("self-write", attr, v, node)
            elif "S" in {r.split(":")[0] for r in base.regions}:
                self.mutation(base, f"attribute store .{attr}", node, st)
            return
        if base.oid is not None:
            st.heap.setdefault(base.oid, {})[attr] = v
            return
        if base.tag in ("tag", "soup"):
            if attr == "string":
                self.emit("sink", "text-raw", v, node, {"via": "tag.string ="})
            return
        if "class" in base.kinds and base.cls is not None:
            # `ClassName.attr = ...`: the class object is shared by every instance and every later call
            shared = base.copy(regions=[f"G:class:{getattr(base.cls, 'name', base.cls)}.{attr}"])
            self.mutation(shared, f"class attribute store .{attr}", node, st, stored=v)
            return
        self.mutation(base, f"attribute store .{attr}", node, st, stored=v)

    def store_item(self, base, key, v, st, node, target):
        if base.tag in ("tag", "soup"):
            self.emit("sink", "attr", v, node, {"via": f"tag[{src(target.slice)[:30]}] =", "key": key})
            return
        self.mutation(base, "item store", node, st, stored=v)
        if base.oid is not None and base.oid in st.heap:
            st.heap[base.oid]["__elem__"] = join(st.heap[base.oid].get("__elem__"), v)
            return
        # weak update of the abstract container
        self.update_container(base, key, v, st, target)

    def update_container(self, base, key, v, st, target):
        if target is None:
            return
        nb = None
        if "dict" in base.kinds or base.is_top():
            if key.const is not None and isinstance(key.const, (str, int)):
                f = dict(base.fields or {})
                f[key.const] = join(f.get(key.const), v) if (base.fields or {}).get(key.const) is not None and False else v
                nb = base.copy(fields=f, keys=join(base.keys, key))
            else:
                nb = base.copy(elem=join(base.elem, v), keys=join(base.keys, key))
        elif base.kinds & {"list"}:
            nb = base.copy(elem=join(base.elem, v))
        if nb is not None:
            self.rebind(target.value, nb, st)

    def rebind(self, expr, nv, st):
        """after an in-place update of an abstract container, write the new
        abstract value back to where it lives (local name or heap field)"""
        if isinstance(expr, ast.Name):
            if expr.id in st.env:
                st.env[expr.id] = nv
        elif isinstance(expr, ast.Attribute):
            base = self.eval_quiet(expr.value, st)
            if base is not None and base.oid is not None and base.oid in st.heap:
                st.heap[base.oid][expr.attr] = nv
        elif isinstance(expr, ast.Subscript):
            pass

    def mutation(self, base, how, node, st, stored=None):
        if base is None:
            return
        regs = set(base.regions)
        if not regs and base.is_top():
            return
        self.emit("mutate", how, base, node, {"regions": sorted(regs)})

    # -- expressions ----------------------------------------------------------
    def e_Yield(self, x, st):
        fr = self.stack[-1]
        v = self.eval(x.value, st) if x.value is not None else NONE
        fr.yields = join(getattr(fr, "yields", None), v)
        return NONE

    def e_YieldFrom(self, x, st):
        fr = self.stack[-1]
        v = self.eval(x.value, st)
        fr.yields = join(getattr(fr, "yields", None), v.elem if v.elem is not None else v)
        return NONE

    def eval(self, x, st):
        m = getattr(self, "e_" + type(x).__name__, None)
        if m is None:
            raise AnalysisError(f"absint: unsupported expression {type(x).__name__}")
        return m(x, st)

    def e_Constant(self, x, st):
        return const_av(x.value)

    def e_Name(self, x, st):
        if x.id in st.env:
            return st.env[x.id]
        return self.global_name(x.id)

    def global_name(self, name):
        fr = self.stack[-1]
        key = (fr.module.name, name)
        if key in self.global_cache:
            return self.global_cache[key]
        v = self._global_name(fr.module, name)
        self.global_cache[key] = v
        return v

    def _global_name(self, mod, name):
        b = self.index.resolve(mod, name)
        if b is None:
            if name in ("True", "False"):
                return AV(kinds=["bool"], const=(name == "True"))
            if name == "None":
                return NONE
            return AV(kinds=["func"], fn=("builtin", name))
        if b.kind == "func":
            return AV(kinds=["func"], fn=b.target)
        if b.kind == "class":
            ev = self.folder.try_value(b.module, b.name)
            if isinstance(ev, EnumClass):
                return AV(kinds=["class"], cls=b.target, const=ev, tag="enum")
            return AV(kinds=["class"], cls=b.target)
        if b.kind == "module":
            return AV(kinds=["module"], const=("module", b.target))
        if b.kind == "external":
            return AV(kinds=["func"], fn=("external", b.target))
        if b.kind == "const":
            v = self.folder.try_value(b.module, b.name, default=_MISSING)
            return self.lift(v, f"G:{b.module.path}:{b.name}")
        return TOP

    def lift(self, v, region):
        """folded python value -> abstract value living in a global region"""
        if v is _MISSING:
            return AV(kinds=["top"], regions=[region])
        if v is None or isinstance(v, (bool, int, float, str)):
            return const_av(v)
        if isinstance(v, dict):
            fields = {}
            elem = None
            for k, x in list(v.items())[:200]:
                xv = self.lift(x, region)
                if isinstance(k, (str, int)) and len(v) <= 40:
                    fields[k] = xv
                elem = join(elem, xv)
            keys = join_all(self.lift(k, region) for k in list(v)[:50])
            return AV(kinds=["dict"], regions=[region], fields=fields or None, elem=elem, keys=keys)
        if isinstance(v, (list, tuple, set, frozenset)):
            elem = join_all(self.lift(x, region) for x in list(v)[:60])
            kind = "list" if isinstance(v, list) else "tuple" if isinstance(v, tuple) else "set"
            fields = None
            if isinstance(v, tuple) and len(v) <= 12:
                fields = {i: self.lift(x, region) for i, x in enumerate(v)}
            return AV(kinds=[kind], regions=[region] if kind != "tuple" else [], elem=elem, fields=fields,
                      setlike=isinstance(v, (set, frozenset)))
        if isinstance(v, EnumMember):
            return AV(kinds=["enum"], const=v, pieces=[Piece("safe", "enum", (), None, None)])
        if isinstance(v, EnumClass):
            return AV(kinds=["class"], const=v, tag="enum")
        if isinstance(v, RegexConst):
            return AV(kinds=["ext"], tag="regex", const=v)
        if isinstance(v, Inst):
            return AV(kinds=["obj"], cls=v.cls, regions=[region], tag="global-inst", const=v)
        if isinstance(v, ClassRef):
            return AV(kinds=["class"], cls=v.cls)
        if isinstance(v, FuncRef):
            return AV(kinds=["func"], fn=v.fn)
        return AV(kinds=["top"], regions=[region])

    def e_Tuple(self, x, st):
        vals = [self.eval(e.value if isinstance(e, ast.Starred) else e, st) for e in x.elts]
        return AV(kinds=["tuple"], regions=[], elem=join_all(vals), fields={i: v for i, v in enumerate(vals)})

    def e_List(self, x, st):
        vals = [self.eval(e.value if isinstance(e, ast.Starred) else e, st) for e in x.elts]
        elem = None
        for e, v in zip(x.elts, vals):
            elem = join(elem, self.iterate(v, e, st, quiet=True) if isinstance(e, ast.Starred) else v)
        return AV(kinds=["list"], regions=["F"], elem=elem,
                  fields={i: v for i, v in enumerate(vals)} if len(vals) <= 8 and not any(
                      isinstance(e, ast.Starred) for e in x.elts) else None)

    def e_Set(self, x, st):
        vals = [self.eval(e, st) for e in x.elts]
        return AV(kinds=["set"], regions=["F"], elem=join_all(vals), setlike=True)

    def e_Dict(self, x, st):
        fields = {}
        elem = None
        keys = None
        for k, v in zip(x.keys, x.values):
            vv = self.eval(v, st)
            if k is None:
                if vv.fields:
                    fields.update(vv.fields)
                elem = join(elem, vv.elem)
                keys = join(keys, vv.keys)
                continue
            kv = self.eval(k, st)
            keys = join(keys, kv)
            if kv.const is not None and isinstance(kv.const, (str, int)):
                fields[kv.const] = vv
            else:
                elem = join(elem, vv)
        return AV(kinds=["dict"], regions=["F"], fields=fields, elem=elem, keys=keys)

    def e_JoinedStr(self, x, st):
        pieces = set()
        prev_lit = ""
        for v in x.values:
            if isinstance(v, ast.Constant):
                pieces.add(lit(v.value if len(v.value) <= 80 else None))
                prev_lit = v.value
            else:
                val = self.eval(v.value, st)
                ctx = "attr" if prev_lit.endswith('="') or prev_lit.endswith("='") else None
                pieces |= self.str_pieces(val, ctx, v, st)
                prev_lit = ""
        return str_av(pieces)

    def str_pieces(self, val, ctx, node, st):
        """pieces contributed when `val` is formatted into a string"""
        out = set()
        if val.oid is not None and val.cls is not None or (val.cls is not None and "obj" in val.kinds):
            # __str__ of an in-package object
            m = val.cls.find_method("__str__")
            if m is not None:
                r = self.call_function(m, [], {}, st, selfv=val, node=node)
                return self.str_pieces(r, ctx, node, st)
        for p in val.pieces:
            if ctx and p.kind == "data" and p.ctx is None:
                out.add(p._replace(ctx=ctx))
            else:
                out.add(p)
        if not val.pieces:
            if val.kinds <= {"num", "bool", "none"} and val.kinds:
                out.add(Piece("num", None, (), None, None))
            elif "enum" in val.kinds:
                out.add(Piece("safe", "enum", (), None, None))
            elif val.kinds & {"dict", "list", "tuple", "set"}:
                sub = join(val.elem, join_all((val.fields or {}).values()))
                if sub is not None:
                    out |= self.str_pieces(sub, ctx, node, st)
                out.add(lit(None))
            else:
                out.add(Piece("data", "unknown", (), ctx, None) if (val.regions - {"F"}) or val.is_top()
                        else Piece("safe", "opaque", (), None, None))
        return out

    def e_FormattedValue(self, x, st):
        return self.eval(x.value, st)

    def e_BinOp(self, x, st):
        l, r = self.eval(x.left, st), self.eval(x.right, st)
        return self.binop(x.op, l, r, x, st)

    def binop(self, op, l, r, node, st):
        if isinstance(op, ast.Add) and ("str" in l.kinds or "str" in r.kinds) and not (l.kinds & {"list"}):
            pieces = set(l.pieces)
            ctx = None
            if l.const is not None and isinstance(l.const, str) and (l.const.endswith('="') or l.const.endswith("='")):
                ctx = "attr"
            # the literal tail of the left operand decides the context of data in the right operand
            tails = [p.text for p in l.pieces if p.kind == "lit" and p.text]
            if not ctx and len(l.pieces) == 1 and tails and (tails[0].endswith('="')):
                ctx = "attr"
            pieces |= self.str_pieces(r, ctx, node, st)
            if not l.pieces:
                pieces |= self.str_pieces(l, None, node, st)
            return str_av(pieces)
        if isinstance(op, ast.Mod) and "str" in l.kinds:
            pieces = set(l.pieces) | self.str_pieces(r, None, node, st)
            return str_av(pieces)
        if isinstance(op, ast.Add) and (l.kinds & {"list", "tuple"}):
            return AV(kinds=l.kinds & {"list", "tuple"} or ["list"], regions=["F"], elem=join(l.elem, r.elem),
                      cls=l.cls)
        if isinstance(op, ast.Mult) and (l.kinds & {"list", "str"}):
            return l.copy(regions=["F"]) if "list" in l.kinds else l
        if l.cls is not None and "obj" in l.kinds:
            name = {ast.Add: "__add__", ast.Sub: "__sub__", ast.Mult: "__mul__"}.get(type(op))
            m = l.cls.find_method(name) if name else None
            if m is not None:
                return self.call_function(m, [r], {}, st, selfv=l, node=node)
        if isinstance(op, (ast.Sub, ast.BitOr, ast.BitAnd, ast.BitXor)) and (l.tag == "dictview" or r.tag == "dictview"):
            # dict views are set-like: their difference / union / intersection is a real set (hash order)
            return AV(kinds=["set"], regions=["F"], elem=join(l.elem, r.elem) if l.elem is not None and r.elem is not None
                      else (l.elem or r.elem), setlike=True)
        if isinstance(op, (ast.Sub, ast.BitOr, ast.BitAnd, ast.BitXor)) and ("set" in l.kinds or "set" in r.kinds) \
                and not ("dict" in l.kinds):
            # set algebra keeps hash order
            return AV(kinds=["set"], regions=["F"], elem=join(l.elem, r.elem) if l.elem is not None and r.elem is not None
                      else (l.elem or r.elem), setlike=True)
        if isinstance(op, ast.BitOr) and "dict" in l.kinds:
            return join(l, r).copy(regions=["F"])
        if l.is_top() or r.is_top():
            return AV(kinds=["top"], regions=l.regions | r.regions, pieces=_cap(l.pieces | r.pieces))
        return NUM

    def e_UnaryOp(self, x, st):
        v = self.eval(x.operand, st)
        if isinstance(x.op, ast.Not):
            if v.const is not None and not v.is_top():
                return AV(kinds=["bool"], const=not v.const)
            if v.kinds == frozenset(["none"]):
                return AV(kinds=["bool"], const=True)
            return BOOL
        return NUM

    def e_BoolOp(self, x, st):
        vals = []
        cur = st
        for v in x.values:
            vals.append(self.eval(v, cur))
        # value is one of the operands
        out = join_all(vals)
        consts = [v.const for v in vals]
        if isinstance(x.op, ast.Or):
            # `a or "literal"`: if a is known falsy take the rest
            if vals[0].kinds == frozenset(["none"]):
                return join_all(vals[1:])
        return out.copy(const=None) if out is not None else TOP

    def e_Compare(self, x, st):
        l = self.eval(x.left, st)
        rs = [self.eval(c, st) for c in x.comparators]
        if len(rs) == 1 and l.const is not None and rs[0].const is not None and not l.is_top():
            try:
                op = x.ops[0]
                a, b = l.const, rs[0].const
                if isinstance(op, ast.Eq):
                    return AV(kinds=["bool"], const=(a == b))
                if isinstance(op, ast.NotEq):
                    return AV(kinds=["bool"], const=(a != b))
                if isinstance(op, ast.In) and isinstance(b, (str, tuple, list, dict, set, frozenset)):
                    return AV(kinds=["bool"], const=(a in b))
            except Exception:
                pass
        if len(rs) == 1 and isinstance(x.ops[0], (ast.Eq, ast.NotEq)) and not l.is_top() and not rs[0].is_top():
            # values of disjoint builtin kinds are never equal (e.g. the {} sentinel against a string key)
            basic = {"str", "num", "dict", "list", "tuple", "set", "none", "bool"}
            lk, rk = l.kinds & basic, rs[0].kinds & basic
            if lk and rk and l.kinds <= basic and rs[0].kinds <= basic and not (lk & rk) \
                    and not ({"num", "bool"} >= (lk | rk)):
                return AV(kinds=["bool"], const=isinstance(x.ops[0], ast.NotEq))
        if len(rs) == 1 and isinstance(x.ops[0], (ast.In, ast.NotIn)) and not l.is_top() \
                and isinstance(x.comparators[0], (ast.Tuple, ast.List, ast.Set)) and x.comparators[0].elts:
            # membership in a literal collection of constants of another builtin kind (the {} sentinel `in ("roll", "paint")`)
            basic = {"str", "num", "dict", "list", "tuple", "set", "none", "bool"}
            elems = [self.eval(e_, st) for e_ in x.comparators[0].elts]
            lk = l.kinds & basic
            if lk and l.kinds <= basic and all(not e_.is_top() and e_.kinds <= basic and (e_.kinds & basic) and not (e_.kinds & lk)
                                               and not ({"num", "bool"} >= (lk | e_.kinds)) for e_ in elems):
                return AV(kinds=["bool"], const=isinstance(x.ops[0], ast.NotIn))
        return BOOL

    def e_IfExp(self, x, st):
        self.eval(x.test, st)
        t = self.truth(x.test, st)
        if t is True:
            return self.eval(x.body, st)
        if t is False:
            return self.eval(x.orelse, st)
        return join(self.eval(x.body, st), self.eval(x.orelse, st))

    def e_Lambda(self, x, st):
        return AV(kinds=["func"], fn=("lambda", x, dict(st.env), self.stack[-1]))

    def e_Starred(self, x, st):
        return self.eval(x.value, st)

    def e_NamedExpr(self, x, st):
        v = self.eval(x.value, st)
        self.assign(x.target, v, st, x)
        return v

    def e_Slice(self, x, st):
        for p in (x.lower, x.upper, x.step):
            if p is not None:
                self.eval(p, st)
        return TOP

    def _comp(self, x, st, kind):
        sub = st.fork()
        for g in x.generators:
            it = self.eval(g.iter, sub)
            item = self.iterate(it, g.iter, sub)
            self.assign(g.target, item, sub, x)
            for c in g.ifs:
                self.eval(c, sub)
        if kind == "dict":
            k = self.eval(x.key, sub)
            v = self.eval(x.value, sub)
            st.heap = sub.heap
            return AV(kinds=["dict"], regions=["F"], elem=v, keys=k)
        e = self.eval(x.elt, sub)
        st.heap = sub.heap
        return AV(kinds=[kind], regions=["F"], elem=e, setlike=(kind == "set"))

    def e_ListComp(self, x, st):
        return self._comp(x, st, "list")

    def e_GeneratorExp(self, x, st):
        return self._comp(x, st, "list")

    def e_SetComp(self, x, st):
        return self._comp(x, st, "set")

    def e_DictComp(self, x, st):
        return self._comp(x, st, "dict")

    # -- iteration --------------------------------------------------------------
    def iterate(self, v, node, st, quiet=False):
        """abstract element obtained by iterating `v`"""
        if v.setlike and not quiet:
            self.emit("set-order", "iteration over a hash-ordered set", v, node)
        if v.tag == "enum" and isinstance(v.const, EnumClass):
            return AV(kinds=["enum"], pieces=[Piece("safe", "enum", (), None, None)])
        if v.kinds & {"list", "tuple", "set"} or v.fields is not None and not ("dict" in v.kinds):
            e = join(v.elem, join_all((v.fields or {}).values()) if v.kinds & {"tuple", "list"} else None)
            if v.cls is not None and "obj" in v.kinds:
                e = join(e, self.model_elem(v))
            if v.oid is not None and v.oid in st.heap:
                e = join(e, st.heap[v.oid].get("__elem__"))
            if e is None:
                return AV(kinds=["top"], regions=v.regions)
            return e
        if "dict" in v.kinds:
            if v.keys is not None:
                return v.keys
            return AV(kinds=["str"], pieces=[lit(k) for k in (v.fields or {}) if isinstance(k, str)] or [lit(None)])
        if "str" in v.kinds:
            return v.copy(const=None)
        if v.cls is not None and "obj" in v.kinds:
            m = v.cls.find_method("__iter__")
            if m is not None:
                r = self.call_function(m, [], {}, st, selfv=v, node=node)
                return self.iterate(r, node, st, quiet=True)
            model = self.model_elem(v)
            if model is not None:
                return model
        if v.elem is not None:
            return v.elem
        return AV(kinds=["top"], regions=v.regions, pieces=v.pieces)

    def model_elem(self, v):
        sch = self.schema.get(v.cls.name) if v.cls is not None else None
        if sch and "__elem__" in sch:
            return self.from_schema(sch["__elem__"], v)
        for c in (v.cls.mro() if v.cls is not None else []):
            if not isinstance(c, str):
                sch = self.schema.get(c.name)
                if sch and "__elem__" in sch:
                    return self.from_schema(sch["__elem__"], v)
        return None

    # -- attributes ---------------------------------------------------------------
    def e_Attribute(self, x, st):
        base = self.eval(x.value, st)
        return self.load_attr(base, x.attr, st, x)

    def load_attr(self, base, attr, st, node):
        if "super" in base.kinds and base.cls is not None and base.selfv is not None and base.selfv.cls is not None:
            m = base.selfv.cls.find_method(attr, after=base.cls) if base.cls in base.selfv.cls.mro() else None
            if m is not None:
                return AV(kinds=["func"], fn=m, selfv=base.selfv)
            return AV(kinds=["func"], fn=("method", base.selfv, attr))
        # module attribute
        if "module" in base.kinds and isinstance(base.const, tuple):
            return self._global_name(base.const[1], attr)
        if base.fn is not None and isinstance(base.fn, tuple) and base.fn[0] == "external":
            return AV(kinds=["func"], fn=("external", f"{base.fn[1]}.{attr}"))
        if base.fn is not None and isinstance(base.fn, tuple) and base.fn[0] == "builtin":
            return AV(kinds=["func"], fn=("external", f"builtins.{base.fn[1]}.{attr}"))
        # heap object
        if base.oid is not None and base.oid in st.heap and attr in st.heap[base.oid]:
            v = st.heap[base.oid][attr]
            if base.oid == "self":
                stale = [r for r in v.regions if r.startswith("S:")]
                if stale:
                    self.emit("stale-read", attr, v, node)
            return v
        if "enum" in base.kinds:
            if attr == "value":
                if isinstance(base.const, EnumMember):
                    return const_av(base.const.value).copy(pieces=[Piece("safe", "enum", (), None, None)])
                return AV(kinds=["str"], pieces=[Piece("safe", "enum", (), None, None)])
            if attr == "name":
                return AV(kinds=["str"], pieces=[Piece("safe", "enum", (), None, None)])
        if base.tag == "enum" and isinstance(base.const, EnumClass):
            m = base.const.by_name(attr)
            if m is not None:
                return AV(kinds=["enum"], const=m, pieces=[Piece("safe", "enum", (), None, None)])
        if "class" in base.kinds and base.cls is not None:
            m = base.cls.find_method(attr)
            if m is not None:
                return AV(kinds=["func"], fn=m, selfv=base if m.kind == "classmethod" else None)
            c, v = base.cls.find_class_attr(attr)
            if c is not None:
                return self.class_attr(c, attr, v)
            return TOP
        if base.cls is not None and ("obj" in base.kinds or base.oid is not None):
            # property / method / class attribute / schema
            m = base.cls.find_method(attr)
            if m is not None:
                if m.kind == "property":
                    return self.call_function(m, [], {}, st, selfv=base, node=node)
                return AV(kinds=["func"], fn=m, selfv=base)
            sv = self.schema_attr(base, attr)
            if sv is not None:
                return sv
            if isinstance(base.const, Inst):
                try:
                    val = self.folder.eval_in(self.stack[-1].module, ast.Attribute(
                        value=ast.Name(id="__x", ctx=ast.Load()), attr=attr, ctx=ast.Load()), {"__x": base.const})
                    return self.lift(val, next(iter(base.regions), "G:?"))
                except AnalysisError:
                    pass
            c, v = base.cls.find_class_attr(attr)
            if c is not None:
                return self.class_attr(c, attr, v)
            ext = base.cls.external_bases()
            if base.kinds & {"list", "dict", "set"} or any(b.split(".")[-1] in ("BeautifulSoup", "HTMLParser", "list",
                                                                                   "dict", "deque") for b in ext):
                return AV(kinds=["func"], fn=("method", base, attr))
            if base.oid is not None:
                return AV(kinds=["top"], regions=base.regions)
            return AV(kinds=["top"], regions=base.regions, pieces=[Piece("data", "unknown", (), None, None)])
        if base.tag in ("soup", "tag"):
            if attr in ("attrs",):
                return AV(kinds=["dict"], tag="tagattrs", regions=base.regions)
            if attr in ("string", "name", "text"):
                return AV(kinds=["str", "none"], pieces=[Piece("data", "doc", (), None, None)])
            if attr in ("parent", "body", "tt", "head"):
                return AV(kinds=["ext", "none"], tag="tag", regions=base.regions)
            if attr in ("contents", "children", "parents", "descendants"):
                return AV(kinds=["list"], regions=["F"], elem=AV(kinds=["ext"], tag="tag", regions=base.regions))
            if attr == "layout_info":
                return AV(kinds=["obj", "none"], cls=self.index.find_class("Layout"), regions=["F"], tag="model")
            return AV(kinds=["func"], fn=("method", base, attr))
        # methods of builtin values
        return AV(kinds=["func"], fn=("method", base, attr))

    def class_attr(self, c, attr, expr):
        region = f"G:{c.module.path}:{c.name}.{attr}"
        try:
            val = self.folder.eval_in(c.module, expr)
        except AnalysisError:
            return AV(kinds=["top"], regions=[region])
        return self.lift(val, region)

    def schema_attr(self, base, attr):
        for c in base.cls.mro():
            if isinstance(c, str):
                continue
            sch = self.schema.get(c.name)
            if sch and attr in sch:
                return self.from_schema(sch[attr], base)
        return None

    def from_schema(self, spec, owner):
        """spec: ('num',) | ('bool',) | ('data', src) | ('obj', ClassName) | ('opt', spec) | ('list', spec)
        | ('dict', keyspec, valspec) | ('enum',) | ('str-safe',)"""
        regs = owner.regions
        k = spec[0]
        if k == "num":
            return NUM
        if k == "bool":
            return BOOL
        if k == "enum":
            return AV(kinds=["enum"], pieces=[Piece("safe", "enum", (), None, None)])
        if k == "data":
            return AV(kinds=["str"], regions=regs, pieces=[Piece("data", spec[1], (), None, None)], tag="data")
        if k == "anydata":
            # str or dict of data, decided by use
            inner = AV(kinds=["str"], regions=regs, pieces=[Piece("data", spec[2], (), None, None)], tag="data")
            return AV(kinds=["str", "dict"], regions=regs, pieces=[Piece("data", spec[1], (), None, None)], elem=inner,
                      keys=AV(kinds=["str"], pieces=[Piece("data", "style-key", (), None, None)]), tag="data")
        if k == "obj":
            return AV(kinds=["obj"], cls=self.index.find_class(spec[1]), regions=regs, tag="model")
        if k == "opt":
            v = self.from_schema(spec[1], owner)
            return v.copy(kinds=v.kinds | {"none"})
        if k == "list":
            return AV(kinds=["list"], regions=regs, elem=self.from_schema(spec[1], owner), tag="model")
        if k == "dict":
            return AV(kinds=["dict"], regions=regs, keys=self.from_schema(spec[1], owner),
                      elem=self.from_schema(spec[2], owner), tag="model")
        raise AnalysisError(f"absint: bad schema spec {spec}")

    # -- subscripts ------------------------------------------------------------------
    def e_Subscript(self, x, st):
        base = self.eval(x.value, st)
        if isinstance(x.slice, ast.Slice):
            self.e_Slice(x.slice, st)
            if base.kinds & {"list", "tuple"}:
                return base.copy(regions=["F"], fields=None, elem=join(base.elem, join_all((base.fields or {}).values())))
            return base.copy(const=None)
        key = self.eval(x.slice, st)
        return self.load_item(base, key, st, x)

    def load_item(self, base, key, st, node):
        if base.cls is not None and "obj" in base.kinds:
            m = base.cls.find_method("__getitem__")
            if m is not None and not any(isinstance(c, str) and c in ("list", "dict") for c in base.cls.mro()[:1]):
                if m.module.path.startswith("pycaption") and base.oid is not None:
                    return self.call_function(m, [key], {}, st, selfv=base, node=node)
            me = self.model_elem(base)
            if me is not None:
                return me
        if base.fields is not None and key.const is not None and key.const in base.fields:
            return base.fields[key.const]
        if base.oid is not None and base.oid in st.heap and "__elem__" in st.heap[base.oid]:
            return st.heap[base.oid]["__elem__"]
        if base.tag in ("tag", "soup", "tagattrs"):
            return AV(kinds=["str"], pieces=[Piece("data", "doc", (), None, None)])
        if base.tag == "match":
            return AV(kinds=["str", "none"], pieces=[Piece("data", "doc", (), None, None)])
        if "str" in base.kinds and not (base.kinds & {"dict", "list", "tuple"}):
            return base.copy(const=None)
        if base.tag == "data" and "dict" in base.kinds:
            # model data used as a dictionary (style content)
            srcname = "class" if key.const == "class" else "style-value"
            return AV(kinds=["str"], regions=base.regions, pieces=[Piece("data", srcname, (), None, None)], tag="data")
        e = join(base.elem, join_all((base.fields or {}).values()) if base.fields else None)
        if e is not None:
            return e
        return AV(kinds=["top"], regions=base.regions, pieces=base.pieces)

    # -- calls -------------------------------------------------------------------------
    def e_Call(self, x, st):
        f = self.eval(x.func, st)
        args = []
        for a in x.args:
            v = self.eval(a.value if isinstance(a, ast.Starred) else a, st)
            if isinstance(a, ast.Starred):
                v = self.iterate(v, a, st, quiet=True)
            args.append(v)
        kwargs = {}
        for k in x.keywords:
            v = self.eval(k.value, st)
            if k.arg is None:
                if v.fields:
                    kwargs.update(v.fields)
                if v.elem is not None:
                    kwargs["**"] = join(kwargs.get("**"), v.elem)
                elif not v.fields:
                    kwargs["**"] = join(kwargs.get("**"), AV(kinds=["top"], regions=v.regions, pieces=v.pieces))
            else:
                kwargs[k.arg] = v
        return self.apply(f, args, kwargs, st, x)

    def apply(self, f, args, kwargs, st, node):
        fns = f.fn if isinstance(f.fn, list) else [f.fn]
        out = None
        for fn in fns:
            out = join(out, self.apply1(f, fn, args, kwargs, st, node))
        return out if out is not None else TOP

    def apply1(self, f, fn, args, kwargs, st, node):
        from ..core.index import FunctionInfo
        if fn is None:
            if "class" in f.kinds and f.cls is not None:
                return self.instantiate(f, args, kwargs, st, node)
            if f.tag == "enum" and isinstance(f.const, EnumClass):
                return AV(kinds=["enum"], pieces=[Piece("safe", "enum", (), None, None)])
            self.counters["calls_unresolved"] += 1
            self.unresolved.append(short(node, 80))
            return self._havoc(args, kwargs, None)
        if isinstance(fn, FunctionInfo):
            selfv = f.selfv
            if fn.kind in ("method",) and selfv is None and args:
                selfv, args = args[0], args[1:]
            if fn.kind == "staticmethod":
                selfv = None
            kw = {k: v for k, v in kwargs.items() if k != "**"}
            return self.call_function(fn, args, kw, st, selfv=selfv, node=node)
        kind = fn[0]
        if kind == "lambda":
            _, lam, env, frame = fn
            sub = State(dict(env), st.heap)
            for p, a in zip([a.arg for a in lam.args.args], args):
                sub.env[p] = a
            self.stack.append(frame)
            try:
                r = self.eval(lam.body, sub)
            finally:
                self.stack.pop()
            st.heap = sub.heap
            return r
        if kind == "localdef":
            _, fdef, env = fn
            sub = State(dict(env), st.heap)
            for p, a in zip([a.arg for a in fdef.args.args], args):
                sub.env[p] = a
            fr = self.stack[-1]
            saved, saved_h = fr.returns, getattr(fr, "heaps", None)
            fr.returns = None
            fr.heaps = []
            self.exec_block(fdef.body, sub)
            r = fr.returns if fr.returns is not None else NONE
            fr.returns = saved
            fr.heaps = saved_h if saved_h is not None else []
            return r
        if kind == "builtin":
            return self.builtin(fn[1], args, kwargs, st, node)
        if kind == "external":
            return self.external(fn[1], args, kwargs, st, node)
        if kind == "method":
            return self.method(fn[1], fn[2], args, kwargs, st, node)
        if kind == "super":
            _, cls_after, selfv = fn
            return TOP
        raise AnalysisError(f"absint: cannot apply {kind}")

    def instantiate(self, f, args, kwargs, st, node):
        cls = f.cls
        ext = cls.external_bases()
        init = cls.find_method("__init__")
        oid = self.new_oid(cls.name)
        st.heap[oid] = {}
        kinds = ["obj"]
        extra = {}
        if any(b.split(".")[-1] in ("list", "deque") for b in ext):
            kinds.append("list")
        if any(b.split(".")[-1] in ("dict", "defaultdict", "OrderedDict") for b in ext):
            kinds.append("dict")
        obj = AV(kinds=kinds, cls=cls, regions=["F"], oid=oid, **extra)
        if init is not None:
            kw = {k: v for k, v in kwargs.items() if k != "**"}
            self.call_function(init, args, kw, st, selfv=obj, node=node)
        elif args and "list" in kinds:
            obj = obj.copy(elem=self.iterate(args[0], node, st, quiet=True))
        # list subclasses: the constructor argument provides the elements
        if "list" in kinds and args:
            it = args[0]
            if it.kinds & {"list", "tuple", "set"} or it.elem is not None:
                obj = obj.copy(elem=join(obj.elem, self.iterate(it, node, st, quiet=True)))
        return obj

    def e_Await(self, x, st):
        return self.eval(x.value, st)

    # the summaries of builtins / externals / methods live in absint_lib
    def builtin(self, name, args, kwargs, st, node):
        from . import absint_lib
        return absint_lib.builtin(self, name, args, kwargs, st, node)

    def external(self, name, args, kwargs, st, node):
        from . import absint_lib
        return absint_lib.external(self, name, args, kwargs, st, node)

    def method(self, base, name, args, kwargs, st, node):
        from . import absint_lib
        return absint_lib.method(self, base, name, args, kwargs, st, node)


_MISSING = object()


def _load(t):
    import copy
    t = copy.deepcopy(t)
    for n in ast.walk(t):
        if hasattr(n, "ctx"):
            n.ctx = ast.Load()
    return t
