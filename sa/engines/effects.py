"""Drivers and rules on top of absint: R-COPY, R-STATE, R-GLOBALMUT,
R-HASHORDER, R-NONDET, and helpers to run an entry point."""
import ast

from ..core.tree import AnalysisError
from ..core.astutil import src, short, walk_no_nested
from ..core.constfold import Folder
from ..spec.model_schema import SCHEMA
from . import structural as S
from .absint import Interp, AV, State, NONE, TOP, BOOL, NUM, Piece, join


def validate_schema(index):
    for cname, attrs in SCHEMA.items():
        cls = index.find_class(cname)
        inits, _ = S.init_attrs(cls)
        for a in attrs:
            if a.startswith("__"):
                continue
            if a not in inits:
                raise AnalysisError(f"model schema: {cname}.{a} is no longer initialised in __init__")


def model_param(index, cname, region):
    return AV(kinds=["obj"], cls=index.find_class(cname), regions=[region], tag="model")


def option_str(name):
    return AV(kinds=["str", "none"], regions=[], pieces=[Piece("data", f"option:{name}", (), None, None)])


def relabel(v, region, heap, seen=None):
    seen = seen if seen is not None else set()
    if v is None or id(v) in seen:
        return v
    seen.add(id(v))
    nv = v.copy(regions=[region])
    nv.elem = relabel(v.elem, region, heap, seen)
    if v.fields is not None:
        nv.fields = {k: relabel(x, region, heap, seen) for k, x in v.fields.items()}
    if v.oid is not None and v.oid in heap:
        heap[v.oid] = {k: relabel(x, region, heap, seen) for k, x in heap[v.oid].items()}
    return nv


class EntryRun:
    def __init__(self, interp, cls, entry, ret, state, init_attrs):
        self.I = interp
        self.cls = cls
        self.entry = entry
        self.ret = ret
        self.state = state
        self.init_attrs = init_attrs

    def events(self, kind):
        return [e for e in self.I.events if e.kind == kind]


def run_entry(ctx, cls, entry_name, params, init_kwargs=None):
    """Abstractly run `cls().entry(**params)`: __init__ first (its results are
    relabelled as state left over from construction / an earlier call), then the
    entry method."""
    folder = ctx.memo("folder", lambda: Folder(ctx.index))
    I = Interp(ctx.index, folder, schema=SCHEMA)
    st = State({}, {"self": {}})
    selfv = AV(kinds=["obj"], cls=cls, regions=["F"], oid="self")
    init = cls.find_method("__init__")
    # class-level attributes act as initial instance attributes
    for c in reversed([c for c in cls.mro() if not isinstance(c, str)]):
        for name, expr in c.class_attrs.items():
            try:
                val = folder.eval_in(c.module, expr)
                st.heap["self"][name] = I.lift(val, f"G:{c.module.path}:{c.name}.{name}")
            except AnalysisError:
                pass
    if init is not None:
        from .absint import Frame
        I.call_function(init, [], dict(init_kwargs or {}), st, selfv=selfv)
    init_attrs = sorted(st.heap["self"])
    n_init_events = len(I.events)
    for a in list(st.heap["self"]):
        v = st.heap["self"][a]
        if any(r.startswith("G:") for r in v.regions) and not (v.kinds & {"obj"} and v.oid):
            continue
        st.heap["self"][a] = relabel(v, f"S:{a}", st.heap)
    del I.events[:n_init_events]
    entry = cls.find_method(entry_name)
    if entry is None:
        raise AnalysisError(f"{cls.name}.{entry_name} not found")
    ret = I.call_function(entry, [], dict(params), st, selfv=selfv)
    return EntryRun(I, cls, entry, ret, st, init_attrs)


def where_of(e):
    return (e.fn, e.node) if e.fn is not None and e.node is not None else ("pycaption", "<entry>")


# --------------------------------------------------------------------------------
def rule_copy(report, run, param_region, label, clause=None):
    """R-COPY: no mutation of anything reachable from the entry parameter."""
    hits = [e for e in run.events("mutate") if param_region in (e.extra or {}).get("regions", [])]
    seen = set()
    for e in hits:
        key = (e.fn.key if e.fn else "?", short(e.node, 100))
        if key in seen:
            continue
        seen.add(key)
        report.violation("R-COPY", where_of(e), f"{run.cls.name}.{run.entry.name}: mutation of the caller's object: "
                         f"{short(e.node, 90)}", {"how": e.what, "regions": e.extra.get("regions")}, clause)
    if not hits:
        report.ok("R-COPY", run.entry, label,
                 {"mutation_sites_seen": len(run.events("mutate")), "on_input": len(hits),
                  "functions_inlined": len(run.I.visited_functions)}, clause)


def rule_globalmut(report, run, label, clause=None, allow=()):
    hits = [e for e in run.events("mutate") if any(r.startswith("G:") for r in (e.extra or {}).get("regions", []))]
    seen = set()
    for e in hits:
        regs = [r for r in e.extra["regions"] if r.startswith("G:")]
        if all(any(a in r for a in allow) for r in regs):
            continue
        key = (e.fn.key if e.fn else "?", short(e.node, 100))
        if key in seen:
            continue
        seen.add(key)
        report.violation("R-GLOBALMUT", where_of(e), f"{run.cls.name}.{run.entry.name}: mutation of a shared object "
                         f"({', '.join(regs)}): {short(e.node, 80)}", {"how": e.what}, clause)
    if not seen:
        report.ok("R-GLOBALMUT", run.entry, label, {"shared_object_mutations": 0}, clause)


def rule_state(report, run, label, clause=None, config_ok=True):
    """R-STATE: every self attribute that is written or mutated during the
    entry call and is also read in it must not be read / mutated in its stale
    (left-over) value."""
    written = {e.what for e in run.events("self-write")}
    stale_mut = {}
    for e in run.events("mutate"):
        for r in (e.extra or {}).get("regions", []):
            if r.startswith("S:"):
                stale_mut.setdefault(r[2:], []).append(e)
    stale_reads = {}
    for e in run.events("stale-read"):
        stale_reads.setdefault(e.what, []).append(e)
    state_attrs = sorted(written | set(stale_mut))
    bad = []
    for a in state_attrs:
        sites = []
        if a in stale_mut:
            sites += [("mutated in place", e) for e in stale_mut[a]]
        if a in written and a in stale_reads:
            sites += [("read before it is re-initialised", e) for e in stale_reads[a]]
        if sites:
            how, e = sites[0]
            bad.append(a)
            report.violation("R-STATE", where_of(e), f"{run.cls.name}.{a}",
                             {"entry": f"{run.cls.name}.{run.entry.name}", "problem": f"left-over value {how}",
                              "first_site": short(e.node, 90), "sites": len(sites),
                              "why": "the value survives from __init__ or an earlier call: a second call on the same "
                                     "object starts from a different state"}, clause)
    if not bad:
        report.ok("R-STATE", run.entry, label,
                 {"state_attributes": state_attrs, "configuration_attributes_read": sorted(set(stale_reads) - set(state_attrs)),
                  "stale": bad}, clause)
    return state_attrs, bad


def _pop_guarded(node, fn):
    """s.pop() on a set that has exactly one element at that point: inside `if len(s) == 1`
    (the size may be held in a local), or after an `if len(s) != 1: return/raise/continue`."""
    from ..core.astutil import resolve_local
    if fn is None:
        return False
    target = src(node.func.value) if isinstance(node, ast.Call) and isinstance(node.func, ast.Attribute) else None
    if target is None:
        return False

    def size_is_one(test):
        t = resolve_local(fn, test, keep=(target,))
        txt = src(t)
        if txt in (f"len({target}) == 1", f"1 == len({target})"):
            return True
        if txt in (f"len({target}) != 1", f"1 != len({target})", f"not len({target}) == 1"):
            return False
        return None

    def contains(st):
        return any(x is node for x in walk_no_nested(st))

    def visit(body):
        established = False
        for st in body:
            if contains(st):
                if established:
                    return True
                if isinstance(st, ast.If):
                    v = size_is_one(st.test)
                    if v is True and any(contains(x) for x in st.body):
                        return True
                    if v is False and any(contains(x) for x in st.orelse):
                        return True
                    return visit(st.body) or visit(st.orelse)
                for blk in ("body", "orelse", "finalbody"):
                    if isinstance(getattr(st, blk, None), list) and visit(getattr(st, blk)):
                        return True
                return False
            if isinstance(st, ast.If) and size_is_one(st.test) is False and st.body \
                    and isinstance(st.body[-1], (ast.Return, ast.Raise, ast.Continue, ast.Break)) and not st.orelse:
                established = True
            elif isinstance(st, (ast.Assign, ast.AugAssign, ast.Expr)) and target in src(st) and established:
                established = False      # the set may have been changed
        return False
    return visit(fn.node.body)


def rule_hashorder(report, run, label, clause=None):
    hits = []
    for e in run.events("set-order"):
        if "pop" in e.what and _pop_guarded(e.node, e.fn):
            continue
        hits.append(e)
    seen = set()
    for e in hits:
        key = (e.fn.key if e.fn else "?", short(e.node, 100))
        if key in seen:
            continue
        seen.add(key)
        report.violation("R-HASHORDER", where_of(e), f"{run.cls.name}.{run.entry.name}: {e.what}: {short(e.node, 80)}",
                         {"why": "the order of a set of strings depends on PYTHONHASHSEED"}, clause)
    if not seen:
        report.ok("R-HASHORDER", run.entry, label, {"order_sensitive_uses_of_sets": 0}, clause)


def rule_nondet(report, run, label, clause=None):
    hits = run.events("nondet")
    seen = set()
    for e in hits:
        key = (e.fn.key if e.fn else "?", e.what)
        if key in seen:
            continue
        seen.add(key)
        report.violation("R-NONDET", where_of(e), f"{run.cls.name}.{run.entry.name}: call of {e.what}", None, clause)
    if not seen:
        report.ok("R-NONDET", run.entry, label, None, clause)
    # calls that change what the rest of the process runs under (recursion limit, locale, working directory, ...): the outcome
    # of a later call then depends on whether this one came first
    seen = set()
    for e in run.events("procstate"):
        key = (e.fn.key if e.fn else "?", e.what)
        if key in seen:
            continue
        seen.add(key)
        report.violation("R-PROCSTATE", where_of(e), f"{run.cls.name}.{run.entry.name}: call of {e.what}",
                         {"why": "changes the state of the whole process: what a later read or write does (or whether it raises) "
                                 "then depends on this call having happened"}, clause)
    if not seen:
        report.ok("R-PROCSTATE", run.entry, label.replace("non-deterministic", "process-state changing"), None, clause)


def reachable_regions(v, heap, depth=8, path="result", seen=None, out=None):
    """[(region, access path)] of every MUTABLE value reachable from v through fields, elements and
    instance attributes on the abstract heap"""
    seen = set() if seen is None else seen
    out = [] if out is None else out
    if v is None or depth < 0 or id(v) in seen:
        return out
    seen.add(id(v))
    if v.kinds & {"obj", "dict", "list", "set", "top"}:
        for r in v.regions:
            out.append((r, path))
    if v.fields:
        for k, f in v.fields.items():
            reachable_regions(f, heap, depth - 1, f"{path}.{k}" if isinstance(k, str) else f"{path}[{k}]", seen, out)
    if v.elem is not None:
        reachable_regions(v.elem, heap, depth - 1, f"{path}[*]", seen, out)
    if v.oid is not None and v.oid in heap:
        for a, f in heap[v.oid].items():
            reachable_regions(f, heap, depth - 1, f"{path}.{a}", seen, out)
    return out


def rule_result_alias(report, run, label, clause=None):
    """R-ALIAS: the value an entry point returns shares no mutable object with module- or class-level
    state (two results would otherwise share it: editing one changes the other and every later one)."""
    hits = {}
    for r, path in reachable_regions(run.ret, run.state.heap):
        if r.startswith("G:"):
            hits.setdefault(r, path)
    if hits:
        for r, path in sorted(hits.items())[:4]:
            report.violation("R-ALIAS", run.entry, f"{run.cls.name}.{run.entry.name}: the result holds the shared object {r[2:]}",
                             {"reached_as": path, "why": "a module-/class-level mutable object inside a returned caption set is "
                                                         "shared by every result of every call"}, clause)
    else:
        report.ok("R-ALIAS", run.entry, label, {"shared_objects_reachable_from_the_result": 0}, clause)
