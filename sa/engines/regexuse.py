"""Locate regular expressions used by a function and how they are applied."""
import ast

from ..core.astutil import walk_no_nested, call_name
from ..core.constfold import RegexConst
from ..core.tree import AnalysisError

RE_FUNCS = {"search", "match", "fullmatch", "findall", "sub", "finditer", "split"}


class RegexUse:
    def __init__(self, pattern, flags, method, node, via):
        self.pattern = pattern
        self.flags = flags
        self.method = method     # search | match | fullmatch | findall | sub ...
        self.node = node
        self.via = via           # description

    @property
    def mode(self):
        return {"search": "search", "match": "match", "fullmatch": "full", "findall": "search",
                "sub": "search", "finditer": "search", "split": "search"}[self.method]


def regex_uses(fn, folder):
    """All regex applications in `fn`: (compiled local).method(...),
    MODULE_CONST.method(...), re.method(pattern, ...)."""
    mod = fn.module
    local_compiled = {}
    uses = []
    for node in walk_no_nested(fn.node):
        if isinstance(node, ast.Assign) and len(node.targets) == 1 and isinstance(node.targets[0], ast.Name) \
                and isinstance(node.value, ast.Call) and call_name(node.value) == "re.compile":
            v = _fold(folder, mod, node.value)
            if isinstance(v, RegexConst):
                local_compiled[node.targets[0].id] = v
    for node in walk_no_nested(fn.node):
        if not isinstance(node, ast.Call) or not isinstance(node.func, ast.Attribute):
            continue
        meth = node.func.attr
        if meth not in RE_FUNCS:
            continue
        recv = node.func.value
        if isinstance(recv, ast.Name) and recv.id == "re":
            b = folder.index.resolve(mod, "re")
            if b is not None and b.kind == "external" and b.target == "re" and node.args:
                p = _fold(folder, mod, node.args[0])
                if isinstance(p, str):
                    uses.append(RegexUse(p, 0, meth, node, f"re.{meth}(literal)"))
            continue
        if isinstance(recv, ast.Name) and recv.id in local_compiled:
            rc = local_compiled[recv.id]
            uses.append(RegexUse(rc.pattern, rc.flags, meth, node, f"local {recv.id}"))
            continue
        if isinstance(recv, ast.Call) and call_name(recv) == "re.compile":
            rc = _fold(folder, mod, recv)
            if isinstance(rc, RegexConst):
                uses.append(RegexUse(rc.pattern, rc.flags, meth, node, "inline re.compile"))
            continue
        if isinstance(recv, ast.Name):
            b = folder.index.resolve(mod, recv.id)
            if b is not None and b.kind == "const":
                v = folder.try_value(b.module, b.name)
                if isinstance(v, RegexConst):
                    uses.append(RegexUse(v.pattern, v.flags, meth, node, f"{b.module.name}.{b.name}"))
    return uses


def _fold(folder, mod, expr):
    try:
        return folder.eval_in(mod, expr)
    except AnalysisError:
        return None
