"""Locate regular expressions used by a function and how they are applied."""
import ast

from ..core.astutil import walk_no_nested, call_name
from ..core.constfold import RegexConst
from ..core.tree import AnalysisError

RE_FUNCS = {"search", "match", "fullmatch", "findall", "sub", "finditer", "split"}


class RegexUse:
    def __init__(self, pattern, flags, method, node, via):
        self.pattern = pattern
        self.flags = flags
        self.method = method     # search | match | fullmatch | findall | sub ...
        self.node = node
        self.via = via           # description

    @property
    def mode(self):
        return {"search": "search", "match": "match", "fullmatch": "full", "findall": "search",
                "sub": "search", "finditer": "search", "split": "search"}[self.method]


def regex_uses(fn, folder):
    """All regex applications in `fn`: (compiled local).method(...), MODULE_CONST.method(...),
    self.CONST / cls.CONST .method(...), re.method(pattern, ...).  Receivers and pattern
    arguments are first normalised through the function's single-assignment locals, so a
    pattern text held in (or assembled through) locals is found as well."""
    from ..core.astutil import resolve_local
    mod = fn.module
    uses = []
    for node in walk_no_nested(fn.node):
        if not isinstance(node, ast.Call) or not isinstance(node.func, ast.Attribute):
            continue
        meth = node.func.attr
        if meth not in RE_FUNCS:
            continue
        recv0 = node.func.value
        if isinstance(recv0, ast.Name) and recv0.id == "re":
            b = folder.index.resolve(mod, "re")
            if b is not None and b.kind == "external" and b.target == "re" and node.args:
                p = _fold(folder, mod, resolve_local(fn, node.args[0]))
                if isinstance(p, str):
                    fl = 0
                    if meth in ("search", "match", "fullmatch", "findall", "finditer") and len(node.args) > 2:
                        f2 = _fold(folder, mod, resolve_local(fn, node.args[2]))
                        fl = f2 if isinstance(f2, int) else 0
                    for k in node.keywords:
                        if k.arg == "flags":
                            f2 = _fold(folder, mod, resolve_local(fn, k.value))
                            fl = f2 if isinstance(f2, int) else 0
                    uses.append(RegexUse(p, fl, meth, node, f"re.{meth}(pattern)"))
                elif isinstance(p, RegexConst):
                    uses.append(RegexUse(p.pattern, p.flags, meth, node, f"re.{meth}(compiled)"))
            continue
        recv = resolve_local(fn, recv0)
        if isinstance(recv, ast.Call) and call_name(recv) == "re.compile":
            rc = _fold(folder, mod, recv)
            if isinstance(rc, RegexConst):
                via = f"local {recv0.id}" if isinstance(recv0, ast.Name) else "inline re.compile"
                uses.append(RegexUse(rc.pattern, rc.flags, meth, node, via))
            continue
        if isinstance(recv, ast.Name):
            b = folder.index.resolve(mod, recv.id)
            if b is not None and b.kind == "const":
                v = folder.try_value(b.module, b.name)
                if isinstance(v, RegexConst):
                    uses.append(RegexUse(v.pattern, v.flags, meth, node, f"{b.module.name}.{b.name}"))
            continue
        if isinstance(recv, ast.Attribute) and isinstance(recv.value, ast.Name) and recv.value.id in ("self", "cls") \
                and getattr(fn, "cls", None) is not None:
            c, v = fn.cls.find_class_attr(recv.attr)
            if c is not None:
                rc = _fold(folder, c.module, v)
                if isinstance(rc, RegexConst):
                    uses.append(RegexUse(rc.pattern, rc.flags, meth, node, f"{c.name}.{recv.attr}"))
    return uses


def _fold(folder, mod, expr):
    try:
        return folder.eval_in(mod, expr)
    except AnalysisError:
        return None
