"""E2 - regular-language engine.

re._parser AST (the very parser that interprets the repository's patterns at
run time)  ->  internal regex AST  ->  NFA (with ^, $, \\Z handled by a small
product: "nothing consumed yet" bit and an "end constraint" mode)  ->  lazily
determinised product search for inclusion / equality / intersection, each
returning a SHORTEST WITNESS string.

Alphabet: a finite set of representative characters.  Every ASCII character
stands for itself; the non-ASCII characters are partitioned by what the
constructs occurring in the analysed patterns can distinguish (\\d, \\s, \\w,
'.', negated classes): one representative each of non-ASCII digit, letter,
space, line separator and "other".  Non-ASCII literals occurring in a pattern
are added as their own symbols.
"""
import re
import re._constants as C
import re._parser as P
from collections import deque

from ..core.tree import AnalysisError

ASCII = [chr(i) for i in range(0x20, 0x7F)] + ["\n", "\r", "\t", "\x0b", "\x0c"]
REPS = {
    "nonascii_digit": "٣",    # ARABIC-INDIC DIGIT THREE: \d, \w in str patterns
    "nonascii_letter": "é",   # é: \w
    "nonascii_space": " ",    # NBSP: \s
    "line_separator": " ",    # \s; str.splitlines() boundary, but matched by '.'
    "nonascii_other": "☃",    # snowman: none of the categories
}
BASE_ALPHABET = ASCII + list(REPS.values())


def describe_alphabet(extra=()):
    return ("ASCII 0x20-0x7e, \\n \\r \\t \\v \\f, plus one representative each of non-ASCII digit (U+0663), "
            "letter (U+00E9), space (U+00A0), line separator (U+2028), other (U+2603)"
            + (f", plus literals {sorted(extra)!r}" if extra else ""))


# ---------------------------------------------------------------------------
# internal regex AST: tuples
#   ('set', frozenset(chars))   ('cat', [r...])   ('alt', [r...])
#   ('rep', r, lo, hi|None)     ('bol',) ('eol',) ('eos',)   ('grp', name_or_index, r)
EPS = ("cat", [])


def lit(s):
    return ("cat", [("set", frozenset(ch)) for ch in s])


def cset(chars):
    return ("set", frozenset(chars))


def cat(*rs):
    return ("cat", list(rs))


def alt(*rs):
    return ("alt", list(rs))


def rep(r, lo, hi=None):
    return ("rep", r, lo, hi)


def star(r):
    return ("rep", r, 0, None)


def plus(r):
    return ("rep", r, 1, None)


def opt(r):
    return ("rep", r, 0, 1)


class Alphabet:
    def __init__(self, chars):
        self.chars = list(dict.fromkeys(chars))
        self.set = frozenset(self.chars)

    def category(self, cat, unicode=True):
        def isdigit(ch):
            return ch.isdigit() if unicode else ch in "0123456789"

        def isspace(ch):
            return ch.isspace() if unicode else ch in " \t\n\r\x0b\x0c"

        def isword(ch):
            return (ch.isalnum() or ch == "_") if unicode else (ch.isascii() and (ch.isalnum() or ch == "_"))
        if cat == C.CATEGORY_DIGIT:
            return frozenset(c for c in self.chars if isdigit(c))
        if cat == C.CATEGORY_NOT_DIGIT:
            return frozenset(c for c in self.chars if not isdigit(c))
        if cat == C.CATEGORY_SPACE:
            return frozenset(c for c in self.chars if isspace(c))
        if cat == C.CATEGORY_NOT_SPACE:
            return frozenset(c for c in self.chars if not isspace(c))
        if cat == C.CATEGORY_WORD:
            return frozenset(c for c in self.chars if isword(c))
        if cat == C.CATEGORY_NOT_WORD:
            return frozenset(c for c in self.chars if not isword(c))
        raise AnalysisError(f"regexlang: unsupported category {cat}")


def literals_of(pattern, flags=0):
    """non-ASCII / unusual literal characters in a pattern (to extend the alphabet)."""
    out = set()

    def walk(sp):
        for op, arg in sp:
            if op in (C.LITERAL, C.NOT_LITERAL):
                out.add(chr(arg))
            elif op == C.IN:
                for o, a in arg:
                    if o == C.LITERAL:
                        out.add(chr(a))
                    elif o == C.RANGE:
                        out.add(chr(a[0]))
                        out.add(chr(a[1]))
            elif op == C.BRANCH:
                for s in arg[1]:
                    walk(s)
            elif op == C.SUBPATTERN:
                walk(arg[3])
            elif op in (C.MAX_REPEAT, C.MIN_REPEAT):
                walk(arg[2])
    walk(P.parse(pattern, flags))
    return out


def make_alphabet(*patterns, extra=""):
    chars = list(BASE_ALPHABET)
    for p in patterns:
        if isinstance(p, str):
            for ch in sorted(literals_of(p)):
                if ch not in chars:
                    chars.append(ch)
    for ch in extra:
        if ch not in chars:
            chars.append(ch)
    return Alphabet(chars)


def from_pattern(pattern, alphabet, flags=0):
    """Internal AST of an `re` pattern.  Returns (ast, groups) where groups maps
    group index and name -> sub-AST."""
    try:
        sp = P.parse(pattern, flags)
    except re.error as e:
        raise AnalysisError(f"regexlang: pattern does not compile: {e}")
    fl = sp.state.flags | flags
    if fl & re.MULTILINE:
        raise AnalysisError("regexlang: MULTILINE not supported")
    ignorecase = bool(fl & re.IGNORECASE)
    dotall = bool(fl & re.DOTALL)
    unicode = not (fl & re.ASCII)
    groups = {}
    names = {v: k for k, v in sp.state.groupdict.items()}

    def cs(chars):
        if ignorecase:
            more = set()
            for ch in chars:
                more.add(ch.lower())
                more.add(ch.upper())
            chars = frozenset(c for c in (set(chars) | more) if c in alphabet.set)
        return ("set", frozenset(chars))

    def conv(sub):
        items = []
        for op, arg in sub:
            if op == C.LITERAL:
                ch = chr(arg)
                if ch not in alphabet.set:
                    raise AnalysisError(f"regexlang: literal {ch!r} missing from alphabet")
                items.append(cs({ch}))
            elif op == C.NOT_LITERAL:
                items.append(cs(alphabet.set - {chr(arg)}))
            elif op == C.ANY:
                items.append(("set", alphabet.set if dotall else alphabet.set - {"\n"}))
            elif op == C.IN:
                acc = set()
                neg = False
                for o, a in arg:
                    if o == C.NEGATE:
                        neg = True
                    elif o == C.LITERAL:
                        acc.add(chr(a))
                    elif o == C.RANGE:
                        lo, hi = a
                        acc |= {c for c in alphabet.chars if lo <= ord(c) <= hi}
                    elif o == C.CATEGORY:
                        acc |= alphabet.category(a, unicode)
                    else:
                        raise AnalysisError(f"regexlang: unsupported set item {o}")
                if ignorecase:
                    acc |= {c.lower() for c in acc} | {c.upper() for c in acc}
                acc &= alphabet.set
                items.append(("set", frozenset(alphabet.set - acc if neg else acc)))
            elif op == C.BRANCH:
                items.append(("alt", [conv(s) for s in arg[1]]))
            elif op == C.SUBPATTERN:
                gid, add_f, del_f, body = arg
                if add_f or del_f:
                    raise AnalysisError("regexlang: inline flags not supported")
                r = conv(body)
                if gid is not None:
                    groups[gid] = r
                    if gid in names:
                        groups[names[gid]] = r
                    r = ("grp", gid, r)
                items.append(r)
            elif op in (C.MAX_REPEAT, C.MIN_REPEAT):
                lo, hi, body = arg
                items.append(("rep", conv(body), lo, None if hi == C.MAXREPEAT else hi))
            elif op == C.AT:
                if arg in (C.AT_BEGINNING, C.AT_BEGINNING_STRING):
                    items.append(("bol",))
                elif arg == C.AT_END:
                    items.append(("eol",))
                elif arg == C.AT_END_STRING:
                    items.append(("eos",))
                else:
                    raise AnalysisError(f"regexlang: unsupported anchor {arg}")
            elif op == C.CATEGORY:
                items.append(("set", alphabet.category(arg, unicode)))
            else:
                raise AnalysisError(f"regexlang: unsupported construct {op} (back-reference / look-around)")
        return ("cat", items)
    return conv(sp), groups


# ---------------------------------------------------------------------------
# NFA

class NFA:
    """States are ints; edges: eps[s] -> [(cond, t)] with cond in
    (None,'bol','eol','eos'); sym[s] -> [(charset, t)]."""

    def __init__(self):
        self.n = 0
        self.eps = []
        self.sym = []

    def new(self):
        self.eps.append([])
        self.sym.append([])
        self.n += 1
        return self.n - 1

    def build(self, r):
        """returns (start, end)"""
        k = r[0]
        if k == "set":
            s, t = self.new(), self.new()
            if r[1]:
                self.sym[s].append((r[1], t))
            return s, t
        if k == "cat":
            s = self.new()
            cur = s
            for x in r[1]:
                a, b = self.build(x)
                self.eps[cur].append((None, a))
                cur = b
            return s, cur
        if k == "alt":
            s, t = self.new(), self.new()
            for x in r[1]:
                a, b = self.build(x)
                self.eps[s].append((None, a))
                self.eps[b].append((None, t))
            return s, t
        if k == "grp":
            return self.build(r[2])
        if k == "rep":
            _, body, lo, hi = r
            s = self.new()
            cur = s
            for _i in range(lo):
                a, b = self.build(body)
                self.eps[cur].append((None, a))
                cur = b
            if hi is None:
                a, b = self.build(body)
                loop = self.new()
                self.eps[cur].append((None, loop))
                self.eps[loop].append((None, a))
                self.eps[b].append((None, loop))
                return s, loop
            end = self.new()
            self.eps[cur].append((None, end))
            for _i in range(hi - lo):
                a, b = self.build(body)
                self.eps[cur].append((None, a))
                cur = b
                self.eps[cur].append((None, end))
            return s, end
        if k in ("bol", "eol", "eos"):
            s, t = self.new(), self.new()
            self.eps[s].append((k, t))
            return s, t
        raise AnalysisError(f"regexlang: bad AST node {k}")


class Lang:
    """A regular language over `alphabet` given by an internal AST plus a
    matching mode: 'full' (whole string), 'match' (prefix), 'search'
    (anywhere).  Determinised lazily."""

    def __init__(self, ast, alphabet, mode="full", name=""):
        self.ast = ast
        self.alphabet = alphabet
        self.mode = mode
        self.name = name
        self.nfa = NFA()
        self.p0, self.pf = self.nfa.build(ast)
        self._closure_cache = {}
        self._step_cache = {}
        # configuration: (q, started, endmode)  q: nfa state | 'PRE' | 'POST'
        # endmode: 'N' none, 'L0' after $ nothing consumed since, 'L1' after $ one \n consumed,
        #          'S' after \Z (nothing may follow)

    def start(self):
        init = set()
        init.add((self.p0, 0, "N"))
        if self.mode == "search":
            init.add(("PRE", 0, "N"))
        return self._closure(frozenset(init))

    def _closure(self, confs):
        if confs in self._closure_cache:
            return self._closure_cache[confs]
        seen = set(confs)
        todo = list(confs)
        while todo:
            q, st, em = todo.pop()
            nxt = []
            if q == "PRE":
                nxt.append((self.p0, st, em))
            elif q == "POST":
                pass
            else:
                for cond, t in self.nfa.eps[q]:
                    if cond is None:
                        nxt.append((t, st, em))
                    elif cond == "bol":
                        if st == 0:
                            nxt.append((t, st, em))
                    elif cond == "eol":
                        if em == "N":
                            nxt.append((t, st, "L0"))
                        elif em in ("L0", "S"):
                            nxt.append((t, st, em))
                        # L1: a newline was consumed after an earlier $: position is the very end -> ok
                        elif em == "L1":
                            nxt.append((t, st, "S"))
                    elif cond == "eos":
                        if em in ("N", "L0", "S"):
                            nxt.append((t, st, "S"))
                        elif em == "L1":
                            nxt.append((t, st, "S"))
                if q == self.pf and self.mode in ("search", "match"):
                    nxt.append(("POST", st, em))
            for c in nxt:
                if c not in seen:
                    seen.add(c)
                    todo.append(c)
        res = frozenset(seen)
        self._closure_cache[confs] = res
        return res

    def step(self, confs, ch):
        key = (confs, ch)
        if key in self._step_cache:
            return self._step_cache[key]
        out = set()
        for q, st, em in confs:
            if em == "S":
                continue
            if em == "L1":
                continue
            if em == "L0" and ch != "\n":
                continue
            nem = "L1" if em == "L0" else "N"
            if q == "PRE":
                if em == "N":
                    out.add(("PRE", 1, "N"))
            elif q == "POST":
                out.add(("POST", 1, nem))
            else:
                for chars, t in self.nfa.sym[q]:
                    if ch in chars:
                        out.add((t, 1, nem))
        res = self._closure(frozenset(out))
        self._step_cache[key] = res
        return res

    def accepting(self, confs):
        for q, st, em in confs:
            if q == "POST":
                return True
            if q == self.pf:
                return True
        return False

    def accepts(self, s):
        cur = self.start()
        for ch in s:
            if ch not in self.alphabet.set:
                raise AnalysisError(f"regexlang: {ch!r} not in alphabet")
            cur = self.step(cur, ch)
            if not cur:
                return False
        return self.accepting(cur)


def lang_of_pattern(pattern, alphabet, mode, flags=0, name=""):
    ast_, groups = from_pattern(pattern, alphabet, flags)
    l = Lang(ast_, alphabet, mode, name or pattern)
    l.groups = groups
    return l


# ---------------------------------------------------------------------------
# decision procedures (shortest witness by BFS over the lazy product)

def difference_witness(a, b, limit=400000):
    """Shortest string in L(a) \\ L(b), or None if L(a) <= L(b)."""
    if a.alphabet.chars != b.alphabet.chars:
        raise AnalysisError("regexlang: languages over different alphabets")
    start = (a.start(), b.start())
    if a.accepting(start[0]) and not b.accepting(start[1]):
        return ""
    seen = {start}
    q = deque([(start, "")])
    n = 0
    while q:
        (sa, sb), w = q.popleft()
        for ch in a.alphabet.chars:
            na = a.step(sa, ch)
            if not na:
                continue
            nb = b.step(sb, ch)
            st = (na, nb)
            if st in seen:
                continue
            seen.add(st)
            n += 1
            if n > limit:
                raise AnalysisError("regexlang: product exploration limit reached")
            w2 = w + ch
            if a.accepting(na) and not b.accepting(nb):
                return w2
            q.append((st, w2))
    return None


def intersection_witness(a, b, limit=400000):
    start = (a.start(), b.start())
    if a.accepting(start[0]) and b.accepting(start[1]):
        return ""
    seen = {start}
    q = deque([(start, "")])
    n = 0
    while q:
        (sa, sb), w = q.popleft()
        for ch in a.alphabet.chars:
            na = a.step(sa, ch)
            nb = b.step(sb, ch)
            if not na or not nb:
                continue
            st = (na, nb)
            if st in seen:
                continue
            seen.add(st)
            n += 1
            if n > limit:
                raise AnalysisError("regexlang: product exploration limit reached")
            if a.accepting(na) and b.accepting(nb):
                return w + ch
            q.append((st, w + ch))
    return None


def some_member(a, limit=200000):
    start = a.start()
    if a.accepting(start):
        return ""
    seen = {start}
    q = deque([(start, "")])
    while q:
        s, w = q.popleft()
        for ch in a.alphabet.chars:
            n = a.step(s, ch)
            if not n or n in seen:
                continue
            seen.add(n)
            if a.accepting(n):
                return w + ch
            q.append((n, w + ch))
            if len(seen) > limit:
                raise AnalysisError("regexlang: exploration limit")
    return None


def equal_witness(a, b):
    """None if equal, else ('only_in_first'|'only_in_second', witness)."""
    w = difference_witness(a, b)
    if w is not None:
        return ("only_in_first", w)
    w = difference_witness(b, a)
    if w is not None:
        return ("only_in_second", w)
    return None


def dfa_size(a, limit=100000):
    start = a.start()
    seen = {start}
    todo = [start]
    while todo:
        s = todo.pop()
        for ch in a.alphabet.chars:
            n = a.step(s, ch)
            if n and n not in seen:
                seen.add(n)
                todo.append(n)
                if len(seen) > limit:
                    return limit
    return len(seen)


# ---------------------------------------------------------------------------
# format-language extraction

DIGIT = frozenset("0123456789")


def digits(lo, hi=None):
    return rep(("set", DIGIT), lo, hi)


def format_int(spec, nonneg=True):
    """Language of format(n, spec) for an integer n >= 0 (or any int)."""
    m = re.fullmatch(r"(0?)(\d*)(d?)", spec or "")
    if not m:
        raise AnalysisError(f"regexlang: unsupported integer format spec {spec!r}")
    zero, width, _ = m.groups()
    w = int(width) if width else 0
    if w and not zero:
        # space padded
        body = alt(*[cat(rep(cset(" "), w - k, w - k), digits(k, k)) for k in range(1, w)], digits(w, None)) \
            if w > 1 else digits(1, None)
    else:
        body = digits(max(w, 1), None)
    if nonneg:
        return body
    return cat(opt(cset("-")), body)
