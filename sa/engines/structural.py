"""Structural (syntax-tree) rules: R-EQHASH, R-IMMUT, R-DEFAULTS, direct R-GLOBALMUT.

Each rule inspects the resolved program (classes through the index, callee
names through import resolution) and reports constructs, never text positions.
"""
import ast

from ..core.astutil import src, short, walk_no_nested, attr_chain, call_name, is_self_attr
from ..core.tree import AnalysisError

MUTATOR_METHODS = {
    "append", "extend", "insert", "remove", "pop", "clear", "sort", "reverse",
    "update", "setdefault", "popitem", "add", "discard", "appendleft", "popleft",
    "extendleft", "rotate", "__setitem__", "__delitem__",
}
MUTABLE_FACTORY_NAMES = {"dict", "list", "set", "defaultdict", "deque", "OrderedDict", "Counter",
                         "bytearray"}


# --------------------------------------------------------------------------
# helpers

def init_attrs(cls):
    """Attributes assigned on self in __init__ (own or inherited), with
    setattr/getattr loops over constant name lists expanded.  Returns
    (ordered list, unresolved_reflection: bool)."""
    init = cls.find_method("__init__")
    if init is None:
        return [], False
    names = []
    unresolved = False
    selfname = init.params[0] if init.params else "self"
    const_lists = {}
    for node in walk_no_nested(init.node):
        if isinstance(node, ast.For) and isinstance(node.target, ast.Name) \
                and isinstance(node.iter, (ast.List, ast.Tuple)) \
                and all(isinstance(e, ast.Constant) and isinstance(e.value, str) for e in node.iter.elts):
            const_lists[node.target.id] = [e.value for e in node.iter.elts]
    for node in walk_no_nested(init.node):
        if isinstance(node, (ast.Assign, ast.AugAssign, ast.AnnAssign)):
            targets = node.targets if isinstance(node, ast.Assign) else [node.target]
            for t in targets:
                for tt in (t.elts if isinstance(t, (ast.Tuple, ast.List)) else [t]):
                    if is_self_attr(tt, selfname) and tt.attr not in names:
                        names.append(tt.attr)
        elif isinstance(node, ast.Call) and isinstance(node.func, ast.Name) and node.func.id == "setattr":
            if len(node.args) >= 2 and isinstance(node.args[0], ast.Name) and node.args[0].id == selfname:
                a = node.args[1]
                if isinstance(a, ast.Constant) and isinstance(a.value, str):
                    if a.value not in names:
                        names.append(a.value)
                elif isinstance(a, ast.Name) and a.id in const_lists:
                    for v in const_lists[a.id]:
                        if v not in names:
                            names.append(v)
                else:
                    unresolved = True
    return names, unresolved


def _self_attrs_read(node, selfname="self"):
    out = []
    for n in walk_no_nested(node):
        if is_self_attr(n, selfname) and isinstance(n.ctx, ast.Load):
            out.append(n.attr)
    return out


def _flatten_and(expr):
    if isinstance(expr, ast.BoolOp) and isinstance(expr.op, ast.And):
        out = []
        for v in expr.values:
            out.extend(_flatten_and(v))
        return out
    return [expr]


def _single_return_expr(fn):
    body = [s for s in fn.node.body
            if not (isinstance(s, ast.Expr) and isinstance(s.value, ast.Constant))]
    if len(body) == 1 and isinstance(body[0], ast.Return) and body[0].value is not None:
        return body[0].value
    return None


# --------------------------------------------------------------------------
# R-EQHASH

def rule_eqhash(report, cls, exceptions=None, clause=None, require_init_match=True):
    """attributes hashed <= attributes compared; compared == initialised minus
    exceptions; conjunction of same-attribute equalities; type test present;
    __hash__ defined wherever __eq__ is."""
    exceptions = exceptions or {}
    rule = "R-EQHASH"
    eq = cls.methods.get("__eq__")
    hs = cls.methods.get("__hash__")
    where_cls = (cls.module.path, cls.name, cls.node.lineno)
    if eq is None and hs is None:
        report.info(rule, where_cls, "no __eq__/__hash__ (identity semantics)", clause=clause)
        return
    report.check(eq is not None and hs is not None, rule, where_cls, "__eq__ and __hash__ both defined",
                 {"__eq__": eq is not None, "__hash__": hs is not None,
                  "why": "a class defining __eq__ without __hash__ is unhashable; the DFXP region table "
                         "and _OrderedSet need both"}, clause)
    if eq is None or hs is None:
        return
    report.covered(eq)
    report.covered(hs)
    sname = eq.params[0]
    oname = eq.params[1] if len(eq.params) > 1 else "other"
    expr = _single_return_expr(eq)
    if expr is None:
        raise AnalysisError(f"{eq.key}: __eq__ is not a single return expression; R-EQHASH cannot read it")
    conj = _flatten_and(expr)
    compared = []
    type_test = False
    bad = []
    for c in conj:
        if isinstance(c, ast.Name) and c.id == oname:
            continue  # truthiness guard `other and ...`
        if isinstance(c, ast.Compare) and len(c.ops) == 1:
            l, r = c.left, c.comparators[0]
            txt = src(c)
            if (isinstance(c.ops[0], (ast.Eq, ast.Is)) and isinstance(l, ast.Call) and isinstance(r, ast.Call)
                    and call_name(l) == "type" and call_name(r) == "type"):
                type_test = True
                continue
            if isinstance(c.ops[0], ast.Eq) and is_self_attr(l, sname) and is_self_attr(r, oname):
                if l.attr == r.attr:
                    compared.append(l.attr)
                else:
                    bad.append(f"compares different attributes: {txt}")
                continue
            if isinstance(c.ops[0], ast.Eq) and is_self_attr(r, sname) and is_self_attr(l, oname):
                if l.attr == r.attr:
                    compared.append(l.attr)
                else:
                    bad.append(f"compares different attributes: {txt}")
                continue
            raise AnalysisError(f"{eq.key}: __eq__ has a conjunct R-EQHASH cannot read: {txt}")
        if isinstance(c, ast.Call) and call_name(c) == "isinstance":
            type_test = True
            continue
        raise AnalysisError(f"{eq.key}: __eq__ has a conjunct R-EQHASH cannot read: {src(c)}")
    report.check(not bad, rule, eq, "__eq__ is a conjunction of same-attribute equalities",
                 {"problems": bad} if bad else {"compared": compared}, clause)
    report.check(type_test, rule, eq, "__eq__ tests the operand's type",
                 None if type_test else "no type(self) == type(other) / isinstance test", clause)
    hashed = sorted(set(_self_attrs_read(hs.node, hs.params[0])))
    inits_, _unres = init_attrs(cls)
    if any(a not in inits_ and a not in compared for a in hashed) and inits_:
        # __hash__ reads something that is not an instance attribute (a class-level table, a helper): not the spelling this
        # rule reads
        raise AnalysisError(f"{hs.key}: __hash__ reads {[a for a in hashed if a not in inits_ and a not in compared]}, "
                            "which __init__ never sets; R-EQHASH cannot read it")
    extra = [a for a in hashed if a not in compared]
    report.check(not extra, rule, hs, "attributes hashed are a subset of attributes compared",
                 {"hashed": hashed, "compared": compared, "hashed_but_not_compared": extra}, clause)
    if require_init_match:
        inits, unresolved = init_attrs(cls)
        if unresolved:
            raise AnalysisError(f"{cls.key}: __init__ uses setattr with a non-constant name")
        exc = exceptions.get(cls.name, {})
        expected = [a for a in inits if a not in exc]
        missing = [a for a in expected if a not in compared]
        surplus = [a for a in compared if a not in inits]
        report.check(not missing and not surplus, rule, eq,
                     "attributes compared == attributes initialised (minus documented exceptions)",
                     {"initialised": inits, "compared": compared, "not_compared": missing,
                      "compared_but_never_initialised": surplus, "exceptions": exc}, clause)
    ne = cls.methods.get("__ne__")
    if ne is not None:
        e = _single_return_expr(ne)
        ok = (e is not None and isinstance(e, ast.UnaryOp) and isinstance(e.op, ast.Not)
              and isinstance(e.operand, ast.Compare) and isinstance(e.operand.ops[0], ast.Eq))
        if not ok:
            raise AnalysisError(f"{ne.key}: __ne__ is not spelled `not (a == b)`; R-EQHASH cannot read it")
        report.ok(rule, ne, "__ne__ is the negation of __eq__", None, clause)


# --------------------------------------------------------------------------
# R-IMMUT

def _constructor_only(cls, index):
    """private methods of `cls` that are part of construction: every reference to the name anywhere in
    the package is a call `self.<name>(...)` made from __init__ of this class (or from another such helper)"""
    if index is None:
        return set()
    cand = {n for n, f in cls.methods.items() if n.startswith("_") and not n.startswith("__") and f.kind == "method"}
    refs = {n: [] for n in cand}
    for fn in index.all_functions():
        called = set()
        for node in walk_no_nested(fn.node):
            if isinstance(node, ast.Call) and isinstance(node.func, ast.Attribute) and node.func.attr in cand:
                called.add(id(node.func))
                ok = fn.cls is cls and isinstance(node.func.value, ast.Name) and fn.params \
                    and node.func.value.id == fn.params[0]
                refs[node.func.attr].append(fn.name if ok else None)
        for node in walk_no_nested(fn.node):
            if isinstance(node, ast.Attribute) and node.attr in cand and id(node) not in called:
                refs[node.attr].append(None)
            if isinstance(node, ast.Constant) and node.value in cand:
                refs[node.value].append(None)          # getattr(obj, "<name>") and the like
    only = set()
    changed = True
    while changed:
        changed = False
        for n in sorted(cand - only):
            if refs[n] and all(r == "__init__" or r in only for r in refs[n]):
                only.add(n)
                changed = True
    return only


def rule_immut_class(report, cls, fresh_ctor_methods=(), clause=None, index=None):
    """No method other than __init__ stores to an attribute/subscript of self
    or of a parameter; constructors listed in fresh_ctor_methods may store on
    a local bound to cls().  A private helper that only __init__ calls (on self) is part of
    construction: its stores to self are __init__'s."""
    rule = "R-IMMUT"
    n_methods = 0
    ctor_only = _constructor_only(cls, index)
    for name, fn in sorted(cls.methods.items()):
        n_methods += 1
        report.covered(fn)
        params = set(fn.params)
        kw = fn.node.args.kwonlyargs
        params |= {a.arg for a in kw}
        if fn.node.args.vararg:
            params.add(fn.node.args.vararg.arg)
        if fn.node.args.kwarg:
            params.add(fn.node.args.kwarg.arg)
        selfname = fn.params[0] if fn.params and fn.kind in ("method", "property", "setter") else None
        fresh = set()
        rebound = set()
        aliases = set()
        problems = []

        def rooted_in_state(e):
            """expression denotes (part of) the receiver's or a parameter's own state: an attribute/subscript chain
            rooted at self / a parameter / a known alias, possibly through `x or y` / conditional expressions"""
            if isinstance(e, (ast.Attribute, ast.Subscript)):
                b = e.value
                while isinstance(b, (ast.Attribute, ast.Subscript)):
                    b = b.value
                return isinstance(b, ast.Name) and (b.id == selfname or b.id in params or b.id in aliases)
            if isinstance(e, ast.Name):
                return e.id in aliases
            if isinstance(e, ast.BoolOp):
                return any(rooted_in_state(v) for v in e.values)
            if isinstance(e, ast.IfExp):
                return rooted_in_state(e.body) or rooted_in_state(e.orelse)
            return False
        for _pass in range(2):
            for node in walk_no_nested(fn.node):
                if isinstance(node, ast.Assign):
                    for t in node.targets:
                        if isinstance(t, ast.Name):
                            if isinstance(node.value, ast.Call) and isinstance(node.value.func, ast.Name) \
                                    and node.value.func.id in ("cls", cls.name):
                                fresh.add(t.id)
                            elif rooted_in_state(node.value):
                                aliases.add(t.id)
                            rebound.add(t.id)
        for node in walk_no_nested(fn.node):
            targets = []
            if isinstance(node, ast.Assign):
                targets = node.targets
            elif isinstance(node, (ast.AugAssign, ast.AnnAssign)):
                targets = [node.target]
            elif isinstance(node, ast.Delete):
                targets = node.targets
            flat = []
            for t in targets:
                flat.extend(t.elts if isinstance(t, (ast.Tuple, ast.List)) else [t])
            for t in flat:
                if isinstance(t, (ast.Attribute, ast.Subscript)):
                    base = t.value
                    while isinstance(base, (ast.Attribute, ast.Subscript)):
                        base = base.value
                    if not isinstance(base, ast.Name):
                        continue
                    b = base.id
                    if (name == "__init__" or name in ctor_only) and b == selfname and isinstance(t, ast.Attribute) \
                            and t.value is base:
                        continue
                    if b in fresh and name in fresh_ctor_methods:
                        continue
                    if b == selfname or (b in params and b not in rebound) or b == "cls":
                        problems.append(short(node))
                    elif b in aliases:
                        problems.append(short(node) + f"   [{b} aliases the receiver's own state]")
            if isinstance(node, ast.Call):
                cn = call_name(node)
                if cn == "setattr" and node.args and isinstance(node.args[0], ast.Name):
                    b = node.args[0].id
                    if not ((name == "__init__" or name in ctor_only) and b == selfname) and (b == selfname or b in params):
                        problems.append(short(node))
                if isinstance(node.func, ast.Attribute) and node.func.attr in MUTATOR_METHODS:
                    ch = attr_chain(node.func.value)
                    if ch and ch[0] == selfname and len(ch) >= 2:
                        problems.append(short(node))
        report.check(not problems, rule, fn, "no store to self/parameter state outside __init__",
                     {"stores": problems} if problems else None, clause)
    return n_methods


def rule_no_foreign_geometry_store(report, index, geometry_attrs, geometry_module, clause=None):
    """Outside geometry.py: no store to an attribute whose name is
    unambiguously a geometry component."""
    rule = "R-IMMUT"
    n = 0
    for fn in index.all_functions():
        if fn.module.path == geometry_module:
            continue
        problems = []
        for node in walk_no_nested(fn.node):
            targets = []
            if isinstance(node, ast.Assign):
                targets = node.targets
            elif isinstance(node, (ast.AugAssign, ast.AnnAssign)):
                targets = [node.target]
            for t in targets:
                for tt in (t.elts if isinstance(t, (ast.Tuple, ast.List)) else [t]):
                    if isinstance(tt, ast.Attribute) and tt.attr in geometry_attrs:
                        if is_self_attr(tt, fn.params[0] if fn.params else "self") and fn.cls is not None:
                            # a class outside geometry.py defining its own attribute of that name
                            continue
                        problems.append(short(node))
        n += 1
        if problems:
            report.violation(rule, fn, "store to a geometry component outside geometry.py",
                             {"stores": problems}, clause)
    report.ok(rule, (geometry_module, "<package>"), "no store to geometry components outside geometry.py "
              f"(scanned {n} functions)", {"attributes": sorted(geometry_attrs)}, clause) \
        if not any(i.verdict == "VIOLATION" and i.construct.startswith("store to a geometry")
                   for i in report.instances) else None
    return n


# --------------------------------------------------------------------------
# R-DEFAULTS

def _is_mutable_default(expr, index, mod):
    if isinstance(expr, (ast.Dict, ast.List, ast.Set, ast.ListComp, ast.DictComp, ast.SetComp)):
        return True
    if isinstance(expr, ast.Call):
        cn = call_name(expr)
        if cn and cn.split(".")[-1] in MUTABLE_FACTORY_NAMES:
            return True
    return False


def rule_defaults(report, index, clause=None):
    """A mutable default argument must not be stored, returned, yielded,
    mutated or passed on."""
    rule = "R-DEFAULTS"
    n_fn = 0
    n_defaults = 0
    for fn in index.all_functions():
        n_fn += 1
        a = fn.node.args
        pos = a.posonlyargs + a.args
        pairs = list(zip(pos[len(pos) - len(a.defaults):], a.defaults))
        pairs += [(k, d) for k, d in zip(a.kwonlyargs, a.kw_defaults) if d is not None]
        for arg, default in pairs:
            n_defaults += 1
            if not _is_mutable_default(default, index, fn.module):
                continue
            uses = _escaping_uses(fn, arg.arg)
            construct = f"parameter {arg.arg}={short(default)}"
            if uses:
                report.violation(rule, fn, construct,
                                 {"why": "one object shared by every call that omits the argument",
                                  "escapes_or_mutations": uses}, clause)
            else:
                report.ok(rule, fn, construct, "mutable default is only read", clause)
    report.ok(rule, ("pycaption", "<package>"), f"scanned {n_defaults} default values in {n_fn} functions",
              None, clause)
    return n_fn, n_defaults


def _escaping_uses(fn, pname):
    uses = []
    for node in walk_no_nested(fn.node):
        if isinstance(node, ast.Assign):
            # rebinding `p = p or {}` style copies are fine; aliasing/storing is an escape
            if any(isinstance(n, ast.Name) and n.id == pname for n in ast.walk(node.value)):
                val = node.value
                direct = isinstance(val, ast.Name) and val.id == pname
                for t in node.targets:
                    if isinstance(t, (ast.Attribute, ast.Subscript)) and _mentions_directly(val, pname):
                        uses.append("stored: " + short(node))
                    elif isinstance(t, ast.Name) and direct and t.id != pname:
                        uses.append("aliased: " + short(node))
            for t in node.targets:
                if isinstance(t, ast.Subscript) and isinstance(t.value, ast.Name) and t.value.id == pname:
                    uses.append("mutated: " + short(node))
                if isinstance(t, ast.Attribute) and isinstance(t.value, ast.Name) and t.value.id == pname:
                    uses.append("mutated: " + short(node))
        elif isinstance(node, ast.AugAssign):
            t = node.target
            if isinstance(t, ast.Name) and t.id == pname:
                uses.append("mutated in place: " + short(node))
            if isinstance(t, ast.Subscript) and isinstance(t.value, ast.Name) and t.value.id == pname:
                uses.append("mutated: " + short(node))
        elif isinstance(node, ast.Return) and node.value is not None and _mentions_directly(node.value, pname):
            uses.append("returned: " + short(node))
        elif isinstance(node, ast.Call):
            if isinstance(node.func, ast.Attribute) and node.func.attr in MUTATOR_METHODS \
                    and isinstance(node.func.value, ast.Name) and node.func.value.id == pname:
                uses.append("mutated: " + short(node))
            else:
                for arg in list(node.args) + [k.value for k in node.keywords]:
                    if isinstance(arg, ast.Name) and arg.id == pname:
                        cn = call_name(node) or src(node.func)
                        if cn.split(".")[-1] in ("len", "isinstance", "bool", "sorted", "list", "dict", "tuple",
                                                 "set", "frozenset", "str", "repr", "any", "all", "deepcopy",
                                                 "copy", "iter", "enumerate", "zip", "min", "max", "sum"):
                            continue
                        uses.append("passed on: " + short(node))
        elif isinstance(node, ast.Delete):
            for t in node.targets:
                if isinstance(t, ast.Subscript) and isinstance(t.value, ast.Name) and t.value.id == pname:
                    uses.append("mutated: " + short(node))
    return uses


def _mentions_directly(expr, pname):
    """The value is the parameter itself or a display/conditional containing it
    (not e.g. a copy or a call result)."""
    if isinstance(expr, ast.Name):
        return expr.id == pname
    if isinstance(expr, (ast.Tuple, ast.List, ast.Set)):
        return any(_mentions_directly(e, pname) for e in expr.elts)
    if isinstance(expr, ast.Dict):
        return any(v is not None and _mentions_directly(v, pname) for v in expr.values)
    if isinstance(expr, ast.IfExp):
        return _mentions_directly(expr.body, pname) or _mentions_directly(expr.orelse, pname)
    if isinstance(expr, ast.BoolOp):
        return any(_mentions_directly(v, pname) for v in expr.values)
    if isinstance(expr, ast.Starred):
        return _mentions_directly(expr.value, pname)
    return False


# --------------------------------------------------------------------------
# direct R-GLOBALMUT: module-/class-level mutable objects mutated inside functions

def mutable_globals(index):
    """(module path, owner, name) -> expr for module-level names and class
    attributes bound to mutable displays / factories."""
    out = {}
    for m in index.modules.values():
        for name, vals in m.assigns.items():
            for v in vals:
                e = v.value if isinstance(v, (ast.Assign, ast.AugAssign)) else v
                if _is_mutable_default(e, index, m) or (isinstance(e, ast.Call) and _calls_local_dict_builder(e)):
                    out[(m.path, None, name)] = e
        for c in m.classes.values():
            for name, e in c.class_attrs.items():
                if _is_mutable_default(e, index, m):
                    out[(m.path, c.name, name)] = e
    return out


ONESHOT_FACTORIES = {"zip", "map", "filter", "iter", "reversed", "enumerate", "itertools.chain", "itertools.cycle", "itertools.count",
                     "itertools.product", "itertools.zip_longest", "itertools.islice"}


def _calls_local_dict_builder(call):
    return False


def rule_globalmut_direct(report, index, clause=None):
    rule = "R-GLOBALMUT"
    globs = mutable_globals(index)
    # names per module, including imported aliases
    n_sites = 0
    found = []
    for fn in index.all_functions():
        local_assigned = set()
        for node in walk_no_nested(fn.node):
            if isinstance(node, ast.Assign):
                for t in node.targets:
                    for tt in (t.elts if isinstance(t, (ast.Tuple, ast.List)) else [t]):
                        if isinstance(tt, ast.Name):
                            local_assigned.add(tt.id)
            elif isinstance(node, (ast.For, ast.comprehension)):
                for tt in ast.walk(node.target):
                    if isinstance(tt, ast.Name):
                        local_assigned.add(tt.id)
        local_assigned |= set(fn.params)

        def global_of(expr):
            """expr denotes a module-level/class-level mutable object?"""
            if isinstance(expr, ast.Name) and expr.id not in local_assigned:
                b = index.resolve(fn.module, expr.id)
                if b is not None and b.kind == "const" and (b.module.path, None, b.name) in globs:
                    return f"{b.module.path}:{b.name}"
            if isinstance(expr, ast.Attribute):
                # Cls.attr / self.attr / cls.attr for class-level mutable attributes
                if isinstance(expr.value, ast.Name):
                    owner = None
                    if fn.cls is not None and expr.value.id in (fn.params[:1] or ["self"]) + ["cls"]:
                        owner = fn.cls
                    else:
                        b = index.resolve(fn.module, expr.value.id) if expr.value.id not in local_assigned else None
                        if b is not None and b.kind == "class":
                            owner = b.target
                    if owner is not None:
                        c, v = owner.find_class_attr(expr.attr)
                        if c is not None and (c.module.path, c.name, expr.attr) in globs:
                            # instance attribute of the same name assigned in __init__ shadows it
                            inits, _ = init_attrs(owner)
                            if expr.attr not in inits:
                                return f"{c.module.path}:{c.name}.{expr.attr}"
            return None

        # a local name bound ONCE to a shared object is that object (`options = DEFAULTS; options.update(...)`)
        aliases, bound = {}, {}
        for node in walk_no_nested(fn.node):
            if isinstance(node, ast.Assign):
                for t in node.targets:
                    if isinstance(t, ast.Name):
                        bound[t.id] = bound.get(t.id, 0) + 1
                        if len(node.targets) == 1:
                            g_ = global_of(node.value)
                            if g_:
                                aliases[t.id] = g_
            elif isinstance(node, (ast.For, ast.comprehension, ast.AugAssign, ast.With)):
                for tt in ast.walk(node.target if not isinstance(node, ast.With) else ast.Tuple(
                        elts=[i.optional_vars for i in node.items if i.optional_vars is not None], ctx=ast.Store())):
                    if isinstance(tt, ast.Name):
                        bound[tt.id] = bound.get(tt.id, 0) + 2
        aliases = {k: v for k, v in aliases.items() if bound.get(k) == 1 and k not in fn.params}
        plain_global_of = global_of

        def global_of(expr, _plain=plain_global_of):      # noqa: F811
            if isinstance(expr, ast.Name) and expr.id in aliases:
                return aliases[expr.id] + f" (through the local name {expr.id})"
            return _plain(expr)

        for node in walk_no_nested(fn.node):
            hit = None
            if isinstance(node, (ast.Assign, ast.AugAssign, ast.Delete)):
                targets = node.targets if not isinstance(node, ast.AugAssign) else [node.target]
                for t in targets:
                    if isinstance(t, ast.Subscript):
                        hit = global_of(t.value)
                    elif isinstance(t, ast.Attribute) and isinstance(node, ast.AugAssign):
                        hit = global_of(t)
                    elif isinstance(t, ast.Name) and isinstance(node, ast.AugAssign):
                        hit = None
                    if hit:
                        break
            elif isinstance(node, ast.Call) and isinstance(node.func, ast.Attribute) \
                    and node.func.attr in MUTATOR_METHODS:
                hit = global_of(node.func.value)
            if hit:
                n_sites += 1
                found.append((fn, node, hit))
    # module-level one-shot iterators (zip, map, filter, iter, reversed, enumerate, a generator expression): the first
    # function call that walks one uses it up for every later call
    oneshot = {}
    for m in index.modules.values():
        for name, vals in m.assigns.items():
            for v in vals:
                e_ = v.value if isinstance(v, (ast.Assign, ast.AugAssign)) else v
                if isinstance(e_, ast.GeneratorExp) or (isinstance(e_, ast.Call) and call_name(e_) in ONESHOT_FACTORIES):
                    oneshot[(m.path, name)] = e_
    for fn in index.all_functions():
        stored = {t.id for n_ in walk_no_nested(fn.node) if isinstance(n_, ast.Assign) for t in n_.targets if isinstance(t, ast.Name)}
        for node in walk_no_nested(fn.node):
            if isinstance(node, ast.Name) and isinstance(node.ctx, ast.Load) and node.id not in stored and node.id not in fn.params:
                b = index.resolve(fn.module, node.id)
                if b is not None and b.kind == "const" and (b.module.path, b.name) in oneshot:
                    n_sites += 1
                    found.append((fn, node, f"{b.module.path}:{b.name} = {short(oneshot[(b.module.path, b.name)])} (a one-shot iterator: "
                                            "the first call that walks it leaves nothing for the next)"))
    for fn, node, hit in found:
        report.violation(rule, (fn, node), f"mutation of shared object {hit}", short(node), clause)
    report.check(True, rule, ("pycaption", "<package>"),
                 f"direct mutation sites of {len(globs)} module-/class-level mutable objects",
                 {"objects": sorted(f"{k[0]}:{(k[1] + '.') if k[1] else ''}{k[2]}" for k in globs)[:60],
                  "sites_found": n_sites}, clause)
    return len(globs)


# --------------------------------------------------------------------------
# R-MEMO: a memoised function hands the SAME object to every caller

MEMO_DECORATORS = {"functools.lru_cache", "functools.cache"}
_IMMUTABLE_CALLS = {"str", "int", "float", "bool", "tuple", "frozenset", "len", "round", "abs", "min", "max", "sum", "repr",
                    "bytes", "ord", "chr", "hash", "divmod", "re.compile", "fractions.Fraction", "decimal.Decimal"}
_STR_METHODS = {"strip", "lstrip", "rstrip", "lower", "upper", "format", "join", "replace", "title", "capitalize", "zfill",
                "ljust", "rjust", "center", "casefold", "swapcase", "encode", "decode", "group", "hex"}
_READONLY_METHODS = {"get", "keys", "values", "items", "index", "count", "copy"}


def _memo_decorator(index, fn):
    """the memoising decorator of `fn` (resolved through the module's imports), or None"""
    for d in fn.node.decorator_list:
        target = d.func if isinstance(d, ast.Call) else d
        b = index.resolve_expr(fn.module, target)
        if b is not None and b.kind == "external" and b.target in MEMO_DECORATORS:
            return ast.unparse(d)
    return None


def _own_nodes(fn_node):
    """nodes of the function body, nested definitions excluded"""
    todo = list(fn_node.body)
    while todo:
        n = todo.pop()
        yield n
        for c in ast.iter_child_nodes(n):
            if not isinstance(c, (ast.FunctionDef, ast.AsyncFunctionDef, ast.Lambda, ast.ClassDef)):
                todo.append(c)


def _value_kind(expr, fn, index, depth=0):
    """'immutable' | 'object' (an instance of a pycaption class) | 'container' (list / dict / set) | 'unknown'"""
    if expr is None or isinstance(expr, (ast.Constant, ast.JoinedStr, ast.Compare)):
        return "immutable"
    if isinstance(expr, ast.BoolOp):
        kinds = {_value_kind(v, fn, index, depth) for v in expr.values}
        return kinds.pop() if len(kinds) == 1 else ("unknown" if "unknown" in kinds else sorted(kinds - {"immutable"})[0])
    if isinstance(expr, ast.IfExp):
        kinds = {_value_kind(expr.body, fn, index, depth), _value_kind(expr.orelse, fn, index, depth)}
        return kinds.pop() if len(kinds) == 1 else ("unknown" if "unknown" in kinds else sorted(kinds - {"immutable"})[0])
    if isinstance(expr, ast.Tuple):
        kinds = {_value_kind(e, fn, index, depth) for e in expr.elts} or {"immutable"}
        return kinds.pop() if len(kinds) == 1 else ("unknown" if "unknown" in kinds else sorted(kinds - {"immutable"})[0])
    if isinstance(expr, (ast.List, ast.Dict, ast.Set, ast.ListComp, ast.DictComp, ast.SetComp)):
        return "container"
    if isinstance(expr, ast.UnaryOp):
        return "immutable"
    if isinstance(expr, ast.BinOp):
        kinds = {_value_kind(expr.left, fn, index, depth), _value_kind(expr.right, fn, index, depth)}
        return "container" if "container" in kinds else "immutable" if kinds == {"immutable"} else "unknown"
    if isinstance(expr, ast.Call):
        if isinstance(expr.func, ast.Attribute) and expr.func.attr in _STR_METHODS:
            return "immutable"
        b = index.resolve_expr(fn.module, expr.func)
        if b is not None and b.kind == "class":
            bases = {x for c in b.target.mro() for x in c.external_bases()} if hasattr(b.target, "mro") else set()
            return "immutable" if any(str(x).split(".")[-1] in ("Enum", "IntEnum") for x in bases) else "object"
        cn = call_name(expr)
        if b is not None and b.kind == "external":
            cn = b.target
        if cn in _IMMUTABLE_CALLS or (cn or "").split(".")[-1] in ("compile",):
            return "immutable"
        if cn and cn.split(".")[-1] in MUTABLE_FACTORY_NAMES | {"deepcopy", "copy", "sorted", "list", "dict", "set"}:
            return "container"
        if b is not None and b.kind == "func" and depth < 3:
            return _returned_kind(b.target, index, depth + 1)
        return "unknown"
    if isinstance(expr, ast.Name):
        if expr.id in {a.arg for a in fn.node.args.posonlyargs + fn.node.args.args + fn.node.args.kwonlyargs}:
            return "unknown"
        values = [st.value for st in _own_nodes(fn.node) if isinstance(st, ast.Assign)
                  and any(isinstance(t, ast.Name) and t.id == expr.id for t in st.targets)]
        if values and depth < 3:
            kinds = {_value_kind(v, fn, index, depth + 1) for v in values}
            return kinds.pop() if len(kinds) == 1 else ("unknown" if "unknown" in kinds else sorted(kinds - {"immutable"})[0])
        return "unknown"
    return "unknown"


def _returned_kind(fn, index, depth=0):
    rets = [n.value for n in _own_nodes(fn.node) if isinstance(n, ast.Return)]
    if any(isinstance(n, (ast.Yield, ast.YieldFrom)) for n in _own_nodes(fn.node)):
        return "container"          # a generator object: consumed by its first user
    kinds = {_value_kind(v, fn, index, depth) for v in rets} or {"immutable"}
    if "object" in kinds:
        return "object"
    if "container" in kinds:
        return "container"
    return "unknown" if "unknown" in kinds else "immutable"


def _uses_of_result(index, fn):
    """how the call sites of `fn` use its result: [] when every use only reads it"""
    writes = []
    name = fn.node.name
    for other in index.all_functions():
        parents = {}
        for n in ast.walk(other.node):
            for c in ast.iter_child_nodes(n):
                parents[c] = n
        for n in ast.walk(other.node):
            if not (isinstance(n, ast.Call) and (isinstance(n.func, ast.Name) and n.func.id == name
                                                 or isinstance(n.func, ast.Attribute) and n.func.attr == name)):
                continue
            p = parents.get(n)
            if isinstance(p, ast.Subscript) and p.value is n and isinstance(p.ctx, ast.Load):
                continue
            if isinstance(p, ast.Compare) or isinstance(p, (ast.For, ast.comprehension)) and p.iter is n:
                continue
            if isinstance(p, ast.Attribute) and p.attr in _READONLY_METHODS and isinstance(parents.get(p), ast.Call):
                continue
            if isinstance(p, ast.Call) and call_name(p) in ("len", "sorted", "list", "tuple", "set", "dict", "frozenset", "any", "all",
                                                            "sum", "min", "max", "str", "bool", "enumerate", "iter"):
                continue
            if isinstance(p, (ast.If, ast.While, ast.BoolOp, ast.UnaryOp)):
                continue
            writes.append(f"{other.module.path}:{n.lineno} {other.qualname}: {short(p if p is not None else n)}")
    return writes


def rule_memo(report, index, clause=None):
    """A function under functools.lru_cache / functools.cache returns ONE object to all callers with equal arguments, for
    the life of the process.  That is invisible for immutable results; a caption-model or geometry object, or a container
    that a caller stores or edits, is then shared between the caption sets of different reads (and writes)."""
    rule = "R-MEMO"
    n_fn = n_memo = 0
    for fn in index.all_functions():
        n_fn += 1
        deco = _memo_decorator(index, fn)
        if deco is None:
            continue
        n_memo += 1
        kind = _returned_kind(fn, index)
        construct = f"@{deco} on {fn.qualname}"
        if kind == "immutable":
            report.ok(rule, fn, construct, "every returned value is immutable", clause)
        elif kind == "object":
            report.violation(rule, fn, construct, {"why": "the function builds an object of a pycaption class; under the decorator "
                                                          "every caller with equal arguments receives that one object, so caption sets "
                                                          "of different reads share it and an edit of one shows in the others"}, clause)
        elif kind == "container":
            uses = _uses_of_result(index, fn)
            if uses:
                report.violation(rule, fn, construct, {"why": "the function builds a list / dict / set; every caller receives the "
                                                              "same one, and these call sites keep or pass it on",
                                                       "call_sites": uses[:4]}, clause)
            else:
                report.ok(rule, fn, construct, "the shared container is only read at every call site", clause)
        else:
            report.info(rule, fn, construct, {"not_decided": "the kind of the returned value was not recognised"}, clause)
    report.ok(rule, ("pycaption", "<package>"), f"scanned {n_fn} functions for memoising decorators ({n_memo} found)", None, clause)
    return n_fn, n_memo


def rule_memo_selftest(index_factory):
    """the rule must fire on a memoised constructor and stay silent on a memoised string function (expected count on the
    real tree is zero, so the rule proves on every run that it can match)"""
    src = ("import functools\nfrom functools import lru_cache\n"
           "class Box:\n    def __init__(self, v):\n        self.v = v\n"
           "@functools.lru_cache(maxsize=None)\ndef shared(v):\n    return Box(v)\n"
           "@lru_cache\ndef label(v):\n    return f'row {v}'.strip()\n")
    idx = index_factory({"pycaption/__init__.py": "", "pycaption/memo_example.py": src})

    class _R:
        def __init__(self):
            self.v, self.o = [], []

        def ok(self, rule, where, construct, *a):
            self.o.append(construct)

        def violation(self, rule, where, construct, *a):
            self.v.append(construct)

        info = ok
    r = _R()
    rule_memo(r, idx)
    if not (len(r.v) == 1 and "shared" in r.v[0] and any("label" in c for c in r.o)):
        raise AnalysisError(f"R-MEMO self-test: expected one violation (shared) and one OK (label), got {r.v} / {r.o}")
