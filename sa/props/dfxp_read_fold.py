"""C14 clauses 2/3 (DFXP reader): `DFXPReader.read` folded on stub documents.

The parser, the per-div conversion and the style conversion are stubbed (they are other
properties' business); what is folded is the reader's own bookkeeping: which list is stored
under which language, in which order, and what a div without xml:lang falls back to.
Documents: every sequence of 1..3 divs whose xml:lang is one of two codes or absent, under a
<tt> with or without xml:lang.
"""
import itertools

from ..core.tree import AnalysisError
from ..core.constfold import Folder, Stub, FoldRaise, Inst

PATH = "pycaption/dfxp/base.py"


def _fold(folder, rd, tt_lang, divs):
    div_stubs = []
    for i, l in enumerate(divs):
        div_stubs.append(Stub(f"div{i}", {"attrs": ({"xml:lang": l} if l is not None else {}), "name": "div", "_i": i}))
    tt = Stub("tt", {"attrs": ({"xml:lang": tt_lang} if tt_lang is not None else {}), "name": "tt"})
    doc = Stub("document", {"tt": tt}, methods={
        "find_all": lambda name, *a, **k: list(div_stubs) if name == "div" else [],
        "find": lambda name, *a, **k: tt if name == "tt" else None})
    cap = Stub("caption", {}, methods={"is_empty": lambda: False})
    me = Stub("reader", {"read_invalid_positioning": False, "nodes": []}, cls=rd.cls, methods={
        "_get_dfxp_parser_class": lambda: (lambda *a, **k: doc),
        "_convert_div_to_caption_list": lambda d: [("captions-of", d.attrs["_i"]), cap],
        "_convert_style": lambda s: {}})
    try:
        r = folder.call_function(rd, ["<tt/>"], {}, self_value=me)
    except FoldRaise as e:
        return ("raise", e.exc_name)
    if isinstance(r, Inst) and r.args and isinstance(r.args[0], dict):
        d = r.args[0]
    elif isinstance(r, Stub) and isinstance(r.attrs.get("_captions"), dict):
        d = r.attrs["_captions"]
    else:
        raise AnalysisError(f"DFXPReader.read: folded result is not a CaptionSet of a dict ({r!r:.60})")
    # per language: the indices of the divs whose lists it holds, in order
    return [(k, [x[1] for x in v if isinstance(x, tuple)] if isinstance(v, list) else v) for k, v in d.items()]


def run(ctx, report):
    rd = ctx.index.get_function(PATH, "DFXPReader.read")
    report.covered(rd)
    label_bad, fallback_bad, order_bad = [], [], []
    n = 0
    # two worlds: no configuration (documented default), and every environment variable set to 'qaa'
    worlds = [(ctx.memo("folder", lambda: Folder(ctx.index)), None),
              (ctx.memo("folder-configured", lambda: Folder(ctx.index, environ="qaa")), "qaa")]
    for folder, configured in worlds:
        default = folder.value("pycaption.base", "DEFAULT_LANGUAGE_CODE")
        if not isinstance(default, str):
            raise AnalysisError("DEFAULT_LANGUAGE_CODE does not fold to a string")
        if configured is not None and default != configured:
            fallback_bad.append({"configured_default_language": configured, "DEFAULT_LANGUAGE_CODE": default,
                                 "why": "the default language does not follow the configuration"})
            continue
        n = _world(folder, rd, default, configured, label_bad, fallback_bad, order_bad, n)
    _report(report, rd, n, label_bad, order_bad, fallback_bad)


def _world(folder, rd, default, configured, label_bad, fallback_bad, order_bad, n):
    for tt_lang in (None, "de"):
        for k in (1, 2, 3):
            for divs in itertools.product(("en-US", "fr", None), repeat=k):
                n += 1
                try:
                    got = _fold(folder, rd, tt_lang, divs)
                except AnalysisError as e:
                    if isinstance(e, FoldRaise):
                        raise
                    raise AnalysisError(f"DFXPReader.read cannot be folded on a stub document: {e}")
                eff = [l if l is not None else (tt_lang if tt_lang is not None else default) for l in divs]
                want = {}
                for i, l in enumerate(eff):
                    want.setdefault(l, []).append(i)     # a language spread over several divs holds all of them, in order
                case = {"tt_lang": tt_lang, "div_langs": list(divs), "read_as": got,
                        **({"configured_default_language": configured} if configured else {})}
                if not isinstance(got, list):
                    label_bad.append(case)
                    continue
                gd = dict(got)
                if any(l is None for l in divs) and any(gd.get(eff[i]) != want[eff[i]] or eff[i] not in gd
                                                        for i, l in enumerate(divs) if l is None):
                    fallback_bad.append(case)
                elif gd != want:
                    label_bad.append(case)
                elif [k_ for k_, _ in got] != list(want):
                    order_bad.append(case)
    return n


def _report(report, rd, n, label_bad, order_bad, fallback_bad):
    default = None
    report.count("dfxp_stub_documents", n)
    report.check(not label_bad, "R-LABEL", rd, "each div's captions are stored under that div's own language (all divs of a language, in "
                 "document order)",
                 {"documents": n, "mismatches": label_bad[:2]}, "2")
    report.check(not order_bad, "R-APPEND-ORDER", rd, "languages are listed in order of first appearance",
                 {"documents": n, "mismatches": order_bad[:2]}, "2")
    report.check(not fallback_bad, "R-FALLBACK", rd,
                 "a div without xml:lang takes the document language, then the configured default",
                 {"documents": n, "worlds": ["no configuration", "every environment variable = 'qaa'"],
                  "mismatches": fallback_bad[:2]}, "3")
