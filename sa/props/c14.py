"""C14 - each language's captions stay under their language, in document order.

Decided clauses (DESIGN.md 4/C14):
 1 R-HASHORDER language order never depends on hashing (DFXP and SAMI readers, all writers: shared engine with C09/C10)
 2 R-LABEL     the label attached to a container is the key that selected its captions
 3 fallback    DFXP div xml:lang -> tt xml:lang -> DEFAULT_LANGUAGE_CODE; force selects only a language that is present
 4 option      WebVTTWriter.write(lang=) hands exactly that value to get_captions; only None falls back to the first
 5 neighbours  a SAMI sync for a secondary language is inserted after the last earlier / before the first later sync
NOT decided: placement of secondary-language paragraphs and non-decreasing order of syncs for arbitrary cue times.
"""
import ast
import re

from ..core.tree import AnalysisError
from ..core.astutil import walk_no_nested, call_name, short, src
from ..engines import effects as E
from ..engines.absint import AV, Piece
from .c02 import resolve_local


def run(ctx, report):
    E.validate_schema(ctx.index)
    report.section("hash order", hash_order, ctx, report)
    report.section("labels", labels, ctx, report)
    report.section("DFXP fallback", dfxp_fallback, ctx, report)
    report.section("WebVTT lang option", webvtt_lang, ctx, report)
    report.section("reader lang option", reader_lang, ctx, report)
    report.section("SAMI neighbours", sami_neighbours, ctx, report)
    report.section("argument order", argument_order, ctx, report)
    report.structural_section("label stores (shape)", "R-DOC-LANGS on the folded documents of the markup writers (every language under its "
                              "own xml:lang / class, in order)", label_stores, ctx, report)
    report.section("SAMI language classes", sami_language_classes, ctx, report)
    report.section("SAMI paragraph language", sami_paragraph_language, ctx, report)
    from . import markup_writer_fold
    report.section("written documents", markup_writer_fold.run, ctx, report, {"langs": ("R-DOC-LANGS", "1"),
                                                                              "sami_langs": ("R-DOC-LANGS", "1")})
    from . import dfxp_reader_fold, merge_fold
    report.section("merging keeps languages apart", merge_fold.run, ctx, report, clause="1", only=("R-LOOP",))
    report.section("generated DFXP documents", dfxp_reader_fold.run, ctx, report, {"langs": ("R-DOC-LANGS", "3")})
    from . import sami_reader_fold
    report.section("generated SAMI documents", sami_reader_fold.run, ctx, report, {
        "langs": ("R-DOC-LANGS", "1"), "cues": ("R-DOC-CUES", "1"), "roundtrip": ("R-ROUNDTRIP", "1")})
    report.not_decided += ["SAMI: placement of secondary-language paragraphs into <sync> blocks and the non-decreasing "
                           "order of blocks for arbitrary interleavings (value dependent)",
                           "SAMI writer: a paragraph is labelled with the caption's class when the stylesheet gives that "
                           "class a lang (value dependent)"]


def hash_order(ctx, report):
    doc = AV(kinds=["str"], pieces=[Piece("data", "doc", (), None, None)])
    n = 0
    for name in ("DFXPReader", "SAMIReader"):
        cls = ctx.index.find_class(name)
        run = E.run_entry(ctx, cls, "read", {"content": doc})
        E.rule_hashorder(report, run, f"{name}.read: language order does not depend on the hash seed", "1")
        n += 1
    for name, pn in (("DFXPWriter", "caption_set"), ("SAMIWriter", "caption_set"), ("WebVTTWriter", "caption_set"),
                     ("SRTWriter", "caption_set")):
        cls = ctx.index.find_class(name)
        run = E.run_entry(ctx, cls, "write", {pn: E.model_param(ctx.index, "CaptionSet", f"P:{pn}")})
        E.rule_hashorder(report, run, f"{name}.write: language order does not depend on the hash seed", "1")
        n += 1
    gl = ctx.index.get_function("pycaption/base.py", "CaptionSet.get_languages")
    ok = src(gl.node.body[-1]) == "return list(self._captions.keys())"
    report.check(ok, "R-APPEND-ORDER", gl, "languages are listed in insertion order of the caption dictionary", None, "1")


LANG_LOOPS = [
    ("pycaption/dfxp/base.py", "DFXPWriter.write"), ("pycaption/dfxp/extras.py", "LegacyDFXPWriter.write"),
    ("pycaption/sami.py", "SAMIWriter.write"), ("pycaption/srt.py", "SRTWriter.write"),
    ("pycaption/microdvd.py", "MicroDVDWriter.write"), ("pycaption/sami.py", "SAMIReader.read"),
    ("pycaption/base.py", "merge_concurrent_captions"), ("pycaption/base.py", "CaptionSet.adjust_caption_timing"),
]


def labels(ctx, report):
    n = 0
    for path, q in LANG_LOOPS:
        fn = ctx.index.get_function(path, q)
        report.covered(fn)
        loops = [l for l in walk_no_nested(fn.node) if isinstance(l, ast.For) and isinstance(l.target, ast.Name)
                 and re.fullmatch(r"langs|doc_langs|languages|[\w.]+\.get_languages\(\)|list\([\w.]+\.get_languages\(\)\)",
                                  src(l.iter))]
        for lp in loops:
            L = lp.target.id
            uses = []
            bad = []
            for c in walk_no_nested(lp):
                if isinstance(c, ast.Call) and isinstance(c.func, ast.Attribute) and c.func.attr in (
                        "get_captions", "get_layout_info", "set_layout_info", "set_captions", "_translate_lang"):
                    a0 = src(c.args[0]) if c.args else None
                    uses.append(f"{c.func.attr}({a0})")
                    if a0 != L:
                        bad.append(short(c))
                if isinstance(c, ast.Assign) and isinstance(c.targets[0], ast.Subscript):
                    t = c.targets[0]
                    key = src(t.slice)
                    if key in ("'xml:lang'", '"xml:lang"'):
                        v = src(resolve_local(fn, c.value))
                        uses.append(f"xml:lang = {v}")
                        if not re.search(rf"\b{re.escape(L)}\b", v):
                            bad.append(short(c))
                    elif src(t.value) in ("caption_dict",):
                        uses.append(f"caption_dict[{key}]")
                        if key != L:
                            bad.append(short(c))
            if not uses:
                continue
            n += 1
            report.check(not bad, "R-LABEL", (fn, lp), f"inside `for {L} in ...` every caption lookup and label uses {L}",
                         {"uses": uses, "mismatches": bad}, "2")
    if n < 6:
        raise AnalysisError(f"R-LABEL: only {n} language loops with lookups found (floor 6)")
    report.structural_section("SAMI paragraph selection", "R-DOC-LANGS / R-DOC-CUES on the folded SAMI documents (sami_reader_fold: "
                              "languages whose codes are prefixes of each other included)", sami_selection, ctx, report)


def sami_selection(ctx, report):
    """SAMI reader: paragraphs are selected with the language they are stored under.  Recognises the selector spelled as an
    f-string over `language` with an equality or dash-match operator; any other spelling is left to the fold."""
    tl = ctx.index.get_function("pycaption/sami.py", "SAMIReader._translate_lang")
    sel = [c for c in walk_no_nested(tl.node) if isinstance(c, ast.Call) and isinstance(c.func, ast.Attribute)
           and c.func.attr in ("select", "find_all")]
    if len(sel) != 1 or not re.search(r"lang\s*[~|^$*]?=\s*\\?[\"']?\{language\}", src(sel[0])):
        raise AnalysisError("SAMIReader._translate_lang: paragraph selector not recognised")
    op = re.search(r"lang\s*([~|^$*]?=)", src(sel[0])).group(1)
    report.check(op in ("=", "|="), "R-LABEL", tl, "the paragraphs of a language are selected by that language's code",
                 [short(c) for c in sel], "2")


def dfxp_fallback(ctx, report):
    from . import dfxp_read_fold
    dfxp_read_fold.run(ctx, report)
    by = "R-DOC-LANGS on the folded documents of the three DFXP writers under every value of the force option (markup_writer_fold)"
    report.structural_section("DFXPWriter force (shape)", by, force_shape, ctx, report)
    report.structural_section("LegacyDFXPWriter language choice", by, legacy_force, ctx, report)


def force_shape(ctx, report):
    wr = ctx.index.get_function("pycaption/dfxp/base.py", "DFXPWriter.write")
    tests = [n for n in walk_no_nested(wr.node) if isinstance(n, ast.If) and src(n.test) == "force in langs"]
    ok = len(tests) == 1 and any(isinstance(s, ast.Assign) and src(s) == "langs = [force]" for s in tests[0].body)
    report.recognise(ok, "R-GUARD", wr, "force selects a language only when the set has it; otherwise all languages are written",
                     [short(t) for t in tests], "3")


def legacy_force(ctx, report):
    lg = ctx.index.get_function("pycaption/dfxp/extras.py", "LegacyDFXPWriter._force_language")
    report.covered(lg)
    from ..core.constfold import Folder, Stub, FoldRaise
    folder = ctx.memo("folder", lambda: Folder(ctx.index))
    pool = ["en-US", "fr", "de", "es"]
    bad = []
    n = 0
    for k in range(1, 5):
        langs = pool[:k]
        for force in langs + ["en", "", "xx"]:
            n += 1
            try:
                got = folder.call_function(lg, [force, list(langs)], {}, self_value=Stub("writer", {}, cls=lg.cls))
            except FoldRaise as e:
                got = f"raises {e.exc_name}"
            except AnalysisError as e:
                raise AnalysisError(f"LegacyDFXPWriter._force_language cannot be folded: {e}")
            if (force in langs and got != force) or (force not in langs and got not in langs):
                bad.append({"force": force, "languages": langs, "selected": got})
    report.check(not bad, "R-GUARD", lg, "the legacy writer returns the forced language only on an exact match",
                 {"folded_calls": n, "wrong_selections": bad[:3]}, "3")


def webvtt_lang(ctx, report):
    """WebVTTWriter.write folded on a stub caption set that records which language is asked for"""
    from ..core.constfold import Folder, Stub, FoldRaise
    folder = ctx.memo("folder", lambda: Folder(ctx.index))
    fn = ctx.index.get_function("pycaption/webvtt.py", "WebVTTWriter.write")
    report.covered(fn)
    langs = ["en-US", "fr", "de"]
    wrong_default, wrong_named, wrong_lookup = [], [], []
    n = 0
    for given in [None] + langs + ["xx"]:
        asked = []

        def mk():
            st = Stub("caption_set", {}, methods={
                "is_empty": lambda: False, "get_languages": lambda: list(langs),
                "get_layout_info": lambda l: asked.append(("layout", l)),
                "get_captions": lambda l: asked.append(("captions", l)) or [],
                "get_styles": lambda: [], "get_style": lambda *_a: {}})
            return st
        cs = mk()
        n += 1
        try:
            folder.call_function(fn, [cs] + ([] if given is None else [given]), {}, self_value=Stub("writer", {}, cls=fn.cls))
        except FoldRaise as e:
            asked.append(("raises", e.exc_name))
        except AnalysisError as e:
            raise AnalysisError(f"WebVTTWriter.write cannot be folded on a stub caption set: {e}")
        cap = [l for k, l in asked if k == "captions"]
        other = [l for k, l in asked if k == "layout"]
        want = langs[0] if given is None else given
        if given is None and cap != [want]:
            wrong_default.append({"lang": given, "captions_requested_for": cap})
        if given is not None and cap != [want]:
            wrong_named.append({"lang": given, "captions_requested_for": cap})
        if any(l != want for l in other):
            wrong_lookup.append({"lang": given, "layout_requested_for": other})
    report.check(not wrong_default and not wrong_named, "R-GUARD", fn,
                 "the lang option is replaced by the first language only when it was not given",
                 {"folded_calls": n, "without_lang": wrong_default[:2], "with_lang": wrong_named[:2]}, "4")
    report.check(not wrong_lookup and not wrong_named, "R-LABEL", fn,
                 "captions and layout are looked up for exactly the selected language",
                 {"folded_calls": n, "wrong_lookups": (wrong_lookup + wrong_named)[:3]}, "4")


def sami_neighbours(ctx, report):
    """SAMIWriter._find_closest_sync folded on stub documents: for every set of existing sync times
    drawn from {100, 200, 300, 400} (all 16 subsets, in document order) and every new time in
    {50, 150, 250, 350, 450}, the new sync must be placed right after the LAST earlier sync, else
    right before the FIRST later one, else - the document has no sync yet - appended to the body."""
    import itertools
    from ..core.constfold import Folder, Stub
    fn = ctx.index.get_function("pycaption/sami.py", "SAMIWriter._find_closest_sync")
    report.covered(fn)
    folder = ctx.memo("folder", lambda: Folder(ctx.index))
    wcls = ctx.index.get_class("pycaption/sami.py", "SAMIWriter")
    bad, n = [], 0
    for k in range(0, 5):
        for existing in itertools.combinations((100, 200, 300, 400), k):
            for t in (50, 150, 250, 350, 450):
                n += 1
                placed = []

                def mk(v):
                    return Stub(f"sync@{v}", {"start": str(v)},
                                {"insert_after": lambda new, v=v: placed.append(("after", v)),
                                 "insert_before": lambda new, v=v: placed.append(("before", v))})
                tags = [mk(v) for v in existing]

                def find_all(name, start=None, **kw):
                    if name != "sync":
                        return []
                    return [tg for tg in tags if start is None or folder.call_value(start, [tg.attrs["start"]])]
                body = Stub("body", {}, {"append": lambda new: placed.append(("appended to the body", None))})
                doc = Stub("document", {"body": body}, {"find_all": find_all,
                                                        "new_tag": lambda name, **kw: Stub("new-sync", dict(kw), {}),
                                                        "find": lambda name=None, *a, **k: body if name == "body" else None})
                try:
                    folder.call_function(fn, [doc, t], self_value=Stub("writer", {}, cls=wcls))
                except AnalysisError as e:
                    raise AnalysisError(f"_find_closest_sync cannot be folded: {e}")
                earlier = [v for v in existing if v < t]
                later = [v for v in existing if v > t]
                # (no sync at all yet - the languages written so far have no captions: it is the document's first sync.
                # The first version of this oracle said "nowhere" and so encoded defect F35.)
                want = [("after", earlier[-1])] if earlier else ([("before", later[0])] if later else [("appended to the body", None)])
                if placed != want:
                    bad.append({"existing_syncs": list(existing), "new_time": t, "placed": placed, "required": want})
    report.check(not bad, "R-NEIGHBOUR", fn,
                 "a new sync goes right after the LAST earlier sync, else right before the FIRST later one, else into the empty body",
                 {"documents_folded": n, "mismatches": bad[:3],
                  "why": "any other position puts a sync out of time order: players show the cue at the wrong moment"}, "5")


def reader_lang(ctx, report):
    """the lang= option of the single-language readers, folded: whatever the document says about itself (header metadata,
    a cue that reads 'Language: de'), the returned caption set has exactly one language - the one named, or the default"""
    from ..core.constfold import Folder, Stub, FoldRaise
    from .foldutil import captions_by_language
    F = Folder(ctx.index)
    F.object_classes = "*"
    docs = {
        ("pycaption/webvtt.py", "WebVTTReader"): [
            "WEBVTT\n\n00:01.000 --> 00:02.000\nhello\n",
            "WEBVTT\nKind: captions\nLanguage: en\n\n00:01.000 --> 00:02.000\nhello\n\n00:03.000 --> 00:04.000\nLanguage: de\n",
            "WEBVTT - Language: es\n\nNOTE Language: it\n\n1\n00:01.000 --> 00:02.000\nhola\n"],
        ("pycaption/srt.py", "SRTReader"): [
            "1\n00:00:01,000 --> 00:00:02,000\nhello\n", "1\n00:00:01,000 --> 00:00:02,000\nLanguage: de\n\n2\n00:00:03,000 --> 00:00:04,000\nfr\n"],
        ("pycaption/microdvd.py", "MicroDVDReader"): ["{0}{0}25\n{25}{50}hello\n{75}{100}Language: de\n"],
    }
    bad = []
    n = 0
    fn0 = None
    for (path, name), texts in docs.items():
        cls = ctx.index.get_class(path, name)
        read, init = cls.find_method("read"), cls.find_method("__init__")
        fn0 = fn0 or read
        report.covered(read)
        default = {}
        for doc in texts:
            for how, args, kw, want in (("default", [], {}, None), ("keyword", [], {"lang": "fr"}, "fr"), ("positional", ["pt-BR"], {}, "pt-BR"),
                                        ("keyword", [], {"lang": "en"}, "en")):
                n += 1
                me = Stub("reader", {}, cls=cls)
                try:
                    if init is not None:
                        F.call_function(init, [], {}, self_value=me)
                    r = F.call_function(read, [doc] + args, dict(kw), self_value=me)
                    langs = list(captions_by_language(r, F, what=f"{name}.read"))
                except FoldRaise as e:
                    bad.append({"reader": name, "document": doc[:80], "lang": want, "raises": e.exc_name})
                    continue
                except AnalysisError as e:
                    raise AnalysisError(f"{name}.read cannot be folded with a lang option: {e}")
                if want is None:
                    # (the reader's own default: one language, the same whatever the document holds)
                    want = default.setdefault(name, langs[0] if len(langs) == 1 and isinstance(langs[0], str) and langs[0] else None)
                if langs != [want]:
                    bad.append({"reader": name, "document": doc[:80], "lang_option": f"{how}: {want}", "languages_returned": langs})
    report.check(not bad, "R-DOC-LANGS", fn0, f"WebVTT, SRT and MicroDVD readers on {n} folded reads (documents with and without "
                 "language-looking lines; lang= omitted, by keyword, by position): the caption set has exactly the language asked "
                 "for, or - when none is asked for - the reader's one default whatever the document holds", {"reads": n, "mismatches": bad[:3]}, "4")


def argument_order(ctx, report):
    """Language labels are handed from routine to routine by position.  For every in-package call in
    the readers and writers whose positional arguments are plain names that are ALSO parameter names
    of the callee, each such argument must sit at the position of the parameter of that name
    (a swapped `lang` / `primary` pair changes which language a cue is labelled with)."""
    from ..core.astutil import resolve_callee
    n_calls, bad = 0, []
    for mod in ctx.index.modules.values():
        fns = list(mod.functions.values()) + [m for c in mod.classes.values() for m in c.methods.values()]
        for fn in fns:
            for c in walk_no_nested(fn.node):
                if not isinstance(c, ast.Call) or not c.args:
                    continue
                h = resolve_callee(ctx.index, fn, c)
                if h is None:
                    continue
                ps = [a.arg for a in h.node.args.posonlyargs + h.node.args.args]
                if h.kind in ("method", "classmethod", "property") and isinstance(c.func, ast.Attribute):
                    ps = ps[1:]
                names = [a.id if isinstance(a, ast.Name) else None for a in c.args]
                shared = [nm for nm in names if nm is not None and nm in ps]
                if len(shared) < 2:
                    continue
                n_calls += 1
                wrong = [(nm, names.index(nm), ps.index(nm)) for nm in shared if names.index(nm) != ps.index(nm)]
                # a genuine swap: two names exchanged
                if len(wrong) >= 2 and {w[1] for w in wrong} == {w[2] for w in wrong}:
                    bad.append({"call": f"{fn.qualname}: {short(c, 90)}", "callee_parameters": ps,
                                "misplaced": [f"{nm} passed at position {i} but named parameter {j}" for nm, i, j in wrong]})
    if n_calls < 5:
        raise AnalysisError(f"argument order: only {n_calls} calls with name-matching arguments found")
    report.check(not bad, "R-ARG-ORDER", ("pycaption/__init__.py", "<package>"),
                 "arguments that carry a parameter's name are passed at that parameter's position",
                 {"calls_examined": n_calls, "swapped": bad[:3]}, "2")


def label_stores(ctx, report):
    """Every language keeps its label: the DFXP writers store xml:lang on every div unconditionally;
    the SAMI parser lists a language only when a paragraph of that language is met."""
    from ..core.astutil import enclosing_conjuncts
    for path, q in (("pycaption/dfxp/base.py", "DFXPWriter.write"), ("pycaption/dfxp/extras.py", "LegacyDFXPWriter.write")):
        fn = ctx.index.get_function(path, q, inline=True, keep=("_relativize_and_fit_to_screen",))
        report.covered(fn)
        stores = [n for n in walk_no_nested(fn.node) if isinstance(n, ast.Assign) and isinstance(n.targets[0], ast.Subscript)
                  and isinstance(n.targets[0].slice, ast.Constant) and n.targets[0].slice.value == "xml:lang"
                  and any(isinstance(lp, ast.For) and any(x is n for x in walk_no_nested(lp)) for lp in walk_no_nested(fn.node))]
        if len(stores) != 1:
            raise AnalysisError(f"{q}: store of xml:lang on the language's div not unique ({len(stores)})")
        guards = enclosing_conjuncts(fn, stores[0]) or []
        report.check(not guards, "R-LABEL", (fn, stores[0]), "every div carries the xml:lang of its language (unconditionally)",
                     {"only_under": guards,
                      "why": None if not guards else "a div without xml:lang is read back under the document's default language"}, "2")
    pcls = ctx.index.get_class("pycaption/sami.py", "SAMIParser")
    writers = []
    for name, m in pcls.methods.items():
        for n in walk_no_nested(m.node):
            if isinstance(n, ast.Call) and isinstance(n.func, ast.Attribute) and src(n.func.value) == "self.langs" \
                    and n.func.attr in ("append", "add", "insert", "extend", "update"):
                writers.append(name)
    helpers = {"handle_starttag"}
    # helpers called only from handle_starttag are fine
    hs = pcls.find_method("handle_starttag")
    if hs is not None:
        from ..core.astutil import closure
        helpers |= {f.name for f in closure(ctx.index, hs)}
    extra = sorted(set(writers) - helpers)
    if not writers:
        raise AnalysisError("SAMIParser: no routine adds to self.langs")
    report.check(not extra, "R-WHO-WRITES", ("pycaption/sami.py", "SAMIParser"),
                 "a language is listed only when a paragraph of that language is met (order of first appearance)",
                 {"routines_adding_languages": sorted(set(writers)), "unexpected": extra}, "1")


def sami_paragraph_language(ctx, report):
    """SAMIParser._find_lang folded on attribute lists: a paragraph's language is the one its lang attribute gives, or the one
    its class declares in the stylesheet; a class that declares none does not hide a lang attribute beside it"""
    from ..core.constfold import Folder, Stub, FoldRaise
    folder = ctx.memo("folder", lambda: Folder(ctx.index))
    fl = ctx.index.get_function("pycaption/sami.py", "SAMIParser._find_lang")
    report.covered(fl)
    sheet = {"encc": {"lang": "en"}, "frcc": {"lang": "fr", "color": "red"}, "yellow": {"color": "#ffff00"}}
    cases = [
        ("lang attribute", [("lang", "fr")], "fr"),
        ("class that declares a language", [("class", "FRCC")], "fr"),
        ("class the stylesheet does not know, then lang", [("class", "nosuch"), ("lang", "fr")], "fr"),
        ("class that declares no language, then lang", [("class", "yellow"), ("lang", "fr")], "fr"),
        ("lang, then a class without language", [("lang", "fr"), ("class", "yellow")], "fr"),
        ("other attributes around", [("id", "x"), ("class", "encc"), ("style", "color:red")], "en"),
        ("neither", [("id", "x")], None),
        ("class without language only", [("class", "yellow")], None),
    ]
    bad = []
    for label, attrs, want in cases:
        try:
            got = folder.call_function(fl, [list(attrs)], {}, self_value=Stub("parser", {"styles": {k: dict(v) for k, v in sheet.items()}},
                                                                                cls=fl.cls))
        except FoldRaise as e:
            got = f"raises {e.exc_name}"
        except AnalysisError as e:
            raise AnalysisError(f"SAMIParser._find_lang cannot be folded on '{label}': {e}")
        if got != want:
            bad.append({"paragraph": label, "attributes": attrs, "language_found": got, "required": want})
    report.check(not bad, "R-LABEL", fl, "a SAMI paragraph's language: its lang attribute, or the language its class declares",
                 {"cases_folded": len(cases), "mismatches": bad[:3]}, "2")


def sami_language_classes(ctx, report):
    """In SAMI a paragraph's language is the language its class declares.  Folded from source:
    (a) _recreate_p_lang gives a paragraph the caption's own class only when that class declares a
        language, otherwise the language code itself;
    (b) _recreate_stylesheet writes every non-empty style block and, for every language of the set,
        a class that declares it - exactly once."""
    import itertools
    import re as _re
    from ..core.constfold import Folder, Stub
    folder = ctx.memo("folder", lambda: Folder(ctx.index))
    wcls = ctx.index.get_class("pycaption/sami.py", "SAMIWriter")
    pl = ctx.index.get_function("pycaption/sami.py", "SAMIWriter._recreate_p_lang")
    ss = ctx.index.get_function("pycaption/sami.py", "SAMIWriter._recreate_stylesheet")
    for f in (pl, ss):
        report.covered(f)
    styles = {"frcc": {"lang": "fr-FR", "color": "red"}, "big": {"font-size": "20px"}, "empty": {}}

    def captions_stub():
        return Stub("caption-set", {}, {"get_style": lambda name: dict(styles.get(name, {}))})
    cases = [({"class": "frcc"}, "frcc", "class that declares a language"),
             ({"class": "big"}, "xx", "class without a language"),
             ({"class": "empty"}, "xx", "class with no rules"),
             ({"class": "unknown"}, "xx", "class that is not in the stylesheet"),
             ({}, "xx", "caption without a class"),
             ({"italics": True}, "xx", "caption with inline style only")]
    bad = []
    for style, want, label in cases:
        try:
            got = folder.call_function(pl, [Stub("caption", {"style": dict(style)}), "xx", captions_stub()],
                                       self_value=Stub("writer", {}, cls=wcls))
        except AnalysisError as e:
            raise AnalysisError(f"_recreate_p_lang cannot be folded on '{label}': {e}")
        if got != want:
            bad.append({"caption": label, "class_written": got, "required": want})
    report.check(not bad, "R-LABEL", pl, "a paragraph carries the caption's class only if that class declares a language, "
                 "else the language code", {"cases_folded": len(cases), "mismatches": bad}, "2")
    # (b) stylesheet
    bad = []
    n = 0
    for langs in (["en-US"], ["en-US", "fr-FR"], ["fr-FR", "de"]):
        for extra in ([], [("frcc", styles["frcc"])], [("big", styles["big"]), ("empty", {})], [("p", {"color": "white"})]):
            n += 1
            cs = Stub("caption-set", {"layout_info": None},
                      {"get_styles": lambda extra=extra: [(k, dict(v)) for k, v in extra],
                       "get_languages": lambda langs=langs: list(langs), "get_layout_info": lambda lang: None})
            try:
                out = folder.call_function(ss, [cs], self_value=Stub("writer", {}, cls=wcls))
            except AnalysisError as e:
                raise AnalysisError(f"_recreate_stylesheet cannot be folded: {e}")
            if not isinstance(out, str):
                raise AnalysisError("_recreate_stylesheet does not fold to a string")
            for lang in langs:
                k = len(_re.findall(r"lang:\s*" + _re.escape(lang) + r"\b", out))
                if k != 1:
                    bad.append({"languages": langs, "styles": [e[0] for e in extra], "declarations_of": lang, "count": k})
            for name, rules in extra:
                present = (f".{name} " in out) or (f"\n    {name} " in out)
                if bool(rules) != present:
                    bad.append({"languages": langs, "style": name, "rules": rules, "block_written": present})
    report.check(not bad, "R-LABEL", ss, "the stylesheet declares every language of the set exactly once and writes every "
                 "non-empty style block", {"caption_sets_folded": n, "mismatches": bad[:3]}, "2")
