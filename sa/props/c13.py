"""C13 - absolute sizes are relativized exactly or refused; fit-to-screen stays safe.

Decided clauses (DESIGN.md 4/C13):
 1 R-AFFINE   Size.as_percentage_of per unit (em x16, pt x96/72, px x100/dimension, cell x100/32|15, % unchanged)
 2 routing    Point/Stretch/Padding hand width to horizontal parts, height to vertical parts
 3 R-MUSTRAISE no/both dimensions -> RelativizationError for every absolute unit, before any conversion
 4 R-LEVEL-COVERAGE every layout level a writer consumes has been relativized (+ order relativize -> fit)
 5 two decimals (R-PRINT, shared with C18)
 6 R-AFFINE   Layout.fit_to_screen: missing extent = (90-x, 95-y); an axis is replaced exactly when origin+extent
              exceeds 90 / 95; otherwise unchanged
NOT decided: numeric results for particular float magnitudes.
"""
import ast
import re
from fractions import Fraction

from ..core.tree import AnalysisError
from ..core.constfold import Folder, EnumClass
from ..core.astutil import walk_no_nested, call_name, short, src, kwarg
from ..engines.symeval import SymEvaluator, Poly, Param, SObj, Raised, SNone, NONE, Cmp
from ..engines.affine import check_affine, outcome_table
from ..spec import geometry_spec as G

GEOM = "pycaption/geometry.py"


def run(ctx, report):
    folder = ctx.memo("folder", lambda: Folder(ctx.index))
    report.structural_section("unit conversion (symbolic form)", "R-GRID: Size.as_percentage_of folded on the grid of units, values "
                              "and references (unit_grid)", unit_conversion, ctx, report, folder)
    report.section("unit conversion on a grid", unit_grid, ctx, report)
    report.section("axis routing", axis_routing, ctx, report)
    report.section("fit_to_screen", fit_to_screen, ctx, report, folder)
    report.structural_section("writer entry (shape)", "R-GRID: BaseWriter._relativize_and_fit_to_screen folded on every option "
                              "combination (writer_entry_fold)", writer_entry, ctx, report, folder)
    report.section("writer entry on the option grid", writer_entry_fold, ctx, report)
    report.section("level coverage", level_coverage, ctx, report)
    report.section("is_relative", is_relative_meaning, ctx, report, folder)
    from . import webvtt_layout_fold
    report.section("WebVTT cue settings on a grid", webvtt_layout_fold.run, ctx, report, {
        "raise": ("R-GRID", "2", "a non-percentage length whose video dimension was not supplied raises RelativizationError "
                                 "(relativize on); nothing else raises"),
        "units": ("R-GRID", "2", "every written length is a percentage with at most two decimals; with relativize off an "
                                 "absolute layout is not written at all"),
        "arith": ("R-GRID", "1", "every absolute length (px, em, pt, cells; also with three decimals) is written as the exact "
                                 "percentage of the video size it denotes, to two decimals"),
        "fit": ("R-GRID", "3", "fit_to_screen: the box is cut at the 90% edge, a missing width reaches exactly that edge, a "
                               "width that fits is unchanged"),
    })
    from . import abs_layout_fold
    report.section("DFXP and SAMI writers on absolute layouts", abs_layout_fold.run, ctx, report, "1", "2")
    report.not_decided.append("numeric results for particular float magnitudes (rounding of floats)")


RELATIVE_COMPONENTS = {       # the size-bearing parts of each geometry class
    "Stretch": ("horizontal", "vertical"), "Point": ("x", "y"),
    "Padding": ("before", "after", "start", "end"), "Layout": ("origin", "extent", "padding"),
}


def is_relative_meaning(ctx, report, folder):
    """The is_relative() guard that lets WebVTT skip relativization means what its users assume:
    Size.is_relative() is true exactly for percentages (folded over every unit and the values
    0, 1, 50), and a composite is relative exactly when EVERY size-bearing part is (folded on
    stubs: one part absolute at a time, all relative, parts absent)."""
    from ..core.constfold import Stub, Inst
    units = folder.value("pycaption.geometry", "UnitEnum")
    sz = ctx.index.get_class(GEOM, "Size")
    fn = sz.find_method("is_relative")
    if fn is None:
        raise AnalysisError("Size.is_relative not found")
    report.covered(fn)
    bad = []
    n = 0
    for u in units.members:
        for v in (0, 0.0, 1, 50.0):
            n += 1
            try:
                got = folder.call_function(fn, [], self_value=Stub("size", {"value": v, "unit": u}))
            except AnalysisError as e:
                raise AnalysisError(f"Size.is_relative cannot be folded: {e}")
            if bool(got) != (u.name == "PERCENT"):
                bad.append({"value": v, "unit": u.name, "is_relative": got})
    report.check(not bad, "R-GUARD-MEANING", fn, "Size.is_relative() is true exactly for percentages",
                 {"evaluations": n, "mismatches": bad[:4],
                  "why": "WebVTTWriter(relativize=False) writes a layout as it is when is_relative() says so"}, "1")
    for cname, parts in RELATIVE_COMPONENTS.items():
        c = ctx.index.get_class(GEOM, cname)
        f = c.find_method("is_relative")
        if f is None:
            raise AnalysisError(f"{cname}.is_relative not found")
        report.covered(f)
        from ..engines.structural import init_attrs
        others = [a for a in init_attrs(c)[0] if a not in parts]

        def part(flag):
            return Stub("part", {}, {"is_relative": (lambda flag=flag: flag)})
        cases = [({p: True for p in parts}, True)]
        for p in parts:
            cases.append(({q: (q != p) for q in parts}, False))          # exactly one absolute part
            cases.append(({q: True for q in parts if q != p}, True))      # that part absent, rest relative
        badc = []
        for present, want in cases:
            attrs = {p: (part(present[p]) if p in present else None) for p in parts}
            attrs.update({o: None for o in others})
            try:
                got = folder.call_function(f, [], self_value=Stub(cname.lower(), attrs))
            except AnalysisError as e:
                raise AnalysisError(f"{cname}.is_relative cannot be folded: {e}")
            if bool(got) != want:
                badc.append({"parts": {k: ("relative" if v else "absolute") for k, v in present.items()},
                             "is_relative": got, "required": want})
        report.check(not badc, "R-GUARD-MEANING", f, f"{cname}.is_relative() == every present part is relative",
                     {"parts": list(parts), "cases": len(cases), "mismatches": badc[:3]}, "1")


def unit_conversion(ctx, report, folder):
    fn = ctx.index.get_function(GEOM, "Size.as_percentage_of")
    report.covered(fn)
    units = folder.value("pycaption.geometry", "UnitEnum")
    if not isinstance(units, EnumClass):
        raise AnalysisError("UnitEnum not an Enum")
    cls = ctx.index.get_class(GEOM, "Size")
    W, H = "$video_width", "$video_height"
    expect = {
        "px": {"w": {f"{W}^-1*v": 100}, "h": {f"{H}^-1*v": 100}},
        "em": {"w": {f"{W}^-1*v": 100 * G.EM_PX}, "h": {f"{H}^-1*v": 100 * G.EM_PX}},
        "pt": {"w": {f"{W}^-1*v": Fraction(100 * G.PT_PX[0], G.PT_PX[1])},
               "h": {f"{H}^-1*v": Fraction(100 * G.PT_PX[0], G.PT_PX[1])}},
        "c": {"w": {"v": Fraction(100, G.CELL_COLUMNS)}, "h": {"v": Fraction(100, G.CELL_ROWS)}},
    }
    seen = 0
    for u in units.members:
        selfobj = SObj("inst:Size", {"value": Poly.atom("v", True), "unit": u}, "self", cls=cls)
        ev = SymEvaluator(ctx.index, folder)
        outs = ev.run(fn, None, self_obj=selfobj)
        if u.value == "%":
            ok = len(outs) == 1 and outs[0].value is selfobj or \
                all(isinstance(o.value, SObj) and o.value.path == "self" for o in outs)
            report.check(ok, "R-AFFINE", fn, "percentages are returned unchanged", outcome_table(outs), "1")
            seen += 1
            continue
        if u.value not in expect:
            report.violation("R-AFFINE", fn, f"unit {u.value!r} has no conversion in the specification", None, "1")
            continue
        cases = {}
        for o in outs:
            conds = dict(o.conds)
            w, h = conds.get(f"truthy({W})"), conds.get(f"truthy({H})")
            if w is None and h is None:
                raise AnalysisError(f"as_percentage_of[{u.value}]: dimension tests not found on a path")
            key = ("w" if w else "") + ("h" if h else "")
            cases.setdefault(key or "none", []).append(o)
        for key, label in (("none", "neither dimension given"), ("wh", "both dimensions given")):
            os_ = cases.get(key, [])
            ok = bool(os_) and all(isinstance(o.value, Raised) and o.value.exc == "RelativizationError" for o in os_)
            report.check(ok, "R-MUSTRAISE", fn, f"{u.value}: {label} -> RelativizationError (never a guessed value)",
                         outcome_table(os_) or "no such path", "3")
        for key, axis in (("w", "horizontal"), ("h", "vertical")):
            os_ = cases.get(key, [])
            if len(os_) != 1 or not isinstance(os_[0].value, SObj):
                raise AnalysisError(f"as_percentage_of[{u.value}] {axis}: expected one value path, got {len(os_)}")
            res = os_[0].value
            val, unit = res.attrs.get("value"), res.attrs.get("unit")
            check_affine(report, "R-AFFINE", fn, f"{u.value} -> % of video {'width' if key == 'w' else 'height'}",
                         val, expect[u.value][key], {"v", W, H}, "1")
            report.check(getattr(unit, "value", None) == "%", "R-AFFINE", fn,
                         f"{u.value} ({axis}): the result is tagged as a percentage", str(unit), "1")
        seen += 1
    if seen < 5:
        raise AnalysisError(f"only {seen} units analysed (floor 5)")
    report.count("unit_cases", seen)


def unit_grid(ctx, report):
    """Size.as_percentage_of folded concretely: every unit x values up to and beyond the reference (a length may exceed the
    frame: 800px of 640, 40 of 32 columns) x (width | height | neither | both)"""
    from ..core.constfold import FoldRaise
    F = Folder(ctx.index)
    F.object_classes = "*"
    fn = ctx.index.get_function(GEOM, "Size.as_percentage_of")
    report.covered(fn)
    to_px = {"PIXEL": Fraction(1), "EM": Fraction(G.EM_PX), "PT": Fraction(G.PT_PX[0], G.PT_PX[1])}
    values = [0, 1, 2.5, 15, 18, 32, 40, 64, 333.333, 640, 800, 1000.5]
    refs = [(640, None), (None, 360), (1920, None), (None, None), (640, 360)]
    bad_v, bad_r = [], []
    n = 0
    for unit in ("PIXEL", "EM", "PT", "CELL", "PERCENT"):
        for v in values:
            for vw, vh in refs:
                n += 1
                case = {"length": f"{v} {unit}", "video_width": vw, "video_height": vh}
                try:
                    size = F.eval_in("pycaption.geometry", ast.parse(f"Size(v, UnitEnum.{unit})", mode="eval").body, {"v": v})
                    r = F.call_function(fn, [], {"video_width": vw, "video_height": vh}, self_value=size)
                except FoldRaise as e:
                    if unit == "PERCENT" or (vw is None) != (vh is None) or e.exc_name != "RelativizationError":
                        bad_r.append(dict(case, raises=e.exc_name))
                    continue
                except AnalysisError as e:
                    raise AnalysisError(f"Size.as_percentage_of cannot be folded on {v} {unit}: {e}")
                got_v, got_u = r.attrs.get("value"), getattr(r.attrs.get("unit"), "name", None)
                if unit == "PERCENT":
                    want = Fraction(str(v))
                elif (vw is None) == (vh is None):
                    bad_r.append(dict(case, returns=f"{got_v} {got_u}", required="RelativizationError"))
                    continue
                elif unit == "CELL":
                    want = Fraction(str(v)) * 100 / (G.CELL_COLUMNS if vw else G.CELL_ROWS)
                else:
                    want = Fraction(str(v)) * to_px[unit] * 100 / (vw or vh)
                if got_u != "PERCENT" or not isinstance(got_v, (int, float)) or abs(Fraction(got_v) - want) > Fraction(1, 10**9):
                    bad_v.append(dict(case, returns=f"{got_v} {got_u}", required=f"{float(want)} PERCENT"))
    report.count("unit_grid_points", n)
    report.check(not bad_v, "R-GRID", fn, f"Size.as_percentage_of on {n} grid points (px, em, pt, cells, %; lengths below, at and beyond "
                 "the reference): the result is the percentage of the given dimension the length denotes - 1em = 16px, 1pt = 4/3 px, "
                 "32 x 15 cells - and a percentage is returned as it is", {"mismatches": bad_v[:3]}, "1")
    report.check(not bad_r, "R-GRID", fn, "an absolute length raises RelativizationError exactly when neither or both dimensions are "
                 "given; a percentage never raises", {"mismatches": bad_r[:3]}, "3")


ROUTING = {
    "Point": {"x": "video_width", "y": "video_height"},
    "Stretch": {"horizontal": "video_width", "vertical": "video_height"},
    "Padding": {"before": "video_height", "after": "video_height", "start": "video_width", "end": "video_width"},
}


def axis_routing(ctx, report):
    for cname, table in ROUTING.items():
        fn = ctx.index.get_function(GEOM, f"{cname}.as_percentage_of")
        report.covered(fn)
        calls = [c for c in walk_no_nested(fn.node) if isinstance(c, ast.Call) and isinstance(c.func, ast.Attribute)
                 and c.func.attr == "as_percentage_of"]
        found = {}
        for c in calls:
            m = re.fullmatch(r"self\.(\w+)", src(c.func.value))
            if not m:
                continue
            kws = {k.arg: src(k.value) for k in c.keywords}
            pos = [src(a) for a in c.args]
            if len(kws) == 1 and not pos:
                (k, v), = kws.items()
                found[m.group(1)] = (k, v)
            elif len(pos) == 2 and not kws:
                found[m.group(1)] = ("positional", tuple(pos))
            else:
                found[m.group(1)] = ("?", src(c))
        ok = set(found) == set(table) and all(found[a] == (dim, dim) for a, dim in table.items())
        report.check(ok, "R-FIELD-ROUTING", fn, f"{cname}: width to horizontal parts, height to vertical parts",
                     {"found": {k: f"{v[0]}={v[1]}" for k, v in found.items()},
                      "required": {k: f"{v}={v}" for k, v in table.items()}}, "2")
        # the constructor receives the converted parts in its own parameter order
        init = ctx.index.get_function(GEOM, f"{cname}.__init__")
        ret = [n.value for n in walk_no_nested(fn.node) if isinstance(n, ast.Return)]
        if len(ret) == 1 and isinstance(ret[0], ast.Call) and call_name(ret[0]) == cname:
            order = []
            for a in ret[0].args:
                from ..core.astutil import resolve_local as _rl
                m = re.match(r"self\.(\w+)\.as_percentage_of", src(_rl(fn, a.value if isinstance(a, ast.keyword) else a)))
                order.append(m.group(1) if m else None)
            if None in order or ret[0].keywords:
                report.info("R-STRUCTURE", fn, f"{cname}.as_percentage_of: argument routing not read (spelling not recognised)",
                            {"clause_decided_by": "R-GRID on the layout grids (webvtt_layout_fold, abs_layout_fold)"}, None)
                continue
            report.check(order == init.params[1:1 + len(order)], "R-FIELD-ROUTING", fn,
                         f"{cname}: converted parts are passed in the constructor's parameter order",
                         {"found": order, "constructor": init.params[1:]}, "2")
        else:
            raise AnalysisError(f"{cname}.as_percentage_of: return {cname}(...) not recognised")
    lfn = ctx.index.get_function(GEOM, "Layout.as_percentage_of")
    report.covered(lfn)
    calls = [c for c in walk_no_nested(lfn.node) if isinstance(c, ast.Call) and isinstance(c.func, ast.Attribute)
             and c.func.attr == "as_percentage_of"]
    ok = len(calls) == 1 and [src(a) for a in calls[0].args] == ["video_width", "video_height"] and not calls[0].keywords
    loops = [n for n in walk_no_nested(lfn.node) if isinstance(n, ast.For) and isinstance(n.iter, (ast.List, ast.Tuple))]
    names = sorted(e.value for l in loops for e in l.iter.elts if isinstance(e, ast.Constant))
    report.check(ok and names == ["extent", "origin", "padding"], "R-FIELD-ROUTING", lfn,
                 "Layout relativizes origin, extent and padding with (width, height)",
                 {"components": names, "call": [short(c) for c in calls]}, "2")


def fit_to_screen(ctx, report, folder):
    fn = ctx.index.get_function(GEOM, "Layout.fit_to_screen")
    report.covered(fn)
    units = folder.value("pycaption.geometry", "UnitEnum")
    pct = units.by_name("PERCENT")
    C = ctx.index.by_path[GEOM].classes

    def size(name):
        return SObj("inst:Size", {"value": Poly.atom(name, True), "unit": pct}, name, cls=C["Size"])
    origin = SObj("inst:Point", {"x": size("ox"), "y": size("oy")}, "origin", cls=C["Point"])
    extent = SObj("inst:Stretch", {"horizontal": size("eh"), "vertical": size("ev")}, "extent", cls=C["Stretch"])
    pad = SObj("inst:Padding", {}, "PADDING", cls=C["Padding"])
    ali = SObj("inst:Alignment", {}, "ALIGNMENT", cls=C["Alignment"])
    vocab = {"ox", "oy", "eh", "ev"}
    # (a) missing extent
    selfobj = SObj("inst:Layout", {"origin": origin, "extent": NONE, "padding": pad, "alignment": ali,
                                   "webvtt_positioning": NONE}, "self", cls=C["Layout"])
    ev = SymEvaluator(ctx.index, folder)
    outs = [o for o in ev.run(fn, None, self_obj=selfobj) if isinstance(o.value, SObj)]
    if len(outs) != 1:
        raise AnalysisError("fit_to_screen (no extent): expected one value path")
    _check_layout(report, fn, outs[0].value, "missing extent reaches exactly the safe-area edges",
                  {"h": {"": G.SAFE_RIGHT, "ox": -1}, "v": {"": G.SAFE_BOTTOM, "oy": -1}}, vocab, origin, pad, ali)
    # (b) extent present: per axis replaced iff origin+extent exceeds the edge
    selfobj = SObj("inst:Layout", {"origin": origin, "extent": extent, "padding": pad, "alignment": ali,
                                   "webvtt_positioning": NONE}, "self", cls=C["Layout"])
    ev = SymEvaluator(ctx.index, folder)
    outs = [o for o in ev.run(fn, None, self_obj=selfobj) if isinstance(o.value, SObj)]
    if len(outs) != 4:
        raise AnalysisError(f"fit_to_screen (with extent): expected 4 value paths (2 axes x fits/overflows), got {len(outs)}")
    for o in outs:
        hx = vy = None
        for ctext, truth in o.conds:
            obj = ev.cond_objs.get(ctext)
            if not isinstance(obj, Cmp) or not isinstance(obj.left, Poly) or not isinstance(obj.right, Poly):
                raise AnalysisError(f"fit_to_screen: condition not recognised: {ctext[:80]}")
            lt, rt = obj.left, obj.right
            if not rt.is_const():
                raise AnalysisError(f"fit_to_screen: comparison against a non-constant: {ctext[:80]}")
            axis = None
            if lt.same_form(Poly.atom("ox").add(Poly.atom("eh"))):
                axis, edge = "h", G.SAFE_RIGHT
            elif lt.same_form(Poly.atom("oy").add(Poly.atom("ev"))):
                axis, edge = "v", G.SAFE_BOTTOM
            if axis is None:
                known = set(lt.atoms()) <= vocab
                if not known:
                    report.violation("R-AFFINE", fn, "overflow test compares origin + extent with the safe-area edge",
                                     {"tested": ctext[:160], "why": "the tested quantity is not origin+extent"}, "6")
                    return
                report.violation("R-AFFINE", fn, "overflow test compares origin + extent with the safe-area edge",
                                 {"tested": ctext[:160]}, "6")
                return
            okc = obj.op in (">", ">=") and rt.const_value() == edge
            report.check(okc, "R-THRESHOLD", fn, f"{'horizontal' if axis == 'h' else 'vertical'} overflow test is "
                         f"origin+extent > {edge}", {"tested": ctext[:120]}, "6")
            if axis == "h":
                hx = truth
            else:
                vy = truth
        if hx is None or vy is None:
            raise AnalysisError("fit_to_screen: a path lacks one of the two overflow tests")
        exp = {"h": ({"": G.SAFE_RIGHT, "ox": -1} if hx else {"eh": 1}),
               "v": ({"": G.SAFE_BOTTOM, "oy": -1} if vy else {"ev": 1})}
        _check_layout(report, fn, o.value,
                      f"extent: horizontal {'clamped to 90-x' if hx else 'kept'}, vertical "
                      f"{'clamped to 95-y' if vy else 'kept'}", exp, vocab, origin, pad, ali)
    # (c) no origin: unchanged
    selfobj = SObj("inst:Layout", {"origin": NONE, "extent": extent, "padding": pad, "alignment": ali,
                                   "webvtt_positioning": NONE}, "self", cls=C["Layout"])
    outs = SymEvaluator(ctx.index, folder).run(fn, None, self_obj=selfobj)
    ok = len(outs) == 1 and isinstance(outs[0].value, SObj) and outs[0].value.path == "self"
    report.check(ok, "R-AFFINE", fn, "a layout without origin is returned unchanged", outcome_table(outs), "6")
    report.assume("geometry components are truthy objects (R-BOOL-STRUCTURAL, C18)")


def _check_layout(report, fn, lay, label, exp, vocab, origin, pad, ali):
    ext = lay.attrs.get("extent")
    if not isinstance(ext, SObj):
        raise AnalysisError("fit_to_screen: result has no extent object")
    h = ext.attrs["horizontal"].attrs["value"]
    v = ext.attrs["vertical"].attrs["value"]
    check_affine(report, "R-AFFINE", fn, label + " [horizontal]", h, exp["h"], vocab, "6")
    check_affine(report, "R-AFFINE", fn, label + " [vertical]", v, exp["v"], vocab, "6")
    keep = lay.attrs.get("origin") is origin or getattr(lay.attrs.get("origin"), "path", None) == "origin"
    keep_p = getattr(lay.attrs.get("padding"), "path", None) == "PADDING"
    keep_a = getattr(lay.attrs.get("alignment"), "path", None) == "ALIGNMENT"
    report.check(keep and keep_p and keep_a, "R-FIELD-ROUTING", fn, label + ": origin, padding, alignment carried over",
                 {"origin": keep, "padding": keep_p, "alignment": keep_a}, "6")


def writer_entry(ctx, report, folder):
    fn = ctx.index.get_function("pycaption/base.py", "BaseWriter._relativize_and_fit_to_screen")
    report.covered(fn)
    from ..engines import pathrules as PR
    classify = PR.call_classifier({"as_percentage_of": "REL", "fit_to_screen": "FIT"})

    def cls2(n):
        lab = classify(n)
        if lab:
            return lab
        if isinstance(n, ast.Attribute) and isinstance(n.value, ast.Name) and n.value.id == "self" \
                and n.attr in ("relativize", "fit_to_screen") and isinstance(n.ctx, ast.Load):
            return "T:" + n.attr
        return None
    paths = PR.paths_of_block(fn.node.body, cls2)
    # enumerate the option combinations from the structure: each FIT must be guarded only by self.fit_to_screen (and
    # the truthiness of the layout), each REL only by self.relativize, and REL precedes FIT
    tests = [n for n in walk_no_nested(fn.node) if isinstance(n, ast.If)]
    guards = {}
    for t in tests:
        for st in t.body:
            for c in walk_no_nested(st):
                if isinstance(c, ast.Call) and isinstance(c.func, ast.Attribute) and \
                        c.func.attr in ("as_percentage_of", "fit_to_screen"):
                    guards.setdefault(c.func.attr, []).append(src(t.test))
    pm = PR.ParentGuard(fn.node) if hasattr(PR, "ParentGuard") else None
    rel_guards = _enclosing_tests(fn.node, "as_percentage_of")
    fit_guards = _enclosing_tests(fn.node, "fit_to_screen")
    lay = fn.params[1]
    ok_rel = sorted(rel_guards) == sorted([lay, "self.relativize"])
    ok_fit = sorted(fit_guards) == sorted([lay, "self.fit_to_screen"])
    report.recognise(ok_rel, "R-GUARD", fn, "relativization depends only on the relativize option (and a layout being present)",
                     {"guards": rel_guards}, "4")
    report.recognise(ok_fit, "R-GUARD", fn, "fit-to-screen depends only on the fit_to_screen option (and a layout being present)",
                     {"guards": fit_guards, "why": "with relativize off, percentage layouts must still be fitted"}, "6")
    order_ok = all(("REL" not in PR.flat(ev) or "FIT" not in PR.flat(ev) or
                    PR.flat(ev).index("REL") < PR.flat(ev).index("FIT")) for ev, _ in paths)
    report.recognise(order_ok, "R-ORDER", fn, "relativize before fit (fit_to_screen presumes percentages)", None, "4")
    calls = [c for c in walk_no_nested(fn.node) if isinstance(c, ast.Call) and isinstance(c.func, ast.Attribute)
             and c.func.attr == "as_percentage_of"]
    ok = len(calls) == 1 and [src(a) for a in calls[0].args] == ["self.video_width", "self.video_height"]
    report.recognise(ok, "R-FIELD-ROUTING", fn, "the writer's video width and height are handed to the conversion",
                     [short(c) for c in calls], "2")


def writer_entry_fold(ctx, report):
    """`BaseWriter._relativize_and_fit_to_screen` folded on a stub writer: relativize x fit_to_screen x {no layout, a percentage
    layout that overshoots the safe area, one that fits, a pixel layout that fits, one that overshoots} with a 640 x 360 video"""
    from ..core.constfold import Stub, FoldRaise
    F = Folder(ctx.index)
    F.object_classes = "*"
    fn = ctx.index.get_function("pycaption/base.py", "BaseWriter._relativize_and_fit_to_screen")
    report.covered(fn)

    def lay(ox, oy, ew, eh, unit):
        return F.eval_in("pycaption.geometry", ast.parse(
            f"Layout(origin=Point(Size(a, UnitEnum.{unit}), Size(b, UnitEnum.{unit})), extent=Stretch(Size(c, UnitEnum.{unit}), Size(d, UnitEnum.{unit})))",
            mode="eval").body, {"a": ox, "b": oy, "c": ew, "d": eh})

    def value(l):
        if not isinstance(l, Stub):
            return l
        o, e_ = l.attrs.get("origin"), l.attrs.get("extent")
        g = lambda s_: (round(float(s_.attrs["value"]), 4), getattr(s_.attrs["unit"], "name", None))      # noqa: E731
        return (g(o.attrs["x"]), g(o.attrs["y"]), g(e_.attrs["horizontal"]), g(e_.attrs["vertical"]))
    P, X = "PERCENT", "PIXEL"
    cases = {
        "a percentage layout that overshoots": (lambda: lay(50, 50, 60, 60, P), None),
        "a percentage layout that fits": (lambda: lay(10, 10, 50, 50, P), None),
        "a pixel layout that fits": (lambda: lay(64, 36, 320, 180, X), ((10.0, P), (10.0, P), (50.0, P), (50.0, P))),
        "a pixel layout that overshoots": (lambda: lay(320, 180, 384, 216, X), ((50.0, P), (50.0, P), (60.0, P), (60.0, P))),
    }
    fitted = {((50.0, P), (50.0, P), (60.0, P), (60.0, P)): ((50.0, P), (50.0, P), (40.0, P), (45.0, P))}
    bad = []
    n = 0
    for rel in (True, False):
        for fit in (True, False):
            me = Stub("writer", {"relativize": rel, "fit_to_screen": fit, "video_width": 640, "video_height": 360}, cls=fn.cls)
            n += 1
            try:
                r0 = F.call_function(fn, [None], {}, self_value=me)
            except (FoldRaise, AnalysisError) as e:
                raise AnalysisError(f"_relativize_and_fit_to_screen cannot be folded without a layout: {e}")
            if r0:
                bad.append({"relativize": rel, "fit_to_screen": fit, "layout": None, "returns": str(r0)[:80], "required": "nothing"})
            for label, (mk, as_pct) in cases.items():
                n += 1
                src_l = mk()
                before = value(src_l)
                px = as_pct is not None
                if px and not rel:
                    # (an absolute layout with relativization off: what happens to it is the writer's business - WebVTT drops
                    # it, DFXP writes it as it is; fitting it is undefined.  Only the unfitted case is judged - but whatever
                    # the routine does with it, it leaves the writer's own options alone.)
                    if fit:
                        try:
                            F.call_function(fn, [src_l], {}, self_value=me)
                        except (FoldRaise, AnalysisError):
                            pass
                        if (me.attrs.get("relativize"), me.attrs.get("fit_to_screen")) != (rel, fit):
                            bad.append({"relativize": rel, "fit_to_screen": fit, "layout": label,
                                        "why": "the call changed the writer's own options",
                                        "options_afterwards": {k_: me.attrs.get(k_) for k_ in ("relativize", "fit_to_screen")}})
                            me.attrs.update({"relativize": rel, "fit_to_screen": fit})
                        continue
                    want = before
                else:
                    want = as_pct if px else before
                    if fit:
                        want = fitted.get(want, want)
                try:
                    got = value(F.call_function(fn, [src_l], {}, self_value=me))
                except FoldRaise as e:
                    bad.append({"relativize": rel, "fit_to_screen": fit, "layout": label, "raises": e.exc_name})
                    continue
                except AnalysisError as e:
                    raise AnalysisError(f"_relativize_and_fit_to_screen cannot be folded on {label}: {e}")
                if got != want:
                    bad.append({"relativize": rel, "fit_to_screen": fit, "layout": label, "returns": got, "required": want})
                elif value(src_l) != before:
                    bad.append({"relativize": rel, "fit_to_screen": fit, "layout": label, "why": "the layout handed in was modified"})
                elif (me.attrs.get("relativize"), me.attrs.get("fit_to_screen"), me.attrs.get("video_width"), me.attrs.get("video_height")) \
                        != (rel, fit, 640, 360):
                    bad.append({"relativize": rel, "fit_to_screen": fit, "layout": label, "why": "the call changed the writer's own options"})
                    me.attrs.update({"relativize": rel, "fit_to_screen": fit, "video_width": 640, "video_height": 360})
    report.count("writer_entry_grid_points", n)
    report.check(not bad, "R-GRID", fn, f"_relativize_and_fit_to_screen on {n} combinations of relativize / fit_to_screen / layout: lengths are "
                 "converted exactly when relativize is on (width for x, height for y), the box is cut at 90% / 95% exactly when "
                 "fit_to_screen is on - also with relativize off -, conversion comes before fitting, no layout gives none",
                 {"mismatches": bad[:3]}, "4")


def _enclosing_tests(fnnode, method):
    """source text of the `if` tests that enclose the call of `method` (early
    returns `if not X: return` before the call count as guard X)"""
    res = []

    def visit(body, guards):
        g = list(guards)
        for st in body:
            if isinstance(st, ast.If):
                # early exit form
                exits = st.body and isinstance(st.body[-1], (ast.Return, ast.Raise)) and not st.orelse
                if exits:
                    t = st.test
                    if isinstance(t, ast.UnaryOp) and isinstance(t.op, ast.Not):
                        g.append(src(t.operand))
                    elif isinstance(t, ast.BoolOp) and isinstance(t.op, ast.Or):
                        for v in t.values:
                            g.append(src(v.operand) if isinstance(v, ast.UnaryOp) and isinstance(v.op, ast.Not)
                                     else f"not ({src(v)})")
                    else:
                        g.append(f"not ({src(t)})")
                    visit(st.body, g)
                    continue
                tg = []
                t = st.test
                if isinstance(t, ast.BoolOp) and isinstance(t.op, ast.And):
                    tg = [src(v) for v in t.values]
                else:
                    tg = [src(t)]
                visit(st.body, g + tg)
                visit(st.orelse, g + [f"not ({src(t)})"])
            else:
                for c in walk_no_nested(st):
                    if isinstance(c, ast.Call) and isinstance(c.func, ast.Attribute) and c.func.attr == method:
                        res.extend(x for x in g if x not in res)
    visit(fnnode.body, [])
    return res


def level_coverage(ctx, report):
    from . import c13_levels
    c13_levels.run(ctx, report)
