"""C10 - reading is a deterministic, isolated function of document and options.

Decided clauses (DESIGN.md 4/C10), for the six discovered readers:
 1 R-STATE     every piece of reader state written or mutated during read() is re-created before its first use in
               that call (helper objects held in attributes included)
 2 R-DEFAULTS  no mutable default argument escapes, package-wide
 3 R-HASHORDER / R-NONDET over read-reachable code
 4 R-GLOBALMUT no module-/class-level object is mutated; R-SCRATCH: lists handed to a Caption are re-bound, never
               destructively mutated
NOT decided: equality of two result sets as such.
"""
import ast

from ..core.tree import AnalysisError
from ..core.astutil import walk_no_nested, call_name, short, src, is_self_attr
from ..engines import effects as E
from ..engines import structural as S
from ..engines import pathrules as PR
from ..engines.absint import AV, Piece

DESTRUCTIVE = {"clear", "pop", "remove", "sort", "reverse", "insert", "popleft", "__delitem__"}


def readers(ctx):
    base = ctx.index.get_class("pycaption/base.py", "BaseReader")
    return sorted((c for c in ctx.index.subclasses(base, strict=True)), key=lambda c: (c.module.path, c.name))


def run(ctx, report):
    E.validate_schema(ctx.index)
    rs = readers(ctx)
    if len(rs) < 6:
        raise AnalysisError(f"only {len(rs)} readers discovered (floor 6)")
    for cls in rs:
        report.section(cls.name, one_reader, ctx, report, cls)
    report.section("defaults", S.rule_defaults, report, ctx.index, "2")
    report.section("direct global mutation", S.rule_globalmut_direct, report, ctx.index, "4")
    report.section("memoised functions", memoised, ctx, report)
    report.section("scratch lists", scratch_lists, ctx, report, rs)
    from . import chain_fold
    report.section("reader objects used repeatedly", chain_fold.reader_reuse, ctx, report, "R-DOC-REUSE", "1")
    from . import scc_e2e_fold
    report.section("SCC reader reuse", scc_e2e_fold.run_part, ctx, report, "times", {
        "reuse": ("R-DOC-REUSE", "1", "one SCC reader object reading a second document after a complete read and after an aborted one, "
                                      "and a fresh reader: the caption sets share no caption, node, layout or style object")})
    from . import sami_reader_fold
    report.section("SAMI reader reuse", sami_reader_fold.run, ctx, report, {"reuse": ("R-DOC-REUSE", "1")})
    report.not_decided.append("equality of two result sets as such; behaviour of bs4 / html.parser / cssutils")
    report.assume("DEFAULT_LANGUAGE_CODE is read from the environment once at import (configuration)")


def one_reader(ctx, report, cls):
    rd = cls.find_method("read")
    if rd is None or rd.cls.name == "BaseReader":
        report.info("R-STATE", (cls.module.path, cls.name), "inherits BaseReader.read")
        return
    doc = AV(kinds=["str"], pieces=[Piece("data", "doc", (), None, None)])
    run = E.run_entry(ctx, cls, "read", {rd.params[1]: doc})
    for f in sorted(run.I.visited_functions):
        report.covered(f)
    E.rule_state(report, run, f"{cls.name}: read() starts from freshly created state", "1")
    E.rule_hashorder(report, run, f"{cls.name}.read: no hash order reaches the result", "3")
    E.rule_nondet(report, run, f"{cls.name}.read calls no clock / random / environment source", "3")
    E.rule_globalmut(report, run, f"{cls.name}.read mutates no module-/class-level object", "4")
    E.rule_result_alias(report, run, f"{cls.name}.read: the result shares no mutable object with module-level state", "4")
    report.count("functions_inlined", len(run.I.visited_functions))
    report.count("calls_unresolved", run.I.counters["calls_unresolved"])


def scratch_lists(ctx, report, rs):
    n = 0
    for cls in rs:
        attrs = {}
        for m in cls.methods.values():
            for c in walk_no_nested(m.node):
                if isinstance(c, ast.Call) and call_name(c) == "Caption":
                    for a in list(c.args) + [k.value for k in c.keywords]:
                        if is_self_attr(a):
                            attrs.setdefault(a.attr, []).append((m, c))
        for attr, uses in attrs.items():
            n += 1
            bad = []
            for m in cls.methods.values():
                for node in walk_no_nested(m.node):
                    if isinstance(node, ast.Call) and isinstance(node.func, ast.Attribute) \
                            and is_self_attr(node.func.value) and node.func.value.attr == attr \
                            and node.func.attr in DESTRUCTIVE:
                        bad.append(f"{m.qualname}: {short(node)}")
                    if isinstance(node, ast.Delete):
                        for t in node.targets:
                            if isinstance(t, ast.Subscript) and is_self_attr(t.value) and t.value.attr == attr:
                                bad.append(f"{m.qualname}: {short(node)}")
                    if isinstance(node, ast.Assign):
                        for t in node.targets:
                            if isinstance(t, ast.Subscript) and is_self_attr(t.value) and t.value.attr == attr:
                                bad.append(f"{m.qualname}: {short(node)}")
            report.check(not bad, "R-SCRATCH", (cls.module.path, cls.name),
                         f"self.{attr} (handed to Caption) is never destructively mutated",
                         {"destructive_sites": bad,
                          "why": "the list lives on in the caption already returned: clearing it edits an earlier result"}, "4")
            for m, call in uses:
                def classify(node, attr=attr, call=call):
                    if isinstance(node, ast.Assign) and any(is_self_attr(t) and t.attr == attr for t in node.targets) \
                            and isinstance(node.value, (ast.List, ast.Call, ast.ListComp)):
                        return "FRESH"
                    if node is call:
                        return "HANDOVER"
                    return None
                paths = PR.paths_of_block(m.node.body, classify)
                bad_paths = []
                for ev, end in paths:
                    fl = PR.flat(ev)
                    if "HANDOVER" in fl and "FRESH" not in fl[:fl.index("HANDOVER")]:
                        bad_paths.append(fl)
                report.check(not bad_paths, "R-SCRATCH", (m, call),
                             f"self.{attr} is re-bound to a fresh list before every caption that receives it",
                             {"offending_paths": bad_paths[:2]}, "4")
    if n < 2:
        raise AnalysisError(f"R-SCRATCH: only {n} scratch lists found (floor 2: DFXPReader.nodes, SAMIReader.line)")


def memoised(ctx, report):
    from ..core.tree import SourceTree
    from ..core.index import Index
    S.rule_memo_selftest(lambda files: Index(SourceTree(files, label="R-MEMO example")))
    n_fn, n_memo = S.rule_memo(report, ctx.index, "4")
    report.count("functions_scanned_for_memoising_decorators", n_fn)
