"""C10 - reading is a deterministic, isolated function of document and options."""
from ..engines import structural as S


def run(ctx, report):
    S.rule_defaults(report, ctx.index, clause="2")
    S.rule_globalmut_direct(report, ctx.index, clause="4")
