"""C20 clauses 1-3 as a small-scope exhaustive fold.

The sources of `detect_format` and of the six `detect` methods are folded (the checker's own
evaluator; nothing of pycaption is imported or run) on every string made of at most N tokens of
a small alphabet of digits, letters, newlines, braces, arrows and the formats' markers, and on
every prefix of the writers' skeleton documents.  For each string s:

  R-NOTHROW       no detect raises on s                                  (s non-empty)
  R-FIRST-ACCEPT  detect_format(s) is the first class of the DOCUMENTED order whose own detect
                  accepts s, or None when none does; it does not raise
  R-DOMINATES     detect_format('') raises the documented no-captions error

and for every writer's skeleton document d (constants of the writers, plus a sample cue):

  R-MARKER            the writer's own reader accepts d
  R-MARKER-EXCLUSION  no reader EARLIER in the order accepts d
"""
import itertools

from ..core.tree import AnalysisError
from ..core.constfold import Stub, FoldRaise, ClassRef

ORDER = ["DFXPReader", "MicroDVDReader", "WebVTTReader", "SAMIReader", "SRTReader", "SCCReader"]
TOKENS = ["1", "a", "\n", " ", "{1}", "{0}", "-->", "WEBVTT", "<sami", "</tt>", "Scenarist_SCC V1.0",
          "00:00:01,000", "\t", "2 ", "\ufeff"]


class Sniffers:
    def __init__(self, ctx, folder):
        self.folder = folder
        self.det = {}
        for n in ORDER:
            c = ctx.index.find_class(n)
            m = c.find_method("detect") if c is not None else None
            if m is None:
                raise AnalysisError(f"{n}.detect not found")
            self.det[n] = m
        self.fmt = ctx.index.get_function("pycaption/__init__.py", "detect_format")
        self.cache = {}

    def accepts(self, reader, s):
        """True / False / ('raise', name)"""
        k = (reader, s)
        if k not in self.cache:
            m = self.det[reader]
            try:
                r = bool(self.folder.call_function(m, [s], {}, self_value=Stub(reader, {}, cls=m.cls)))
            except FoldRaise as e:
                r = ("raise", e.exc_name or str(e))
            except AnalysisError as e:
                raise AnalysisError(f"{reader}.detect cannot be folded on {s[:40]!r}: {e}")
            self.cache[k] = r
        return self.cache[k]

    def detect_format(self, s):
        try:
            r = self.folder.call_function(self.fmt, [s], {})
        except FoldRaise as e:
            return ("raise", e.exc_name or str(e))
        except AnalysisError as e:
            raise AnalysisError(f"detect_format cannot be folded on {s[:40]!r}: {e}")
        if r is None:
            return None
        if isinstance(r, ClassRef):
            return r.cls.name
        return ("value", repr(r)[:60])


def strings(max_tokens, extra=()):
    seen = set()
    for n in range(1, max_tokens + 1):
        for combo in itertools.product(TOKENS, repeat=n):
            s = "".join(combo)
            if s not in seen:
                seen.add(s)
                yield s
    for d in extra:
        for i in range(1, len(d) + 1):
            s = d[:i]
            if s not in seen:
                seen.add(s)
                yield s
    # a byte-order mark left in front of a document (and on its own)
    for d in extra:
        for s in ("\ufeff" + d, "\ufeff\ufeff" + d[:40]):
            if s not in seen:
                seen.add(s)
                yield s
    # long inputs: a marker (or a whole document of the writers) at the start, in the middle and at the end of several
    # thousand characters of neutral text - the answer may not depend on WHERE in the string the deciding part sits
    pad = "lorem ipsum dolor sit amet " * 120            # 3240 characters without any marker
    for core in [t for t in TOKENS if len(t) > 3] + [d[:400] for d in extra]:
        for s in (core + "\n" + pad, pad + "\n" + core + "\n" + pad, pad + "\n" + core):
            if s not in seen:
                seen.add(s)
                yield s


def run(ctx, report, folder, documents, clause_order="1", clause_nothrow="2"):
    sn = Sniffers(ctx, folder)
    for m in sn.det.values():
        report.covered(m)
    report.covered(sn.fmt)
    n_tok = 3 if ctx.tier == "thorough" else 2
    docs = [d for ds in documents.values() for d in ds]
    throws = {}
    disagree = []
    n = 0
    for s in strings(n_tok, extra=[d[:160] for d in docs]):
        n += 1
        first = None
        for r in ORDER:
            a = sn.accepts(r, s)
            if isinstance(a, tuple):
                throws.setdefault(r, []).append((s, a[1]))
            elif a and first is None:
                first = r
        got = sn.detect_format(s)
        if any(isinstance(sn.accepts(r, s), tuple) for r in ORDER):
            continue      # reported under R-NOTHROW; the expected answer is undefined
        if got != first:
            disagree.append({"input": s[:80], "detect_format": got, "first_accepting_reader_in_documented_order": first})
    report.count("detection_strings_folded", n)
    for r in ORDER:
        bad = throws.get(r, [])
        report.check(not bad, "R-NOTHROW", sn.det[r], f"{r}.detect returns on every folded non-empty string",
                     {"strings": n, "raises_on": [{"input": s[:60], "exception": x} for s, x in bad[:3]]}, clause_nothrow)
    report.check(not disagree, "R-FIRST-ACCEPT", sn.fmt,
                 "detect_format returns the first reader of the documented order whose own detect accepts, else None",
                 {"strings": n, "order": ORDER, "disagreements": disagree[:3]}, clause_order)
    e = sn.detect_format("")
    report.check(e == ("raise", "CaptionReadNoCaptions"), "R-DOMINATES", sn.fmt,
                 "the empty string raises CaptionReadNoCaptions", {"folded_result": e}, clause_order)
    return sn


# ---------------------------------------------------------------------------
def own_output(ctx, report, sn, clause="3"):
    """writers and readers folded back to back: what a (text) writer produces is claimed by its own reader first,
    and that reader reads it"""
    import ast
    from . import scc_e2e_fold
    from ..core.constfold import Folder
    F = Folder(ctx.index)
    F.object_classes = scc_e2e_fold.OBJECTS

    def ev(text, **local):
        return F.eval_in("pycaption.base", ast.parse(text, mode="eval").body, local)

    def caption(s, e, lines):
        nodes = []
        for i, l in enumerate(lines):
            if i:
                nodes.append(ev("CaptionNode.create_break()"))
            nodes.append(ev("CaptionNode.create_text(t)", t=l))
        return ev("Caption(s, e, n)", s=s, e=e, n=nodes)
    S = 1000000
    sets = {
        "one cue": {"en-US": [(S, 2 * S, ["hello"])]},
        "two cues, two lines": {"en-US": [(S, 2 * S, ["hello", "there"]), (5 * S, 7 * S, ["bye"])]},
        "a cue inside the second frame": {"en-US": [(45000, 70000, ["Line 0"]), (S, 2 * S, ["Line 1"])]},
        "a number as text": {"en-US": [(S, 2 * S, ["42"]), (5 * S, 7 * S, ["7"])]},
        "two languages": {"en-US": [(S, 2 * S, ["hello"])], "fr": [(S, 2 * S, ["bonjour"])]},
    }
    pairs = [("SRTWriter", "pycaption/srt.py", "SRTReader"), ("WebVTTWriter", "pycaption/webvtt.py", "WebVTTReader"),
             ("MicroDVDWriter", "pycaption/microdvd.py", "MicroDVDReader"), ("SCCWriter", "pycaption/scc/__init__.py", "SCCReader")]
    for wname, path, rname in pairs:
        wfn = ctx.index.get_function(path, f"{wname}.write")
        rfn = ctx.index.get_function(path, f"{rname}.read")
        report.covered(wfn)
        report.covered(rfn)
        not_first, unreadable = [], []
        for label, langs in sets.items():
            cs = ev("CaptionSet(d)", d={l: ev("CaptionList(cs)", cs=[caption(*c) for c in caps]) for l, caps in langs.items()})
            try:
                w = Stub("writer", {}, cls=wfn.cls)
                winit = wfn.cls.find_method("__init__")
                if winit is not None:
                    F.call_function(winit, [], {}, self_value=w)
                doc = F.call_function(wfn, [cs], {}, self_value=w)
            except FoldRaise as e:
                unreadable.append({"caption_set": label, "writer_raises": e.exc_name or str(e)})
                continue
            except AnalysisError as e:
                raise AnalysisError(f"{wname}.write cannot be folded on a small caption set: {e}")
            if not isinstance(doc, str):
                raise AnalysisError(f"{wname}.write: folded result is not a string")
            first = next((r for r in ORDER if sn.accepts(r, doc) is True), None)
            if first != rname:
                not_first.append({"caption_set": label, "document": doc[:120], "claimed_by": first})
                continue
            me = Stub("reader", {}, cls=rfn.cls)
            try:
                init = rfn.cls.find_method("__init__")
                if init is not None:
                    F.call_function(init, [], {}, self_value=me)
                r = F.call_function(rfn, [doc], {}, self_value=me)
            except FoldRaise as e:
                unreadable.append({"caption_set": label, "document": doc[:120], "reader_raises": f"{e.exc_name}: {e}"[:120]})
                continue
            except AnalysisError as e:
                raise AnalysisError(f"{rname}.read cannot be folded on {wname}'s output: {e}")
            from .foldutil import captions_by_language
            by_lang = captions_by_language(r, F, f"{rname}.read")
            if not by_lang:
                raise AnalysisError(f"{rname}.read: folded result has no language")
            n_read = len(list(by_lang.values())[0])
            n_first = len(list(langs.values())[0])
            if n_read < n_first:
                unreadable.append({"caption_set": label, "document": doc[:120], "captions_read": n_read,
                                   "captions_of_the_first_language": n_first})
        report.check(not not_first, "R-MARKER", wfn, f"{wname}'s output is claimed by {rname} before any other reader",
                     {"caption_sets": len(sets), "mismatches": not_first[:3]}, clause)
        report.check(not unreadable, "R-READS-OWN", rfn, f"{rname} reads {wname}'s output (no error, no cue of the first "
                     "language lost)", {"caption_sets": len(sets), "mismatches": unreadable[:3]}, clause)


def writer_documents(ctx):
    """{writer class name: [documents]} written by the FOLDED writers from two small caption sets (one cue; two cues in
    two languages), and {writer: the write method} for reporting"""
    from . import markup_writer_fold as MW
    W = MW.World(ctx)
    S = 1000000
    specs = [{"langs": {"en-US": [(S, 2 * S, ["hello"], None, None)]}},
             {"langs": {"en-US": [(S, 2 * S, ["one", None, "two"], None, None), (5 * S, 6 * S, ["bye"], None, None)]}}]
    sites = {"DFXPWriter": "pycaption/dfxp/base.py", "LegacyDFXPWriter": "pycaption/dfxp/extras.py",
             "SinglePositioningDFXPWriter": "pycaption/dfxp/extras.py", "SAMIWriter": "pycaption/sami.py",
             "WebVTTWriter": "pycaption/webvtt.py", "SRTWriter": "pycaption/srt.py", "MicroDVDWriter": "pycaption/microdvd.py",
             "SCCWriter": "pycaption/scc/__init__.py"}
    docs, where = {}, {}
    for wname, path in sites.items():
        docs[wname] = []
        for spec in specs:
            try:
                fn, doc, _ = W.write(path, wname, W.caption_set(spec))
            except FoldRaise as e:
                raise AnalysisError(f"{wname}.write raises on a plain caption set: {e.exc_name}")
            except AnalysisError as e:
                raise AnalysisError(f"{wname}.write cannot be folded on a plain caption set: {e}")
            if not isinstance(doc, str):
                raise AnalysisError(f"{wname}.write: folded result is not a string")
            docs[wname].append(doc)
            where[wname] = fn
    return docs, where
