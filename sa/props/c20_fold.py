"""C20 clauses 1-3 as a small-scope exhaustive fold.

The sources of `detect_format` and of the six `detect` methods are folded (the checker's own
evaluator; nothing of pycaption is imported or run) on every string made of at most N tokens of
a small alphabet of digits, letters, newlines, braces, arrows and the formats' markers, and on
every prefix of the writers' skeleton documents.  For each string s:

  R-NOTHROW       no detect raises on s                                  (s non-empty)
  R-FIRST-ACCEPT  detect_format(s) is the first class of the DOCUMENTED order whose own detect
                  accepts s, or None when none does; it does not raise
  R-DOMINATES     detect_format('') raises the documented no-captions error

and for every writer's skeleton document d (constants of the writers, plus a sample cue):

  R-MARKER            the writer's own reader accepts d
  R-MARKER-EXCLUSION  no reader EARLIER in the order accepts d
"""
import itertools

from ..core.tree import AnalysisError
from ..core.constfold import Stub, FoldRaise, ClassRef

ORDER = ["DFXPReader", "MicroDVDReader", "WebVTTReader", "SAMIReader", "SRTReader", "SCCReader"]
TOKENS = ["1", "a", "\n", " ", "{1}", "{0}", "-->", "WEBVTT", "<sami", "</tt>", "Scenarist_SCC V1.0",
          "00:00:01,000", "\t", "2 "]


class Sniffers:
    def __init__(self, ctx, folder):
        self.folder = folder
        self.det = {}
        for n in ORDER:
            c = ctx.index.find_class(n)
            m = c.find_method("detect") if c is not None else None
            if m is None:
                raise AnalysisError(f"{n}.detect not found")
            self.det[n] = m
        self.fmt = ctx.index.get_function("pycaption/__init__.py", "detect_format")
        self.cache = {}

    def accepts(self, reader, s):
        """True / False / ('raise', name)"""
        k = (reader, s)
        if k not in self.cache:
            m = self.det[reader]
            try:
                r = bool(self.folder.call_function(m, [s], {}, self_value=Stub(reader, {}, cls=m.cls)))
            except FoldRaise as e:
                r = ("raise", e.exc_name or str(e))
            except AnalysisError as e:
                raise AnalysisError(f"{reader}.detect cannot be folded on {s[:40]!r}: {e}")
            self.cache[k] = r
        return self.cache[k]

    def detect_format(self, s):
        try:
            r = self.folder.call_function(self.fmt, [s], {})
        except FoldRaise as e:
            return ("raise", e.exc_name or str(e))
        except AnalysisError as e:
            raise AnalysisError(f"detect_format cannot be folded on {s[:40]!r}: {e}")
        if r is None:
            return None
        if isinstance(r, ClassRef):
            return r.cls.name
        return ("value", repr(r)[:60])


def strings(max_tokens, extra=()):
    seen = set()
    for n in range(1, max_tokens + 1):
        for combo in itertools.product(TOKENS, repeat=n):
            s = "".join(combo)
            if s not in seen:
                seen.add(s)
                yield s
    for d in extra:
        for i in range(1, len(d) + 1):
            s = d[:i]
            if s not in seen:
                seen.add(s)
                yield s


def run(ctx, report, folder, documents, clause_order="1", clause_nothrow="2"):
    sn = Sniffers(ctx, folder)
    for m in sn.det.values():
        report.covered(m)
    report.covered(sn.fmt)
    n_tok = 3 if ctx.tier == "thorough" else 2
    docs = [d for ds in documents.values() for d in ds]
    throws = {}
    disagree = []
    n = 0
    for s in strings(n_tok, extra=[d[:160] for d in docs]):
        n += 1
        first = None
        for r in ORDER:
            a = sn.accepts(r, s)
            if isinstance(a, tuple):
                throws.setdefault(r, []).append((s, a[1]))
            elif a and first is None:
                first = r
        got = sn.detect_format(s)
        if any(isinstance(sn.accepts(r, s), tuple) for r in ORDER):
            continue      # reported under R-NOTHROW; the expected answer is undefined
        if got != first:
            disagree.append({"input": s[:80], "detect_format": got, "first_accepting_reader_in_documented_order": first})
    report.count("detection_strings_folded", n)
    for r in ORDER:
        bad = throws.get(r, [])
        report.check(not bad, "R-NOTHROW", sn.det[r], f"{r}.detect returns on every folded non-empty string",
                     {"strings": n, "raises_on": [{"input": s[:60], "exception": x} for s, x in bad[:3]]}, clause_nothrow)
    report.check(not disagree, "R-FIRST-ACCEPT", sn.fmt,
                 "detect_format returns the first reader of the documented order whose own detect accepts, else None",
                 {"strings": n, "order": ORDER, "disagreements": disagree[:3]}, clause_order)
    e = sn.detect_format("")
    report.check(e == ("raise", "CaptionReadNoCaptions"), "R-DOMINATES", sn.fmt,
                 "the empty string raises CaptionReadNoCaptions", {"folded_result": e}, clause_order)
    return sn
