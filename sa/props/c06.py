"""C06 - SCC captions appear and disappear at the frames their commands are sent.

Decided clauses (DESIGN.md 4/C06):
 1 R-AFFINE   _translate_time: (3600h+60m+s+f/30)*(1001/1000 if ':' else 1)*10^6 - offset, clamped at 0;
              read() sets offset = 10^6 * offset seconds; get_time adds the frames counted so far to the frame field
 2 R-ONCE     exactly one increment_frames per code word on every path of _translate_word;
              start_at before the words of a line; one _translate_word per 4-character word
 3 thresholds five-frame joining (< 5*frame + 1), four-second default, flash-cue 0 < d < 50000 must raise
 4 def-use    EOC start from get_time() before the cue is queued; EDM/EOC end = get_time()
 5 who-writes the doubling memory is written only by the doubling handler
NOT decided: ordering of returned captions, which captions a given stream yields.
"""
import ast
import re
from fractions import Fraction

from ..core.tree import AnalysisError
from ..core.constfold import Folder
from ..core.astutil import walk_no_nested, call_name, short, src, is_self_attr, resolve_local
from ..engines.symeval import SymEvaluator, Poly, Param, SObj, Raised, _Path
from ..engines.affine import check_affine, unwrap_floor, outcome_table
from ..engines import pathrules as PR
from ..spec import time_grammar as T

SCC = "pycaption/scc/__init__.py"
SPC = "pycaption/scc/specialized_collections.py"


def run(ctx, report):
    folder = ctx.memo("folder", lambda: Folder(ctx.index))
    report.structural_section("timecode (symbolic form for all values)", "R-E2E 'start' / 'end' / 'offset' on generated streams "
                              "(both kinds of time code, also mixed in one document)", timecode, ctx, report, folder)
    report.section("frame counting", frame_counting, ctx, report)
    report.section("thresholds", thresholds, ctx, report, folder)
    report.section("EOC/EDM def-use", eoc_edm, ctx, report)
    report.section("doubling memory", doubling_memory, ctx, report)
    from . import scc_timing_list
    report.section("caption list timing", scc_timing_list.run, ctx, report, "3")
    from . import scc_e2e_fold
    report.section("end to end", scc_e2e_fold.run_part, ctx, report, "times", {
        "start": ("R-E2E", "1", "a caption starts at the instant its EOC is transmitted: time code + one frame per preceding "
                                "word, non-drop time codes x 1001/1000 (single/doubled codes, 1-3 loads)"),
        "end": ("R-E2E", "3", "a caption ends at the next EDM (own line or inline before the next load) or the next EOC"),
        "final": ("R-E2E", "3", "a final caption that is never cleared lasts four seconds"),
        "offset": ("R-E2E", "1", "the configured offset (seconds) is subtracted"),
    })
    report.section("a command repeated seconds later", repeated_later, ctx, report)
    report.not_decided += ["ordering of returned captions and start <= end for arbitrary streams",
                           "which captions a given stream yields (decoder state machine runs)"]
    report.assume("IEEE-754: the float products in _translate_time are within one ulp of the exact form")


def repeated_later(ctx, report):
    """The redundancy copy of a control code is the SAME word sent again in the NEXT frame.  An End Of Caption sent alone on a
    later time-code line - seconds after a line that ended with an End Of Caption - is a new command: it swaps the (empty)
    non-displayed memory in, so the displayed caption disappears at that instant."""
    from . import scc_e2e_fold as E2
    C = E2.C
    eng = E2.Engine(ctx)
    report.covered(eng.fn)
    bad = []
    for d, drop in ((1, False), (1, True), (2, False)):
        la = [C.CONTROL["RCL"]] * d + [C.CONTROL["ENM"]] * d + [E2.pac(15, 0)] * d + E2.text_words("FIRST")
        lines = ["Scenarist_SCC V1.0", "", f"{E2.tc(1, 0, drop)}\t" + " ".join(la + [C.CONTROL["EOC"]] * d), "",
                 f"{E2.tc(3, 0, drop)}\t" + " ".join([C.CONTROL["EOC"]] * d), "",
                 f"{E2.tc(12, 0, drop)}\t" + " ".join(la + [C.CONTROL["EOC"]] * d), "",
                 f"{E2.tc(15, 0, drop)}\t" + " ".join([C.CONTROL["EDM"]] * d), ""]
        got = eng.read("\n".join(lines))
        want_end = E2.instant(3, 0, 0, drop)
        if isinstance(got, tuple):
            bad.append({"codes": "doubled" if d == 2 else "single", "raises": f"{got[1]}: {got[3]}"[:120]})
        elif not got or abs(got[0]["end"] - want_end) > 0.01:
            bad.append({"codes": "doubled" if d == 2 else "single", "timecode": "drop-frame" if drop else "non-drop",
                        "first_caption": (got[0]["start"], got[0]["end"]) if got else None, "required_end": want_end,
                        "stream": "\n".join(lines[2:])[:200]})
    report.check(not bad, "R-E2E", eng.fn, "an End Of Caption sent alone on a later line ends the displayed caption at that instant",
                 {"mismatches": bad[:3]}, "3")


def timecode(ctx, report, folder):
    fn = ctx.index.get_function(SCC, "_SccTimeTranslator._translate_time")
    report.covered(fn)
    ev = SymEvaluator(ctx.index, folder)
    outs = ev.run(fn)
    f = lambda i: f"int($stamp.replace(';', ':').split(':')[{i}])"
    vocab = {f(0), f(1), f(2), f(3), "$offset"}
    base = {f(0): 3600 * 10**6, f(1): 60 * 10**6, f(2): 10**6, f(3): Fraction(10**6, T.SCC_FRAME_RATE)}
    seen = set()
    clamp = {}
    for o in outs:
        if isinstance(o.value, Raised):
            continue
        conds = dict(o.conds)
        drop = conds.get("';' in $stamp")
        if drop is None:
            raise AnalysisError("_translate_time: drop-frame discriminator `';' in stamp` not found on a path")
        neg = [c for c, b in o.conds if c.endswith("< 0")]
        if len(neg) != 1:
            raise AnalysisError("_translate_time: clamp test `microseconds < 0` not found on a path")
        is_neg = conds[neg[0]]
        kind = "drop-frame ';'" if drop else "non-drop-frame ':'"
        if is_neg:
            ok = isinstance(o.value, Poly) and o.value.is_const() and o.value.const_value() == 0
            report.check(ok, "R-AFFINE", fn, f"{kind}: negative results are floored at zero",
                         {"value": o.value.show() if isinstance(o.value, Poly) else str(o.value)}, "1")
            # the tested quantity is the full form
            obj = ev.cond_objs.get(neg[0])
            clamp[drop] = obj
            continue
        factor = Fraction(1) if drop else T.SCC_NDF_FACTOR
        exp = {k: v * factor for k, v in base.items()}
        exp["$offset"] = -1
        check_affine(report, "R-AFFINE", fn, f"{kind}: (3600h+60m+s+f/30) x {factor} x 10^6 - offset",
                     o.value, exp, vocab, "1")
        obj = ev.cond_objs.get(neg[0])
        same = obj is not None and isinstance(obj.left, Poly) and obj.left.same_form(o.value) and obj.op == "<"
        report.check(same, "R-DOMINATES", fn, f"{kind}: the `< 0` clamp tests the value that is returned",
                     {"tested": neg[0][:160]}, "1")
        seen.add(drop)
    if seen != {True, False}:
        raise AnalysisError("_translate_time: expected a drop-frame and a non-drop-frame value path")
    bad = [o for o in outs if isinstance(o.value, Raised)]
    report.check(len(bad) >= 1, "R-MUSTRAISE", fn, "ill-formed timecodes are refused", outcome_table(bad), "1")
    report.count("conversion_sites", 2)

    # read(): offset seconds -> microseconds
    rd = ctx.index.get_function(SCC, "SCCReader.read")
    report.covered(rd)
    st = [n for n in walk_no_nested(rd.node) if isinstance(n, ast.Assign) and
          src(n.targets[0]).endswith("time_translator.offset")]
    if len(st) != 1:
        raise AnalysisError("SCCReader.read: store to time_translator.offset not unique")
    p = _Path({"offset": Param("offset"), "self": SObj("self")}, [])
    (pp, v), = ev._eval(st[0].value, p, rd)
    check_affine(report, "R-AFFINE", (rd, st[0]), "offset seconds -> microseconds", v, {"$offset": 10**6}, {"$offset"}, "1")

    # get_time(): last field = line's frame field + frames consumed, same offset
    gt = ctx.index.get_function(SCC, "_SccTimeTranslator.get_time")
    report.covered(gt)
    calls = [c for c in walk_no_nested(gt.node) if isinstance(c, ast.Call) and call_name(c) == "self._translate_time"]
    if len(calls) != 1 or len(calls[0].args) != 2:
        raise AnalysisError("get_time: call of _translate_time not recognised")
    a0, a1 = calls[0].args
    txt = src(resolve_local(gt, a0))
    m = re.fullmatch(r"self\._time\[:-2\] \+ str\(int\(self\._time\[-2:\]\) \+ self\._frames\)", txt)
    if not m:
        raise AnalysisError(f"get_time: stamp re-assembly not recognised: {txt}")
    report.ok("R-AFFINE", (gt, calls[0]), "frame field handed on = line's frame field + frames consumed",
              {"expression": txt}, "1")
    report.check(src(resolve_local(gt, a1)) == "self.offset", "R-FIELD-ROUTING", (gt, calls[0]),
                 "the configured offset is passed on", src(a1), "1")
    # start_at resets the counter; increment adds exactly one
    sa = ctx.index.get_function(SCC, "_SccTimeTranslator.start_at")
    inc = ctx.index.get_function(SCC, "_SccTimeTranslator.increment_frames")
    for f_ in (sa, inc):
        report.covered(f_)
    sa_ok = any(isinstance(n, ast.Assign) and src(n.targets[0]) == "self._frames" and isinstance(n.value, ast.Constant)
                and n.value.value == 0 for n in walk_no_nested(sa.node)) and \
        any(isinstance(n, ast.Assign) and src(n.targets[0]) == "self._time" and src(n.value) == sa.params[1]
            for n in walk_no_nested(sa.node))
    report.check(sa_ok, "R-AFFINE", sa, "start_at stores the line's timecode and zeroes the frame counter", None, "1")
    inc_ok = [n for n in walk_no_nested(inc.node) if isinstance(n, ast.AugAssign) and src(n.target) == "self._frames"
              and isinstance(n.op, ast.Add) and isinstance(n.value, ast.Constant) and n.value.value == 1]
    inc_all = [n for n in walk_no_nested(inc.node) if isinstance(n, (ast.AugAssign, ast.Assign))]
    report.check(len(inc_ok) == 1 and len(inc_all) == 1, "R-AFFINE", inc, "increment_frames adds exactly one frame",
                 [short(n) for n in inc_all], "1")
    # nothing else writes the counter (it counts code words, one per increment_frames call)
    tcls = ctx.index.get_class(SCC, "_SccTimeTranslator")
    others = []
    for name, m in tcls.methods.items():
        if name in ("start_at", "increment_frames", "__init__"):
            continue
        for n in walk_no_nested(m.node):
            if isinstance(n, (ast.Assign, ast.AugAssign)) and any(
                    src(t) == "self._frames" for t in (n.targets if isinstance(n, ast.Assign) else [n.target])):
                others.append(f"{name}: {short(n)}")
    ext = []
    for mod in ctx.index.modules.values():
        for fn_ in list(mod.functions.values()) + [m for c in mod.classes.values() for m in c.methods.values()]:
            if fn_.cls is tcls:
                continue
            for n in walk_no_nested(fn_.node):
                if isinstance(n, (ast.Assign, ast.AugAssign)):
                    for t in (n.targets if isinstance(n, ast.Assign) else [n.target]):
                        if isinstance(t, ast.Attribute) and t.attr == "_frames":
                            ext.append(f"{fn_.qualname}: {short(n)}")
    report.check(not others and not ext, "R-WHO-WRITES", (SCC, "_SccTimeTranslator"),
                 "the frame counter is written only by start_at (to zero) and increment_frames (plus one)",
                 {"other_writers": others + ext,
                  "why": "a caption starts one frame per preceding CODE WORD after the line's timecode; any other way "
                         "of setting the counter (token position, word index) counts something else"}, "1")


def frame_counting(ctx, report):
    fn = ctx.index.get_function(SCC, "SCCReader._translate_word")
    report.covered(fn)
    classify = PR.call_classifier({"increment_frames": "INC", "_translate_command": "HANDLE",
                                   "_translate_special_char": "HANDLE", "_translate_extended_char": "HANDLE",
                                   "_translate_characters": "HANDLE"})
    paths = PR.paths_of_block(fn.node.body, classify)
    bad = []
    for ev, end in paths:
        n = PR.count_label(ev, "INC")
        fl = PR.flat(ev)
        if end == "raise":
            continue
        if n != 1:
            bad.append({"events": [str(e) for e in fl], "increments": n, "ends": end})
        elif "HANDLE" in fl and fl.index("INC") < fl.index("HANDLE"):
            bad.append({"events": [str(e) for e in fl], "why": "frame counted before the word is handled"})
    report.check(not bad, "R-ONCE", fn, "every path through _translate_word counts exactly one frame, after handling the word",
                 {"paths": len(paths), "offending_paths": bad[:4]}, "2")
    report.count("paths_checked", len(paths))
    line_fold(ctx, report, ctx.memo("folder", lambda: Folder(ctx.index)))


def line_fold(ctx, report, folder):
    """`SCCReader._translate_line` folded on stub readers that record what is handed on: the time code starts the
    line's clock once, before any word; every four-character word is translated once, in order, with the word
    that follows it as look-ahead; nothing else is translated"""
    from ..core.constfold import Stub, FoldRaise
    ln = ctx.index.get_function(SCC, "SCCReader._translate_line")
    report.covered(ln)
    lines = ["00:00:01:00\t9420 94ae c1c2 942f", "00:00:01;00\t9420 9420 94ae 94ae 9470 9470 c1c2 c3c4 942f 942f",
             "00:00:02:00 9425", "00:00:03:00\t9420  94ae 1 c1c2 c1c2c 942f ab", "00:00:04:00\t9420 94AE C1C2",
             "00:00:05:00\t", "   ", "", "00:00:06:00\t9420 94ae\n"]
    bad_once, bad_guard = [], []
    for text in lines:
        log = []
        clock = Stub("time_translator", {}, methods={"start_at": lambda t: log.append(("START", t)),
                                                      "increment_frames": lambda: log.append(("FRAME",))})
        me = Stub("reader", {"time_translator": clock}, cls=ln.cls, methods={
            "_translate_word": lambda word=None, next_command=None, **k: log.append(("WORD", word, next_command))})
        try:
            folder.call_function(ln, [text], {}, self_value=me)
        except FoldRaise as e:
            bad_once.append({"line": text, "raises": e.exc_name or str(e)})
            continue
        except AnalysisError as e:
            raise AnalysisError(f"_translate_line cannot be folded on a stub reader: {e}")
        low = text.lower()
        if not low.strip():
            want = []
        else:
            m = re.match(r"([0-9:;]*)([\s\t]*)(.*)", low)
            words = m.group(3).split(" ")
            want = [("START", m.group(1))]
            for k, w in enumerate(words):
                if len(w.strip()) == 4:
                    want.append(("WORD", w.strip(), words[k + 1] if k + 1 < len(words) else None))
        if log != want:
            starts = [x for x in log if x[0] == "START"]
            if len(starts) != len([x for x in want if x[0] == "START"]) or (starts and log[0][0] != "START") \
                    or [x[1] for x in log if x[0] == "WORD"] == [x[1] for x in want if x[0] == "WORD"]:
                bad_once.append({"line": text, "handed_on": log, "required": want})
            else:
                bad_guard.append({"line": text, "translated": [x[1] for x in log if x[0] == "WORD"],
                                  "required": [x[1] for x in want if x[0] == "WORD"]})
    report.check(not bad_once, "R-ONCE", ln, "start_at once before the words; one _translate_word per word",
                 {"lines_folded": len(lines), "mismatches": bad_once[:3]}, "2")
    report.check(not bad_guard, "R-GUARD", ln, "a code word is four hex digits",
                 {"lines_folded": len(lines), "mismatches": bad_guard[:3]}, "2")


def thresholds(ctx, report, folder):
    frame = folder.value("pycaption.scc.constants", "MICROSECONDS_PER_CODEWORD")
    want = Fraction(1001000, 30)
    report.check(abs(Fraction(frame) - want) < Fraction(1, 10**6), "R-TABLE-REF",
                 ("pycaption/scc/constants.py", "<module>"), "MICROSECONDS_PER_CODEWORD = 1001000/30 us",
                 {"found": frame, "required": float(want)}, "3")
    fn = ctx.index.get_function(SPC, "TimingCorrectingCaptionList._update_last_batch")
    report.covered(fn)
    cmp_ = [n for n in walk_no_nested(fn.node) if isinstance(n, ast.Compare) and "MICROSECONDS_PER_CODEWORD" in src(n)]
    if len(cmp_) != 1:
        raise AnalysisError("_update_last_batch: joining test not found")
    c = cmp_[0]
    ok = isinstance(c.ops[0], ast.Lt) and re.fullmatch(r"[\w\[\]]+\.start - [\w\[\]]+\[-1\]\.end",
                                                       src(resolve_local(fn, c.left))) is not None
    rhs = c.comparators[0]
    try:
        val = folder.eval_in(fn.module, rhs)
    except AnalysisError as e:
        raise AnalysisError(f"_update_last_batch: threshold not foldable: {e}")
    report.check(ok and abs(Fraction(val) - (5 * want + 1)) < Fraction(1, 1000), "R-THRESHOLD", (fn, c),
                 "a gap shorter than five frames (+1 us) is closed",
                 {"test": src(c), "threshold_us": val, "required": float(5 * want + 1)}, "3")
    # the joined captions end at the new caption's start
    st = [n for n in walk_no_nested(fn.node) if isinstance(n, ast.Assign) and src(n.targets[0]).endswith(".end")]
    ok = len(st) == 1 and re.fullmatch(r"\w+\.start", src(st[0].value)) is not None
    report.check(ok, "R-AFFINE", fn, "joined captions end exactly when the next one starts",
                 [short(s) for s in st], "3")
    fx = ctx.index.get_function(SCC, "fix_last_captions_without_ending")
    report.covered(fx)
    loops = [n for n in walk_no_nested(fx.node) if isinstance(n, ast.For)]
    st = [n for n in walk_no_nested(fx.node) if isinstance(n, ast.Assign) and src(n.targets[0]).endswith(".end")]
    # the symbolic form of the default end (for ALL starts) when the store has the recognised shape; the clause itself is
    # decided below by folding read() on prepared captions ("final"), whatever the routine looks like
    try:
        if len(st) != 1 or not isinstance(st[0].targets[0].value, ast.Name):
            raise AnalysisError("default-end store not unique")
        ev = SymEvaluator(ctx.index, folder)
        tgt = st[0].targets[0].value.id
        p = _Path({tgt: Param("c")}, [])
        outs = ev._eval(resolve_local(fx, st[0].value, index=ctx.index), p, fx)
        if len(outs) != 1:
            raise AnalysisError("default end has several symbolic outcomes")
        (pp, v), = outs
        check_affine(report, "R-AFFINE", (fx, st[0]), "an uncleared final caption lasts four seconds", v,
                     {"$c.start": 1, "": 4 * 10**6}, {"$c.start", "$c.end"}, "3")
    except AnalysisError as e:
        report.info("R-AFFINE", fx, "an uncleared final caption lasts four seconds (symbolic form)",
                    {"not_recognised": str(e), "decided_by": "the fold of read() on prepared captions (R-LOOP 'final', below)"}, "3")
    from . import scc_read_fold
    scc_read_fold.run(ctx, report, {
        "flash": ("R-THRESHOLD", "3", "displayed duration in (0, 0.05 s) is a flash cue: read() raises CaptionReadTimingError "
                                      "instead of returning it (every caption of the result is tested)"),
        "final": ("R-LOOP", "3", "read() gives every trailing caption without an end the default end, walking back until a "
                                 "caption has one; every other caption is returned untouched, in order"),
        "lines": ("R-ONCE", "2", "every line but the header is handed to the decoder once, in order, before the final flush"),
    })


def eoc_edm(ctx, report):
    fn = ctx.index.get_function(SCC, "SCCReader._translate_command", inline=True, keep=("_roll_up", "_flush_implicit_buffers", "_pop_on"))
    report.covered(fn)
    from .c05 import _literals_tested
    wordname = fn.params[1]
    node = next((s for s in fn.node.body if isinstance(s, ast.If)), None)
    branches = {}
    while node is not None:
        for l in _literals_tested(node.test, wordname):
            branches[l] = node
        node = node.orelse[0] if len(node.orelse) == 1 and isinstance(node.orelse[0], ast.If) else None
    from ..spec import cea608
    eoc = branches.get(cea608.CONTROL["EOC"])
    edm = branches.get(cea608.CONTROL["EDM"])
    if eoc is None or edm is None:
        raise AnalysisError("_translate_command: EOC / EDM branches not found")
    # EOC: self.time = get_time() first; then pending cue ended at self.time; new cue start=self.time
    body = eoc.body
    first = body[0]
    ok1 = isinstance(first, ast.Assign) and src(first.targets[0]) == "self.time" and \
        src(first.value) == "self.time_translator.get_time()"
    report.check(ok1, "R-ORDER", (fn, eoc), "EOC reads the transmission instant before anything else", short(first), "4")
    def body_nodes(ifnode):
        for st in ifnode.body:
            yield from walk_no_nested(st)
    cues = [c for c in body_nodes(eoc) if isinstance(c, ast.Call) and call_name(c) == "PopOnCue"]
    ok2 = len(cues) == 1 and any(k.arg == "start" and src(k.value) == "self.time" for k in cues[0].keywords)
    report.check(ok2, "R-FIELD-ROUTING", (fn, eoc), "the queued cue starts at the EOC instant",
                 [short(c) for c in cues], "4")
    pops = [c for c in body_nodes(eoc) if isinstance(c, ast.Call) and call_name(c) == "self._pop_on"]
    ok3 = len(pops) == 1 and any(k.arg == "end" and src(k.value) == "self.time" for k in pops[0].keywords)
    report.check(ok3, "R-FIELD-ROUTING", (fn, eoc), "a still displayed cue ends at the EOC instant",
                 [short(c) for c in pops], "4")
    pops = [c for c in body_nodes(edm) if isinstance(c, ast.Call) and call_name(c) == "self._pop_on"]
    ok4 = len(pops) == 1 and any(k.arg == "end" and src(k.value) == "self.time_translator.get_time()"
                                 for k in pops[0].keywords)
    report.check(ok4, "R-FIELD-ROUTING", (fn, edm), "EDM ends the displayed cue at its own transmission instant",
                 [short(c) for c in pops], "4")
    po = ctx.index.get_function(SCC, "SCCReader._pop_on")
    report.covered(po)
    calls = [c for c in walk_no_nested(po.node) if isinstance(c, ast.Call) and (call_name(c) or "").endswith("create_and_store")]
    ok = len(calls) == 1 and [src(a) for a in calls[0].args][1:] == ["pop_on_cue.start", "end"]
    report.check(ok, "R-FIELD-ROUTING", po, "the stored caption gets the cue's start and the given end",
                 [short(c) for c in calls], "4")


def doubling_memory(ctx, report):
    cls = ctx.index.get_class(SCC, "SCCReader")
    allowed = {"__init__", "_reset", "_handle_double_command"}
    for attr in ("last_command", "double_starter"):
        writers = {}
        for name, m in cls.methods.items():
            for n in walk_no_nested(m.node):
                targets = []
                if isinstance(n, ast.Assign):
                    targets = n.targets
                elif isinstance(n, ast.AugAssign):
                    targets = [n.target]
                for t in targets:
                    if is_self_attr(t) and t.attr == attr:
                        writers.setdefault(name, []).append(n.lineno)
        extra = sorted(set(writers) - allowed)
        report.check(not extra and "_handle_double_command" in writers, "R-WHO-WRITES", (SCC, "SCCReader"),
                     f"self.{attr} (doubling memory) is written only by the doubling handler",
                     {"writers": writers, "allowed": sorted(allowed),
                      "why": "a control code doubled across a line break must still count once"}, "5")
