"""C18 - geometry values compare, hash, parse and print consistently.

Decided clauses (DESIGN.md section 4, C18): 1 R-EQHASH, 2 R-IMMUT, 3 size
grammar (R-LANG-EQ), 4 print <= parse, 5 padding shorthand expansion.
"""
import ast

from ..core.tree import AnalysisError
from ..core.astutil import src, short, walk_no_nested, is_self_attr
from ..engines import structural as S

GEOM = "pycaption/geometry.py"
VALUE_CLASSES = ["Size", "Point", "Stretch", "Padding", "Alignment", "Layout"]
EQ_EXCEPTIONS = {"Layout": {"webvtt_positioning": "raw WebVTT cue settings: not a geometric component "
                                                    "(C18: equal exactly when geometric components are equal)"}}
GEOM_ATTRS = {"origin", "extent", "padding", "alignment", "horizontal", "vertical", "before", "after",
              "unit", "webvtt_positioning"}


def run(ctx, report):
    idx = ctx.index
    if GEOM not in idx.by_path:
        raise AnalysisError("anchor vanished: pycaption/geometry.py")
    mod = idx.by_path[GEOM]
    classes = []
    for name in VALUE_CLASSES + ["Region"]:
        if name not in mod.classes:
            raise AnalysisError(f"anchor vanished: geometry class {name}")
        classes.append(mod.classes[name])
    # any further class in geometry.py defining __eq__ is a value class too
    for c in mod.classes.values():
        if c not in classes and ("__eq__" in c.methods or "__hash__" in c.methods):
            classes.append(c)

    # clause 1
    for c in classes:
        if c.name in VALUE_CLASSES + ["Region"]:
            report.structural_section(f"{c.name} __eq__/__hash__ (shape)", "R-GRID on a grid of values of the class: a == b exactly when the "
                                      "components are equal, != its negation, equal values hash alike (geometry_value_fold)",
                                      S.rule_eqhash, report, c, EQ_EXCEPTIONS, clause="1", require_init_match=(c.name != "Region"))
        else:
            S.rule_eqhash(report, c, EQ_EXCEPTIONS, clause="1", require_init_match=(c.name != "Region"))
    rule_bool_not_magnitude(report, classes, clause="1")

    # clause 2
    n = 0
    for c in classes:
        n += S.rule_immut_class(report, c, fresh_ctor_methods=("from_points", "from_extent"), clause="2", index=ctx.index)
    if n < 40:
        raise AnalysisError(f"R-IMMUT analysed only {n} geometry methods (floor 40)")
    S.rule_no_foreign_geometry_store(report, idx, GEOM_ATTRS, GEOM, clause="2")

    # clauses 3-5
    from . import c18_grammar
    c18_grammar.run(ctx, report)
    # the value classes on a grid of values (==, !=, hash folded), and the receiver after relativizing / fitting
    from . import geometry_value_fold, webvtt_layout_fold
    report.section("values on a grid", geometry_value_fold.run, ctx, report)
    report.section("WebVTT cue settings on a grid", webvtt_layout_fold.run, ctx, report, {"mutated": ("R-IMMUT", "2")})

    report.not_decided.append("float equality subtleties of particular magnitudes; hash collisions")
    report.assume("Enum members compare by identity and hash consistently (stdlib enum)")
    report.assume("float.__eq__/__hash__ are consistent for equal floats (CPython)")


def rule_bool_not_magnitude(report, classes, clause=None):
    """`other and ...` in __eq__ makes equality depend on __bool__: truthiness
    of a value object must not depend on a numeric magnitude, otherwise a
    zero-valued object is unequal to an identical one."""
    rule = "R-BOOL-STRUCTURAL"
    for c in classes:
        b = c.methods.get("__bool__")
        eq = c.methods.get("__eq__")
        if b is None:
            continue
        guarded = False
        if eq is not None:
            oname = eq.params[1] if len(eq.params) > 1 else "other"
            for n in walk_no_nested(eq.node):
                if isinstance(n, ast.BoolOp) and any(isinstance(v, ast.Name) and v.id == oname for v in n.values):
                    guarded = True
        problems = []
        for n in walk_no_nested(b.node):
            # numeric attribute used for truthiness: `.value` outside an `is (not) None` comparison
            if isinstance(n, ast.Attribute) and n.attr == "value":
                problems.append(n)
        ok_nodes = set()
        for n in walk_no_nested(b.node):
            if isinstance(n, ast.Compare) and all(isinstance(o, (ast.Is, ast.IsNot)) for o in n.ops):
                for x in ast.walk(n):
                    ok_nodes.add(id(x))
        problems = [short(p) for p in problems if id(p) not in ok_nodes]
        report.check(not problems, rule, b,
                     "__bool__ does not depend on a numeric magnitude",
                     {"eq_guarded_by_truthiness_of_other": guarded, "magnitude_reads": problems}
                     if problems else {"eq_guarded_by_truthiness_of_other": guarded}, clause)
