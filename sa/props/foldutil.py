"""Reading folded results through the PUBLIC interface of the caption model (so that a rename of a private attribute
is not a reason to refuse): languages and captions via CaptionSet.get_languages / get_captions, styles via get_styles."""
from ..core.tree import AnalysisError
from ..core.constfold import Stub, FoldRaise


def _items(lst):
    if isinstance(lst, Stub):
        c = lst._container()
        if c is None:
            raise AnalysisError(f"a language's captions are not a list ({lst!r})")
        return list(c)
    if isinstance(lst, (list, tuple)):
        return list(lst)
    raise AnalysisError(f"a language's captions are not a list ({lst!r:.40})")


def captions_by_language(cs, folder=None, what="the folded result"):
    """{language: [caption objects]} in the set's own language order"""
    F = folder or Stub._active
    if not isinstance(cs, Stub) or cs.cls is None or F is None:
        raise AnalysisError(f"{what} is not a CaptionSet object")
    gl, gc = cs.cls.find_method("get_languages"), cs.cls.find_method("get_captions")
    if gl is None or gc is None:
        raise AnalysisError(f"{what}: {cs.cls.name} has no get_languages / get_captions")
    try:
        langs = list(F.call_function(gl, [], {}, self_value=cs))
        return {l: _items(F.call_function(gc, [l], {}, self_value=cs)) for l in langs}
    except FoldRaise as e:
        raise AnalysisError(f"{what}: reading the caption set back raises {e.exc_name}")


def styles_of(cs, folder=None):
    F = folder or Stub._active
    gs = cs.cls.find_method("get_styles") if isinstance(cs, Stub) and cs.cls is not None else None
    if gs is None or F is None:
        return {}
    try:
        return {k: v for k, v in F.call_function(gs, [], {}, self_value=cs)}
    except (FoldRaise, TypeError, ValueError):
        return {}


def mutable_ids(v_, out, depth=0):
    """ids of every mutable object reachable from a folded value (an object of a class with its attributes, a dict, a list):
    a layout's alignment, origin, extent and padding and their sizes included; enum members and scalars are shared by design"""
    from ..core.constfold import Stub
    if depth > 6 or id(v_) in out:
        return out
    if isinstance(v_, Stub) and v_.cls is not None:
        out.add(id(v_))
        for w_ in v_.attrs.values():
            mutable_ids(w_, out, depth + 1)
    elif isinstance(v_, dict):
        out.add(id(v_))
        for w_ in v_.values():
            mutable_ids(w_, out, depth + 1)
    elif isinstance(v_, (list, tuple)):
        if isinstance(v_, list):
            out.add(id(v_))
        for w_ in v_:
            mutable_ids(w_, out, depth + 1)
    return out
