"""C05 end to end: `SCCReader.read` folded on pop-on streams generated from an abstract caption model.

The WHOLE decoder - reader, buffers, position tracker, caption stash, time translator - is folded
by the checker's evaluator on its source (nothing of pycaption is imported or run).  Streams
come from a serialiser written here from the CEA-608 bit layout (sa/spec/cea608.py): the
generator knows what it put on the screen, so the expected captions need no second decoder.

Model: a program is a list of loads; a load is a list of screen rows (row 1-15, PAC indent, tab
offset, italic preamble or not) each holding a few cells of text: basic characters, a special
character, an extended character after its stand-in, a mid-row italics switch, a backspace.  The
load is transmitted RCL ENM <rows> and displayed by EOC on a later time-code line; EDM or the
next load ends it.  Every control, special and extended code is sent once or doubled (a
preamble and its tab offset doubled as a unit, PAC TO PAC TO).

Expected, per load: the rows on consecutive screen rows are the lines of one caption, a gap in
the row numbers starts another caption with the same times; the text of each line is what the
cells spell (an extended character replaces its stand-in, a backspace deletes, a doubled code
counts once); the caption sits at the (row, column) of its first row mapped linearly into the
safe area; the characters inside italic style nodes are exactly those sent while italics were on
and the nodes are balanced.  Text is compared up to white space (a mid-row code occupies a cell).
"""
import ast
import itertools
import re

from ..core.tree import AnalysisError
from ..core.constfold import Folder, Stub, FoldRaise
from ..spec import cea608 as C

SCC = "pycaption/scc/__init__.py"
OBJECTS = ("Caption", "CaptionList", "CaptionNode", "CaptionSet", "NodeCreatorFactory", "PreCaption",
           "TimingCorrectingCaptionList", "NotifyingDict", "CaptionCreator", "InstructionNodeCreator", "_InstructionNode",
           "_PositioningTracker", "DefaultProvidingPositionTracker", "_SccTimeTranslator", "Layout", "Point", "Size",
           "Alignment", "Stretch", "Padding")


# ------------------------------------------------------------------ serialiser (from the bit layout)
def pac(row, indent, italics=False):
    for b1, (r_lo, r_hi) in C.PAC_ROW_PAIRS.items():
        for second, r in ((0x40, r_lo), (0x60, r_hi)):
            if r == row:
                v = 7 if italics else 8 + indent // 4
                return C.word(b1, second | (v << 1))
    raise AnalysisError(f"no PAC for row {row}")


TAB = {1: C.word(0x17, 0x21), 2: C.word(0x17, 0x22), 3: C.word(0x17, 0x23)}
MID_ITALICS, MID_PLAIN = C.word(0x11, 0x2E), C.word(0x11, 0x20)
SPECIAL = {ch: w for w, chs in C.special_characters().items() for ch in chs if len(chs) == 1}
EXTENDED = {ch: w for w, chs in C.extended_characters().items() for ch in chs if len(chs) == 1}
STANDIN = {"É": "E", "Á": "A", "ü": "u", "Ô": "O", "ß": "s", "Ã": "A", "«": "<", "ö": "o", "¡": "!", "Ç": "C"}


def text_words(s):
    bs = [C.odd_parity(ord(ch)) for ch in s]
    if len(bs) % 2:
        bs.append(0x80)
    return [f"{bs[i]:02x}{bs[i + 1]:02x}" for i in range(0, len(bs), 2)]


def row_words(r, d):
    """words of one row; d = 1 (single codes) or 2 (doubled)"""
    out = []
    head = [pac(r["row"], r["indent"], r.get("italic", False))] + ([TAB[r["tab"]]] if r.get("tab") else [])
    out += head * d
    pending = ""

    def flush():
        nonlocal pending
        if pending:
            out.extend(text_words(pending))
            pending = ""
    for tok in r["cells"]:
        if tok[0] == "txt":
            pending += tok[1]
        else:
            flush()
            if tok[0] == "spc":
                out.extend([SPECIAL[tok[1]]] * d)
            elif tok[0] == "ext":
                out.extend(text_words(STANDIN[tok[1]]))
                out.extend([EXTENDED[tok[1]]] * d)
            elif tok[0] == "mid":
                out.extend([MID_ITALICS if tok[1] else MID_PLAIN] * d)
            elif tok[0] == "bs":
                out.extend([C.CONTROL["BS"]] * d)
            elif tok[0] == "bg":
                out.extend([C.word(0x10, 0x20 + tok[1])] * d)       # background attribute code (10 20..2f)
    flush()
    return out


def display(r):
    """(text of the row, set of indices of italic characters) as the cells spell it"""
    chars, ital = [], []
    on = bool(r.get("italic", False))
    for tok in r["cells"]:
        if tok[0] == "txt":
            for ch in tok[1]:
                chars.append(ch)
                ital.append(on)
        elif tok[0] in ("spc", "ext"):
            chars.append(tok[1])
            ital.append(on)
        elif tok[0] == "mid":
            on = bool(tok[1])
            chars.append(" ")
            ital.append(False)
        elif tok[0] == "bs":
            if chars:
                chars.pop()
                ital.pop()
        elif tok[0] == "bg":
            # a background attribute code backs up over the blank that precedes it for old decoders - and over nothing else
            if chars and chars[-1] == " ":
                chars.pop()
                ital.pop()
    return "".join(chars), "".join(ch for ch, i in zip(chars, ital) if i)


def stream(loads, d):
    """SCC text: load k is sent on the line at second 2k+1, shown by its EOC, erased at second 2k+2 + 20 frames"""
    lines = ["Scenarist_SCC V1.0", ""]
    for k, rows in enumerate(loads):
        words = [C.CONTROL["RCL"]] * d + [C.CONTROL["ENM"]] * d
        for r in rows:
            words += row_words(r, d)
        words += [C.CONTROL["EOC"]] * d
        lines += [f"00:00:{2 * k + 1:02d}:00\t" + " ".join(words), ""]
        lines += [f"00:00:{2 * k + 2:02d}:20\t" + " ".join([C.CONTROL["EDM"]] * d), ""]
    return "\n".join(lines)


def expected(loads):
    out = []
    for k, rows in enumerate(loads):
        groups = []
        for r in rows:
            if groups and r["row"] == groups[-1][-1]["row"] + 1:
                groups[-1].append(r)
            else:
                groups.append([r])
        for g in groups:
            col = (0 if g[0].get("italic") else g[0]["indent"]) + g[0].get("tab", 0)    # an italic preamble has no indent
            out.append({"load": k, "lines": [norm(display(r)[0]) for r in g],
                        "italic": norm("".join(display(r)[1] for r in g), drop=True),
                        "x": 10 + 80 * col / 32, "y": 5 + 90 * (g[0]["row"] - 1) / 15})
    return out


def norm(s, drop=False):
    s = re.sub(r"\s+", "" if drop else " ", s.replace(" ", " "))
    return s.strip()


# ------------------------------------------------------------------ the programs
def cells_pool():
    return [
        [("txt", "HELLO")], [("txt", "Hi there")], [("txt", "AB"), ("spc", "♪"), ("txt", "CD")],
        [("txt", "caf"), ("ext", "É")], [("txt", "H"), ("ext", "Ô"), ("txt", "TEL")], [("txt", "Stra"), ("ext", "ß"), ("txt", "e")],
        [("txt", "plain"), ("mid", True), ("txt", "slanted")], [("txt", "a"), ("mid", True), ("txt", "b"), ("mid", False), ("txt", "c")],
        [("txt", "ABX"), ("bs",), ("txt", "C")], [("spc", "♪"), ("txt", " la la "), ("spc", "♪")], [("txt", "odd")],
        [("ext", "¡"), ("txt", "Hola!")], [("txt", "no I I said")], [("txt", "go a a a a a away")],
        # an italic run that ends in a typed blank and is closed in the middle of the row: the blank stays
        [("txt", "x"), ("mid", True), ("txt", "AB "), ("mid", False), ("txt", "DE")],
        [("txt", "warning"), ("bg", 2), ("txt", " sign")], [("txt", "mark "), ("bg", 4), ("txt", "up")],
    ]


def programs(thorough):
    pool = cells_pool()
    n = len(pool)
    # one row: every cell list x rows/indents/tabs/italic preamble
    places = [(15, 0, 0), (1, 0, 0), (8, 4, 0), (14, 28, 0), (11, 8, 2), (13, 0, 3), (2, 12, 1)]
    for i, cells in enumerate(pool):
        for j, (row, indent, tab) in enumerate(places):
            if not thorough and (i + j) % 3:
                continue
            yield [[{"row": row, "indent": indent, "tab": tab, "italic": False, "cells": cells}]]
    for i, cells in enumerate(pool):
        if any(t[0] == "mid" for t in cells):
            continue
        yield [[{"row": 15, "indent": 0, "tab": 0, "italic": True, "cells": cells}]]
    # an italic preamble address code (it has no indent of its own) followed by a tab offset: the offset counts
    for (row, tab), cells in zip(((15, 1), (1, 2), (8, 3), (14, 2)), (pool[0], pool[1], pool[3], pool[10])):
        yield [[{"row": row, "indent": 0, "tab": tab, "italic": True, "cells": [t for t in cells if t[0] != "mid"]}]]
    # two and three rows in one load: adjacent, with a gap, italic preamble on the second only
    for i in range(n):
        a, b, c = pool[i], pool[(i + 1) % n], pool[(i + 5) % n]
        yield [[{"row": 14, "indent": 0, "tab": 0, "cells": a}, {"row": 15, "indent": 0, "tab": 0, "cells": b}]]
        yield [[{"row": 1, "indent": 4, "tab": 0, "cells": a}, {"row": 15, "indent": 8, "tab": 1, "cells": b}]]
        yield [[{"row": 13, "indent": 4, "tab": 0, "cells": a}, {"row": 14, "indent": 4, "tab": 0, "italic": True,
                                                                  "cells": [t for t in b if t[0] != "mid"]},
                {"row": 15, "indent": 4, "tab": 0, "cells": c}]]
        if thorough:
            yield [[{"row": 2, "indent": 0, "tab": 0, "cells": a}, {"row": 3, "indent": 0, "tab": 0, "cells": b},
                    {"row": 10, "indent": 16, "tab": 2, "cells": c}]]
    # four consecutive rows (the CEA-608 maximum of a pop-on caption): anchored at the FIRST row
    for top, indent, tab in ((12, 0, 0), (1, 8, 2), (5, 4, 0)):
        yield [[{"row": top + k, "indent": indent if k == 0 else 0, "tab": tab if k == 0 else 0, "cells": pool[(top + k) % n]}
                for k in range(4)]]
    # a later row that starts with the whole text of an earlier row, followed by a mid-row code (nodes that compare equal)
    yes, go = [("txt", "Yes")], [("txt", "Go")]
    yield [[{"row": 14, "indent": 0, "tab": 0, "cells": yes},
            {"row": 15, "indent": 0, "tab": 0, "cells": yes + [("mid", True), ("txt", "sir")]}]]
    yield [[{"row": 13, "indent": 4, "tab": 0, "cells": go}, {"row": 14, "indent": 4, "tab": 0, "cells": [("txt", "NO")]},
            {"row": 15, "indent": 4, "tab": 0, "cells": go + [("mid", True), ("txt", "on")]}]]
    yield [[{"row": 14, "indent": 0, "tab": 0, "cells": go}, {"row": 15, "indent": 0, "tab": 0, "cells": go + [("bg", 2), ("txt", " on")]}]]
    # two loads in a row (state carried from one load to the next)
    for i in range(n):
        a, b = pool[i], pool[(i + 3) % n]
        yield [[{"row": 15, "indent": 0, "tab": 0, "cells": a}], [{"row": 15, "indent": 0, "tab": 0, "cells": b}]]
        yield [[{"row": 14, "indent": 4, "tab": 0, "italic": True, "cells": [t for t in a if t[0] != "mid"]}],
               [{"row": 3, "indent": 8, "tab": 0, "cells": b}]]
        if thorough:
            yield [[{"row": 4, "indent": 0, "tab": 0, "cells": a}, {"row": 5, "indent": 0, "tab": 0, "cells": b}],
                   [{"row": 12, "indent": 20, "tab": 3, "cells": a}]]


# ------------------------------------------------------------------ reading the folded result
def read_back(r):
    from .foldutil import captions_by_language
    by_lang = captions_by_language(r, what="SCCReader.read")
    if len(by_lang) != 1:
        raise AnalysisError("SCCReader.read: folded result is not a one-language CaptionSet")
    lst = list(by_lang.values())[0]
    out = []
    for c in lst:
        lines, cur, ital, on, depth_bad = [], "", "", False, False
        for nd in c.attrs["nodes"]:
            t = nd.attrs.get("type_")
            if t == 3:
                lines.append(cur)
                cur = ""
            elif t == 1:
                cur += nd.attrs.get("content")
                if on:
                    ital += nd.attrs.get("content")
            elif t == 2:
                content = nd.attrs.get("content") or {}
                if content.get("italics"):
                    if nd.attrs.get("start"):
                        depth_bad |= on
                        on = True
                    else:
                        depth_bad |= not on
                        on = False
        lines.append(cur)
        lay = c.attrs.get("layout_info")
        x = y = None
        if isinstance(lay, Stub) and isinstance(lay.attrs.get("origin"), Stub):
            o = lay.attrs["origin"]
            x, y = o.attrs["x"].attrs.get("value"), o.attrs["y"].attrs.get("value")
            ux, uy = o.attrs["x"].attrs.get("unit"), o.attrs["y"].attrs.get("unit")
            if getattr(ux, "name", None) != "PERCENT" or getattr(uy, "name", None) != "PERCENT":
                x = y = ("unit", getattr(ux, "name", ux))
        # identities of the mutable objects the caption holds (caption, nodes, layouts, style dicts): two reads share none
        from .foldutil import mutable_ids
        ids = {id(c)}
        for holder in [c] + list(c.attrs["nodes"]):
            ids.add(id(holder))
            for k_ in ("style", "layout_info", "content"):
                v_ = holder.attrs.get(k_)
                mutable_ids(v_, ids)
        out.append({"start": c.attrs.get("start"), "end": c.attrs.get("end"), "lines": [norm(l) for l in lines],
                    "italic": norm(ital, drop=True), "unbalanced": depth_bad or on, "x": x, "y": y, "ids": ids,
                    "_alive": c})        # (the caption is kept alive with its identities: a freed object's id() is reused)
    return out


def explore(ctx, thorough):
    F = Folder(ctx.index)
    F.object_classes = OBJECTS
    fn = ctx.index.get_function(SCC, "SCCReader.read")
    init = fn.cls.find_method("__init__")
    bad = {"text": [], "grouping": [], "position": [], "italics": [], "times": []}
    n = 0
    for prog, d in itertools.product(list(programs(thorough)), (1, 2)):
        n += 1
        doc = stream(prog, d)
        want = expected(prog)
        me = Stub("reader", {}, cls=fn.cls)
        case = {"stream": doc.split("\n", 2)[2][:300], "codes": "doubled" if d == 2 else "single"}
        try:
            if init is not None:
                F.call_function(init, [], {}, self_value=me)
            got = read_back(F.call_function(fn, [doc], {}, self_value=me))
        except FoldRaise as e:
            bad["grouping"].append(dict(case, raises=f"{e.exc_name}: {e}"[:160]))
            continue
        except AnalysisError as e:
            raise AnalysisError(f"SCCReader.read cannot be folded end to end: {e}")
        if [len(g["lines"]) for g in got] != [len(w["lines"]) for w in want]:
            bad["grouping"].append(dict(case, captions=[g["lines"] for g in got], required=[w["lines"] for w in want]))
            continue
        if [g["lines"] for g in got] != [w["lines"] for w in want]:
            bad["text"].append(dict(case, read=[g["lines"] for g in got], required=[w["lines"] for w in want]))
            continue
        pos_g = [(g["x"], g["y"]) if not isinstance(g["x"], tuple) else g["x"] for g in got]
        pos_w = [(w["x"], w["y"]) for w in want]
        if any(not (isinstance(a, tuple) and len(a) == 2 and all(isinstance(v, (int, float)) for v in a)
                    and abs(a[0] - b[0]) < 1e-6 and abs(a[1] - b[1]) < 1e-6) for a, b in zip(pos_g, pos_w)):
            bad["position"].append(dict(case, origin_percent=pos_g, required=pos_w))
        if any(g["unbalanced"] for g in got) or [g["italic"] for g in got] != [w["italic"] for w in want]:
            bad["italics"].append(dict(case, italic_text=[g["italic"] for g in got], required=[w["italic"] for w in want],
                                       unbalanced=[g["unbalanced"] for g in got]))
        # captions of one load share their times; loads follow each other
        by_load = {}
        for g, w in zip(got, want):
            by_load.setdefault(w["load"], []).append((g["start"], g["end"]))
        spans = [v[0] for _, v in sorted(by_load.items())]
        if any(len(set(v)) != 1 for v in by_load.values()) or any(not (isinstance(s, (int, float)) and isinstance(e, (int, float)) and 0 < s < e)
                                                                  for s, e in spans) \
                or any(spans[i][1] > spans[i + 1][0] for i in range(len(spans) - 1)):
            bad["times"].append(dict(case, times=by_load))
    return fn, bad, n


def run(ctx, report, rules):
    thorough = ctx.tier == "thorough"
    fn, bad, n = ctx.memo(("scc_e2e_fold", thorough), lambda: explore(ctx, thorough))
    report.covered(fn)
    report.count("scc_streams_folded_end_to_end", n)
    for key, (rule, clause, text) in rules.items():
        report.check(not bad[key], rule, fn, f"pop-on streams end to end ({n} generated streams): {text}",
                     {"streams": n, "mismatches": bad[key][:2]}, clause)


# ================================================================== roll-up / paint-on (C16), row lengths (C15), times (C06)
RU = {2: C.CONTROL["RU2"], 3: C.CONTROL["RU3"], 4: C.CONTROL["RU4"]}
# ("no I I said", "10 1 1 go": a one-letter word said twice falls on two identical character pairs - text, not a doubled code)
ROW_TEXTS = ["FIRST ROW", "second one here", "3RD", "no I I said", "five", "six six six", "and the seventh row", "10 1 1 go a a a a away"]


class Engine:
    def __init__(self, ctx):
        self.F = Folder(ctx.index)
        self.F.object_classes = OBJECTS
        self.fn = ctx.index.get_function(SCC, "SCCReader.read")
        self.init = self.fn.cls.find_method("__init__")
        self.n = 0

    def read(self, doc, **kw):
        """list of caption records, or ('raise', exception name, folded args)"""
        self.n += 1
        me = Stub("reader", {}, cls=self.fn.cls)
        try:
            if self.init is not None:
                self.F.call_function(self.init, [], {}, self_value=me)
            return read_back(self.F.call_function(self.fn, [doc], dict(kw), self_value=me))
        except FoldRaise as e:
            return ("raise", e.exc_name, e.exc_args, str(e))
        except AnalysisError as e:
            raise AnalysisError(f"SCCReader.read cannot be folded end to end: {e}")


def _reader_after(self, doc, **kw):
    """the reader object after it read `doc` (or the exception name)"""
    self.n += 1
    me = Stub("reader", {}, cls=self.fn.cls)
    try:
        if self.init is not None:
            self.F.call_function(self.init, [], {}, self_value=me)
        self.F.call_function(self.fn, [doc], dict(kw), self_value=me)
    except FoldRaise as e:
        return f"raises {e.exc_name}"
    except AnalysisError as e:
        raise AnalysisError(f"SCCReader.read cannot be folded end to end: {e}")
    return me


Engine.reader_after = _reader_after


def tc(second, frame, drop):
    return f"{second // 3600:02d}:{second // 60 % 60:02d}:{second % 60:02d}{';' if drop else ':'}{frame:02d}"


def instant(second, frame, words_before, drop):
    """microseconds at which the word with `words_before` words in front of it on its line is transmitted"""
    t = (second + (frame + words_before) / 30) * 1000000
    return t if drop else t * 1001 / 1000


def rollup_stream(depth, rows, d, drop, own_line_for_ru, split_pair_at=None, start_second=1):
    """each row: RUx CR PAC(15,0) text on its own time-code line, two seconds apart"""
    lines = ["Scenarist_SCC V1.0", ""]
    for k, text in enumerate(rows):
        words = ([RU[depth]] * d if (own_line_for_ru or k == 0) else []) + [C.CONTROL["CR"]] * d + [pac(15, 0)] * d
        tw = []
        for tok in text:
            tw += text_words(tok) if isinstance(tok, str) else [SPECIAL[tok[1]]] * d
        words += tw
        sec = start_second + 2 * k
        if split_pair_at is not None and d == 2 and any(not isinstance(t, str) for t in text):
            # the file breaks its line between the two copies of a doubled special character
            i = next(i for i, w in enumerate(words) if w in SPECIAL.values())
            lines += [f"{tc(sec, 0, drop)}\t" + " ".join(words[:i + 1]), ""]
            lines += [f"{tc(sec, i + 1, drop)}\t" + " ".join(words[i + 1:]), ""]
        else:
            lines += [f"{tc(sec, 0, drop)}\t" + " ".join(words), ""]
    lines += [f"{tc(start_second + 2 * len(rows), 0, drop)}\t" + " ".join([C.CONTROL["EDM"]] * d), ""]
    return "\n".join(lines)


def painton_stream(rows, d, drop, start_second=1):
    lines = ["Scenarist_SCC V1.0", ""]
    for k, text in enumerate(rows):
        words = [C.CONTROL["RDC"]] * d + [pac(12 + k % 4, 0)] * d
        for tok in text:
            words += text_words(tok) if isinstance(tok, str) else [SPECIAL[tok[1]]] * d
        lines += [f"{tc(start_second + 2 * k, 0, drop)}\t" + " ".join(words), ""]
    lines += [f"{tc(start_second + 2 * len(rows), 0, drop)}\t" + " ".join([C.CONTROL["EDM"]] * d), ""]
    return "\n".join(lines)


def row_text(text):
    return "".join(t if isinstance(t, str) else t[1] for t in text)


def explore_rolling(ctx, thorough):
    E_ = Engine(ctx)
    bad = {"once": [], "order": [], "chain": [], "balanced": []}
    n = 0
    texts = [[t] for t in ROW_TEXTS]
    texts[1] = ["HI HI", ("spc", "♪"), " YES"]
    texts[4] = [("spc", "♪"), "five"]
    texts[2] = ["so  wide gap", ("spc", "♪"), " la"]          # two blanks on a word boundary; a blank padded to a word
    cases = []
    for depth, d, drop in itertools.product((2, 3, 4), (1, 2), (False, True)):
        for nrows in ((1, 2, 3, 5, 8) if thorough else (1, 3, 5)):
            for own in (True, False):
                if not thorough and (depth + d + nrows + own) % 2:
                    continue
                cases.append((f"roll-up {depth}", rollup_stream(depth, texts[:nrows], d, drop, own), texts[:nrows], d))
        cases.append((f"roll-up {depth}, line break inside a doubled pair", rollup_stream(depth, texts[:3], d, drop, True, split_pair_at=True), texts[:3], d))
        cases.append((f"roll-up {depth} from 00:00:00", rollup_stream(depth, texts[:3], d, drop, True, start_second=0), texts[:3], d))
    for d, drop in itertools.product((1, 2), (False, True)):
        for nrows in (1, 2, 4):
            cases.append(("paint-on", painton_stream(texts[:nrows], d, drop), texts[:nrows], d))
        cases.append(("paint-on from 00:00:00", painton_stream(texts[:2], d, drop, start_second=0), texts[:2], d))
    # a programme that runs across a full-hour mark (rows two seconds apart from 00:59:57 on)
    for d, drop in itertools.product((1, 2), (False, True)):
        cases.append(("roll-up 3 across the hour mark", rollup_stream(3, texts[:4], d, drop, d == 1, start_second=3597), texts[:4], d))
        cases.append(("paint-on across the hour mark", painton_stream(texts[:3], d, drop, start_second=3597), texts[:3], d))
    # the LAST row of a roll-up programme is addressed a second time further along the row (two pieces shown together):
    # rolled out by an erase line, by a carriage return, or by the end of the file
    for d, finish in itertools.product((1, 2), ("EDM", "CR", "EOF")):
        lines_ = ["Scenarist_SCC V1.0", ""]
        for k, text in enumerate((["first row"], ["second"], ["left", "right"])):
            words = [RU[2]] * d + [C.CONTROL["CR"]] * d + [pac(15, 0)] * d + text_words(text[0])
            if len(text) > 1:
                words += [pac(15, 16)] * d + text_words(text[1])
            lines_ += [f"{tc(1 + 2 * k, 0, False)}\t" + " ".join(words), ""]
        if finish != "EOF":
            lines_ += [f"{tc(7, 0, False)}\t" + " ".join([C.CONTROL[finish]] * d), ""]
        cases.append((f"roll-up 2, the last row addressed again further along the row, then {finish}", "\n".join(lines_),
                      [["first row"], ["second"], ["left"], ["right"]], d))
    # a row addressed twice before its text arrives: an address on another row that stays unused, then the row below it
    for d in (1, 2):
        for mode, head in (("roll-up 3", [RU[3]] * d + [C.CONTROL["CR"]] * d), ("paint-on", [C.CONTROL["RDC"]] * d)):
            lines_ = ["Scenarist_SCC V1.0", ""]
            for k, text in enumerate(texts[:3]):
                # (the first row is addressed once; every later one by an unused address elsewhere and then the row below that)
                words = list(head) + ([pac(15, 0)] * d if k == 0 else [pac(3 * k + 2, 4)] * d + [pac(3 * k + 3, 0)] * d)
                for tok in text:
                    words += text_words(tok) if isinstance(tok, str) else [SPECIAL[tok[1]]] * d
                lines_ += [f"{tc(1 + 2 * k, 0, False)}\t" + " ".join(words), ""]
            lines_ += [f"{tc(7, 0, False)}\t" + " ".join([C.CONTROL["EDM"]] * d), ""]
            cases.append((f"{mode}, each row addressed twice (an unused address first)", "\n".join(lines_), texts[:3], d))
    # a whole roll-up program on ONE time-code line (the gaps sent as null words): the frame count runs past 1000
    for drop in (False, True):
        words = []
        for k, text in enumerate(texts[:3]):
            words += [RU[2], C.CONTROL["CR"], pac(15, 0)]
            for tok in text:
                words += text_words(tok) if isinstance(tok, str) else [SPECIAL[tok[1]]]
            words += ["8080"] * 520
        words += [C.CONTROL["EDM"]]
        cases.append(("roll-up 2, one line of more than 1500 words", "\n".join(["Scenarist_SCC V1.0", "", f"{tc(1, 0, drop)}\t" + " ".join(words), ""]),
                      texts[:3], 1))
    for label, doc, rows, d in cases:
        n += 1
        got = E_.read(doc)
        case = {"mode": label, "codes": "doubled" if d == 2 else "single", "stream": doc.split("\n", 2)[2][:260]}
        if isinstance(got, tuple):
            bad["once"].append(dict(case, raises=f"{got[1]}: {got[3]}"[:160]))
            continue
        want = [norm(row_text(r)) for r in rows]
        # every transmitted row appears exactly once, whole, in transmission order, across the captions.
        # (a roll-up caption may show earlier rows again only when roll-up simulation is asked for; it is not)
        seen = [l for g in got for l in g["lines"] if l]
        if seen != want:
            bad["once"].append(dict(case, rows_returned=seen, rows_transmitted=want))
            continue
        starts = [(g["start"], g["end"]) for g in got]
        if any(not (isinstance(a, (int, float)) and isinstance(b, (int, float)) and a < b) for a, b in starts) \
                or any(starts[i][0] > starts[i + 1][0] for i in range(len(starts) - 1)):
            bad["order"].append(dict(case, times=starts))
        else:
            # (pieces of one row addressed apart are captions shown together: same start, same end; "the next one" is the
            # next caption that begins later)
            groups = []
            for a, b in starts:
                if groups and abs(groups[-1][0] - a) <= 1e-3:
                    groups[-1][1].append(b)
                else:
                    groups.append((a, [b]))
            if any(max(bs) - min(bs) > 1e-3 for _, bs in groups) or \
                    any(abs(groups[i][1][0] - groups[i + 1][0]) > 1e-3 for i in range(len(groups) - 1)):
                bad["chain"].append(dict(case, times=starts))
    # simulate_roll_up: (a) every caption the reader returns has balanced italic nodes, also when rows with italics are
    # stacked; (b) the option belongs to the call: a reader used once with it reads the next document like a fresh one
    ital_rows = [["plain"], [("mid", True), "slanted"], ["two ", ("mid", True), "it", ("mid", False), " end"],
                 ["third"], [("mid", True), "again"], ["last"]]
    for depth in (2, 3, 4):
      for ru_every_row, d_ in ((True, 1), (False, 1), (False, 2)):
        lines_ = ["Scenarist_SCC V1.0", ""]
        for k, row in enumerate(ital_rows):
            words = ([RU[depth]] * d_ if (ru_every_row or k == 0) else []) + [C.CONTROL["CR"]] * d_ + [pac(15, 0)] * d_
            for tok in row:
                words += text_words(tok) if isinstance(tok, str) else [MID_ITALICS if tok[1] else MID_PLAIN] * d_
            lines_ += [f"{tc(1 + 2 * k, 0, False)}\t" + " ".join(words), ""]
        lines_ += [f"{tc(1 + 2 * len(ital_rows), 0, False)}\t" + " ".join([C.CONTROL["EDM"]] * d_), ""]
        doc = "\n".join(lines_)
        for sim in (False, True):
            n += 1
            got = E_.read(doc, simulate_roll_up=sim)
            if isinstance(got, tuple) and sim and got[1] == "CaptionLineLengthError":
                continue        # the simulation joins the rows of the window on one line: a line-length error is a legitimate outcome
            if isinstance(got, tuple):
                bad["once"].append({"mode": f"roll-up {depth}, rows with mid-row italics, simulate_roll_up={sim}", "raises": f"{got[1]}: {got[3]}"[:120]})
            elif any(g["unbalanced"] for g in got):
                bad["balanced"].append({"mode": f"roll-up {depth}, rows with mid-row italics, simulate_roll_up={sim}, "
                                            f"RU {'on every row' if ru_every_row else 'once'}, {'doubled' if d_ == 2 else 'single'} codes",
                                    "why": "a returned caption has unbalanced italic style nodes",
                                    "captions": [g["lines"] for g in got if g["unbalanced"]][:3]})
        # (b)
        plain = rollup_stream(depth, [["alpha"], ["bravo"], ["charlie"], ["delta"]], 1, False, False)
        fresh = E_.read(plain)
        n += 1
        me = Stub("reader", {}, cls=E_.fn.cls)
        try:
            if E_.init is not None:
                E_.F.call_function(E_.init, [], {}, self_value=me)
            try:
                E_.F.call_function(E_.fn, [plain], {"simulate_roll_up": True}, self_value=me)
            except FoldRaise:
                pass
            again = read_back(E_.F.call_function(E_.fn, [plain], {}, self_value=me))
        except FoldRaise as e:
            again = ("raise", e.exc_name, None, str(e))
        except AnalysisError as e:
            raise AnalysisError(f"SCCReader.read cannot be folded end to end (reader reused): {e}")
        key = lambda r: r if isinstance(r, tuple) else [(g["start"], g["end"], g["lines"]) for g in r]     # noqa: E731
        if key(again) != key(fresh):
            bad["once"].append({"mode": f"roll-up {depth}: a reader used once with simulate_roll_up=True, then without",
                                "captions": str(key(again))[:300], "a_fresh_reader_gives": str(key(fresh))[:300]})
    return E_.fn, bad, n


def explore_lengths(ctx, thorough):
    """C15: rows of 0..40 characters in the three modes"""
    E_ = Engine(ctx)
    bad = {"length": [], "message": []}
    n = 0
    lengths = (0, 1, 31, 32, 33, 40)

    def txt(k, i):
        return ("R%d" % i + "abcdefghijklmnopqrstuvwxyzABCDEFGHIJKLMNOPQRS")[:k]
    cases = []
    for a, b in itertools.product(lengths, repeat=2):
        if a == 0 and b == 0:
            continue
        rows = [txt(a, 1), txt(b, 2)]
        # pop-on: both rows in one load (rows 14/15) - and in two loads
        prog1 = [[{"row": 14, "indent": 0, "tab": 0, "cells": [("txt", rows[0])]}, {"row": 15, "indent": 0, "tab": 0, "cells": [("txt", rows[1])]}]]
        prog2 = [[{"row": 15, "indent": 0, "tab": 0, "cells": [("txt", rows[0])]}], [{"row": 15, "indent": 0, "tab": 0, "cells": [("txt", rows[1])]}]]
        cases.append(("pop-on, one load", stream(prog1, 1), rows))
        cases.append(("pop-on, two loads", stream(prog2, 2), rows))
        if thorough or (a + b) % 2 == 0:
            cases.append(("roll-up", rollup_stream(2, [[r] for r in rows], 1, False, True), rows))
            cases.append(("paint-on", painton_stream([[r] for r in rows], 1, False), rows))
    # two rows of one load on NON-adjacent screen rows: separate captions with the same start; sent top-down and bottom-up
    for a, b in ((10, 32), (32, 10), (20, 20), (32, 33), (33, 10), (33, 32), (34, 33)):
        rows = [txt(a, 1), txt(b, 2)]
        for order in ((2, 15), (15, 2)):
            prog = [[{"row": order[0], "indent": 0, "tab": 0, "cells": [("txt", rows[0])]},
                     {"row": order[1], "indent": 0, "tab": 0, "cells": [("txt", rows[1])]}]]
            cases.append((f"pop-on, rows {order[0]} and {order[1]} of one load", stream(prog, 1), rows))
    # rows whose length counts extended characters (each replaces its stand-in: one column)
    for k in (31, 32):
        cells = [("txt", "X" * (k - 2) + "caf"), ("ext", "É")]           # k + 2 columns: 33 / 34
        prog = [[{"row": 15, "indent": 0, "tab": 0, "cells": cells}]]
        cases.append(("pop-on, extended character", stream(prog, 1), [display(prog[0][0])[0]]))
    # an extended character right after the letter that is also its customary stand-in ('AÁ', 'eë'): two columns
    for cells in ([("txt", "X" * 31 + "A"), ("ext", "Á")], [("txt", "Y" * 30 + "A"), ("ext", "Á"), ("txt", "Z")],
                  [("txt", "X" * 30 + "A"), ("ext", "Á")]):
        prog = [[{"row": 15, "indent": 0, "tab": 0, "cells": cells}]]
        cases.append(("pop-on, extended character after its own stand-in letter", stream(prog, 1), [display(prog[0][0])[0]]))
    cells = [("txt", "X" * 28 + "caf"), ("ext", "É")]                    # exactly 32 columns
    cases.append(("pop-on, extended character", stream([[{"row": 15, "indent": 0, "tab": 0, "cells": cells}]], 1),
                  [display({"cells": cells})[0]]))
    # over-long rows that hold percent signs (the report names them as they are)
    for long_row in ("SALES ARE UP 50% OVER THE LAST QUARTER", "100%% %d %s SURE OF THIS VERY LONG ROW"):
        prog = [[{"row": 14, "indent": 0, "tab": 0, "cells": [("txt", "short one")]}, {"row": 15, "indent": 0, "tab": 0, "cells": [("txt", long_row)]}]]
        cases.append(("pop-on, an over-long row with percent signs", stream(prog, 1), ["short one", long_row]))
    # five rows, the long one last
    prog5 = [[{"row": 11 + i, "indent": 0, "tab": 0, "cells": [("txt", txt(35 if i == 4 else 10, i))]} for i in range(5)]]
    cases.append(("pop-on, five rows", stream(prog5, 1), [txt(35 if i == 4 else 10, i) for i in range(5)]))
    for label, doc, rows in cases:
        n += 1
        got = E_.read(doc)
        case = {"mode": label, "row_lengths": [len(r) for r in rows]}
        long_rows = [r for r in rows if len(r) > 32]
        if long_rows:
            if not (isinstance(got, tuple) and got[1] == "CaptionLineLengthError"):
                bad["length"].append(dict(case, required="raises CaptionLineLengthError",
                                          got=("returns captions" if not isinstance(got, tuple) else f"raises {got[1]}")))
                continue
            msg = got[2][0] if got[2] and isinstance(got[2][0], str) else None
            if msg is None:
                raise AnalysisError("SCCReader.read: the message of CaptionLineLengthError does not fold")
            missing = [r for r in long_rows if r not in msg]
            if missing:
                bad["message"].append(dict(case, rows_not_named=[r[:10] + "..." for r in missing], message=msg[-200:]))
        else:
            if isinstance(got, tuple):
                bad["length"].append(dict(case, required="returns captions (no row is longer than 32)", got=f"raises {got[1]}"))
            elif any(len(l) > 32 for g in got for l in g["lines"]):
                bad["length"].append(dict(case, required="no returned line longer than 32",
                                          got=[l for g in got for l in g["lines"] if len(l) > 32]))
    return E_.fn, bad, n


def explore_times(ctx, thorough):
    """C06: pop-on instants end to end"""
    E_ = Engine(ctx)
    bad = {"start": [], "end": [], "final": [], "offset": [], "reuse": []}
    n = 0
    one = lambda t: [{"row": 15, "indent": 0, "tab": 0, "cells": [("txt", t)]}]      # noqa: E731
    for d, drop in itertools.product((1, 2), (False, True)):
        for nloads, clear in itertools.product((1, 2, 3), ("separate", "inline", "never")):
            # load k is transmitted on the line at second 3k+1; it is erased on its own line at second 3k+2 (+10 frames),
            # or by an EDM that precedes the next load's RCL on the same line, or never (the next EOC replaces it)
            lines = ["Scenarist_SCC V1.0", ""]
            want = []
            for k in range(nloads):
                sec = 3 * k + 1
                words = []
                if clear == "inline" and k > 0:
                    words += [C.CONTROL["EDM"]] * d
                    want[-1][1] = instant(sec, 0, 0, drop)
                words += [C.CONTROL["RCL"]] * d + [C.CONTROL["ENM"]] * d + [pac(15, 0)] * d + text_words(f"LOAD {k}")
                eoc_at = len(words)
                words += [C.CONTROL["EOC"]] * d
                lines += [f"{tc(sec, 0, drop)}\t" + " ".join(words), ""]
                start = instant(sec, 0, eoc_at, drop)
                if clear == "never" and k > 0:
                    want[-1][1] = start
                want.append([start, None])
                if clear == "separate":
                    lines += [f"{tc(sec + 1, 10, drop)}\t" + " ".join([C.CONTROL["EDM"]] * d), ""]
                    want[-1][1] = instant(sec + 1, 10, 0, drop)
            if want[-1][1] is None:
                want[-1][1] = want[-1][0] + 4000000
            n += 1
            got = E_.read("\n".join(lines))
            case = {"codes": "doubled" if d == 2 else "single", "timecode": "drop-frame" if drop else "non-drop",
                    "erase": clear, "stream": "\n".join(lines[2:])[:240]}
            if isinstance(got, tuple):
                bad["start"].append(dict(case, raises=f"{got[1]}: {got[3]}"[:120]))
                continue
            gs = [(g["start"], g["end"]) for g in got]
            if len(gs) != len(want) or any(abs(a[0] - b[0]) > 0.01 for a, b in zip(gs, want)):
                bad["start"].append(dict(case, times=gs, required=[tuple(w) for w in want]))
            elif any(abs(a[1] - b[1]) > 0.01 for a, b in zip(gs[:-1], want[:-1])) or \
                    (clear != "never" and clear != "inline" and abs(gs[-1][1] - want[-1][1]) > 0.01):
                bad["end"].append(dict(case, times=gs, required=[tuple(w) for w in want]))
            elif abs(gs[-1][1] - want[-1][1]) > 0.01:
                bad["final"].append(dict(case, times=gs, required=[tuple(w) for w in want]))
    # a line whose words run past a minute boundary (one frame per word, whatever the separator), an erase that arrives
    # while the next caption is already loaded, and code words still arriving long after the last caption was shown
    for d, drop in itertools.product((1, 2), (False, True)):
        filler = text_words("THIS ROW IS LONG ENOUGH TO CROSS")          # 16 words
        words = [C.CONTROL["RCL"]] * d + [C.CONTROL["ENM"]] * d + [pac(15, 0)] * d + filler
        eoc_at = len(words)
        words += [C.CONTROL["EOC"]] * d
        lines = ["Scenarist_SCC V1.0", "", f"{tc(59, 25, drop)}\t" + " ".join(words), "",
                 f"00:01:02{';' if drop else ':'}00\t" + " ".join([C.CONTROL["EDM"]] * d), ""]
        want = [[instant(59, 25, eoc_at, drop), instant(62, 0, 0, drop)]]
        scen = [("a line crossing a minute boundary", lines, want)]
        # load A, show A; load B on its own line; erase on its own line; show B on its own line
        la = [C.CONTROL["RCL"]] * d + [C.CONTROL["ENM"]] * d + [pac(15, 0)] * d + text_words("FIRST")
        lb = [C.CONTROL["RCL"]] * d + [C.CONTROL["ENM"]] * d + [pac(14, 0)] * d + text_words("SECOND")
        lines = ["Scenarist_SCC V1.0", "", f"{tc(1, 0, drop)}\t" + " ".join(la + [C.CONTROL["EOC"]] * d), "",
                 f"{tc(3, 0, drop)}\t" + " ".join(lb), "", f"{tc(5, 0, drop)}\t" + " ".join([C.CONTROL["EDM"]] * d), "",
                 f"{tc(6, 10, drop)}\t" + " ".join([C.CONTROL["EOC"]] * d), "",
                 f"{tc(8, 0, drop)}\t" + " ".join([C.CONTROL["EDM"]] * d), ""]
        want = [[instant(1, 0, len(la), drop), instant(5, 0, 0, drop)], [instant(6, 10, 0, drop), instant(8, 0, 0, drop)]]
        scen.append(("an erase while the next caption is already loaded", lines, want))
        # the last caption is never erased; a further load keeps arriving nine seconds later and is never shown
        lines = ["Scenarist_SCC V1.0", "", f"{tc(1, 0, drop)}\t" + " ".join(la + [C.CONTROL["EOC"]] * d), "",
                 f"{tc(10, 0, drop)}\t" + " ".join(lb), ""]
        want = [[instant(1, 0, len(la), drop), instant(1, 0, len(la), drop) + 4000000]]
        scen.append(("code words still arriving long after the last caption was shown", lines, want))
        # a four-row caption on one line: its End Of Caption comes a hundred frames or more after the line's time code
        rows4 = []
        for r_ in (12, 13, 14, 15):
            rows4 += [pac(r_, 0)] * d + text_words("THIS ROW HAS THIRTY-TWO CELLS OK")
        words = [C.CONTROL["RCL"]] * d + [C.CONTROL["ENM"]] * d + rows4 + ["8080"] * 30
        lines = ["Scenarist_SCC V1.0", "", f"{tc(1, 25, drop)}\t" + " ".join(words + [C.CONTROL["EOC"]] * d), "",
                 f"{tc(9, 0, drop)}\t" + " ".join([C.CONTROL["EDM"]] * d), ""]
        scen.append((f"the End Of Caption {len(words) + 25} frames after the line's time code", lines,
                     [[instant(1, 25, len(words), drop), instant(9, 0, 0, drop)]]))
        # a line that holds more words than there are frames before the next line's time code (null padding after the End Of
        # Caption): the next line's codes are still timed from THEIR line's time code
        words = la + [C.CONTROL["EOC"]] * d + ["8080"] * 45
        lines = ["Scenarist_SCC V1.0", "", f"{tc(1, 0, drop)}\t" + " ".join(words), "",
                 f"{tc(2, 0, drop)}\t" + " ".join([C.CONTROL["EDM"]] * d + lb + [C.CONTROL["EOC"]] * d), "",
                 f"{tc(5, 0, drop)}\t" + " ".join([C.CONTROL["EDM"]] * d), ""]
        scen.append((f"a line of {len(words)} words followed by a line 30 frames later", lines,
                     [[instant(1, 0, len(la), drop), instant(2, 0, 0, drop)],
                      [instant(2, 0, d + len(lb), drop), instant(5, 0, 0, drop)]]))
        # a programme that runs across a full-hour mark
        lines = ["Scenarist_SCC V1.0", "", f"{tc(3598, 0, drop)}\t" + " ".join(la + [C.CONTROL["EOC"]] * d), "",
                 f"{tc(3601, 0, drop)}\t" + " ".join(lb + [C.CONTROL["EOC"]] * d), "",
                 f"{tc(3603, 15, drop)}\t" + " ".join([C.CONTROL["EDM"]] * d), ""]
        scen.append(("captions on both sides of the hour mark", lines,
                     [[instant(3598, 0, len(la), drop), instant(3601, 0, len(lb), drop)],
                      [instant(3601, 0, len(lb), drop), instant(3603, 15, 0, drop)]]))
        for label, lines, want in scen:
            n += 1
            got = E_.read("\n".join(lines))
            case = {"scenario": label, "codes": "doubled" if d == 2 else "single", "timecode": "drop-frame" if drop else "non-drop",
                    "stream": "\n".join(lines[2:])[:300]}
            if isinstance(got, tuple):
                bad["start"].append(dict(case, raises=f"{got[1]}: {got[3]}"[:120]))
                continue
            gs = [(g["start"], g["end"]) for g in got]
            if len(gs) != len(want) or any(abs(a[0] - b[0]) > 0.01 for a, b in zip(gs, want)):
                bad["start"].append(dict(case, times=gs, required=[tuple(w) for w in want]))
            elif any(abs(a[1] - b[1]) > 0.01 for a, b in zip(gs, want)):
                bad["final" if "long after" in label else "end"].append(dict(case, times=gs, required=[tuple(w) for w in want]))
    # offset: subtracted, floored at zero
    # (1.2 s lies between the first line's time code and the instant its EOC is transmitted)
    for off in (1, -3, 0.5, 1.2):        # (an offset beyond the first caption floors whole captions to zero: outside the compared domain)
        prog = [one("A"), one("B")]
        doc = stream(prog, 1)
        n += 1
        got = E_.read(doc, offset=off)
        base = E_.read(doc)
        if isinstance(got, tuple) or isinstance(base, tuple):
            bad["offset"].append({"offset_seconds": off, "raises": str(got)[:100]})
            continue
        w = [(max(0, b["start"] - off * 1000000), max(0, b["end"] - off * 1000000)) for b in base]
        g = [(x["start"], x["end"]) for x in got]
        if len(g) != len(w) or any(abs(a[0] - b[0]) > 0.01 or abs(a[1] - b[1]) > 0.01 for a, b in zip(g, w)):
            bad["offset"].append({"offset_seconds": off, "times": g, "required": w})
    # the simulate_roll_up option concerns roll-up captions only: a pop-on stream reads the same with it
    for clear in ("separate", "never"):
        prog = [one("AAA"), one("BBB"), one("CCC")]
        doc = stream(prog, 1) if clear == "separate" else "\n".join(l for l in stream(prog, 1).split("\n") if C.CONTROL["EDM"] not in l)
        n += 1
        a_, b_ = E_.read(doc), E_.read(doc, simulate_roll_up=True)
        strip_ = lambda r: r if isinstance(r, tuple) else [(g["start"], g["end"], g["lines"]) for g in r]     # noqa: E731
        if strip_(a_) != strip_(b_):
            bad["end"].append({"pop_on_stream_read_with": "simulate_roll_up=True", "erase": clear,
                               "captions": str(strip_(b_))[:300], "without_the_option": str(strip_(a_))[:300]})
    # time codes of both kinds in one document (spliced segments): each line is converted by its own separator
    for order in (":;", ";:"):
        lines = ["Scenarist_SCC V1.0", ""]
        want = []
        for k, sep in enumerate(order * 2):
            words = [C.CONTROL["RCL"], C.CONTROL["ENM"], pac(15, 0)] + text_words(f"SEG{k}") + [C.CONTROL["EOC"]]
            lines += [f"00:00:{3 * k + 1:02d}{sep}00\t" + " ".join(words), ""]
            lines += [f"00:00:{3 * k + 2:02d}{sep}15\t" + C.CONTROL["EDM"], ""]
            want.append((instant(3 * k + 1, 0, len(words) - 1, sep == ";"), instant(3 * k + 2, 15, 0, sep == ";")))
        n += 1
        got = E_.read("\n".join(lines))
        gs = got if isinstance(got, tuple) else [(g["start"], g["end"]) for g in got]
        if isinstance(got, tuple) or len(gs) != len(want) or any(abs(a[0] - b[0]) > 0.01 or abs(a[1] - b[1]) > 0.01 for a, b in zip(gs, want)):
            bad["start"].append({"time_codes": f"lines alternate '{order[0]}' and '{order[1]}'", "times": str(gs)[:300], "required": want})
    # one reader object, several documents: a read starts from a clean slate, also after a read that was aborted
    good = stream([one("A"), one("B")], 1)
    aborted = "\n".join(["Scenarist_SCC V1.0", "", f"{tc(1, 0, False)}\t" + " ".join(
        [C.CONTROL["RCL"], C.CONTROL["ENM"], pac(15, 0)] + text_words("STALE") + [C.CONTROL["EOC"]]), "",
        "00:00:03\t" + C.CONTROL["EDM"], ""])          # a truncated time code on the erase line
    fresh = E_.read(good)
    for label, first in (("a complete read", good), ("a read aborted by a malformed time code", aborted)):
        n += 1
        me = Stub("reader", {}, cls=E_.fn.cls)
        try:
            if E_.init is not None:
                E_.F.call_function(E_.init, [], {}, self_value=me)
            try:
                E_.F.call_function(E_.fn, [first], {}, self_value=me)
            except FoldRaise:
                pass
            again = read_back(E_.F.call_function(E_.fn, [good], {}, self_value=me))
        except FoldRaise as e:
            again = ("raise", e.exc_name, e.exc_args, str(e))
        except AnalysisError as e:
            raise AnalysisError(f"SCCReader.read cannot be folded end to end (reader reused): {e}")
        strip = lambda r: r if isinstance(r, tuple) else [(g["start"], g["end"], g["lines"]) for g in r]     # noqa: E731
        if strip(again) != strip(fresh):
            bad["start"].append({"reader_reused_after": label, "second_read": str(strip(again))[:300],
                                 "a_fresh_reader_gives": str(strip(fresh))[:300]})
        elif not isinstance(again, tuple) and not isinstance(fresh, tuple) and \
                set().union(*[g["ids"] for g in again]) & set().union(*[g["ids"] for g in fresh]):
            bad["reuse"].append({"reader_reused_after": label, "why": "the captions of two reads share a caption, node, layout or style "
                                 "object: an edit of one caption set shows in the other"})
    return E_.fn, bad, n


def run_part(ctx, report, part, rules):
    thorough = ctx.tier == "thorough"
    fnc = {"rolling": explore_rolling, "lengths": explore_lengths, "times": explore_times}[part]
    fn, bad, n = ctx.memo(("scc_e2e_" + part, thorough), lambda: fnc(ctx, thorough))
    report.covered(fn)
    report.count(f"scc_{part}_streams_folded_end_to_end", n)
    for key, (rule, clause, text) in rules.items():
        report.check(not bad[key], rule, fn, f"{part} streams end to end ({n} generated streams): {text}",
                     {"streams": n, "mismatches": bad[key][:2]}, clause)
