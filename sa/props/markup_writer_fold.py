"""C02 / C03 / C07 / C09 / C11 / C12 / C14 (markup writers): `DFXPWriter.write` and `SAMIWriter.write`
folded on small caption sets; the document is read back by a strict XML parser (xml.etree, for
DFXP) and by an HTML tokenizer (html.parser, for SAMI) - reference consumers that share nothing
with pycaption.

BeautifulSoup, which the writers build their document with, is replaced inside the evaluator by
the model in sa/core/soupmodel.py (documented there: only the calls the writers make; formatter
None substitutes nothing).  Everything else - the writers, the region creator, the geometry and
caption classes - is pycaption's own source, folded by the checker's evaluator (nothing imported
or run).

Caption sets: 1-3 cues in one or two languages; texts from a pool with XML/HTML metacharacters,
entity look-alikes, empty lines, ']]>', quotes; flat italic spans at the start, middle and end of
a line and across a break; percentage layouts at language, caption and node level; document
styles, one of them named 'p', referenced from captions.

Obligations:
  C03/C07  the DFXP document is well-formed XML: a tt document in the TTML namespace
  C07      one div per language, one p with begin and end per caption; every style= / region=
           reference resolves to exactly one definition; xml:ids unique; every region referenced
  C02      begin/end are the caption's instants truncated to milliseconds (hh:mm:ss.mmm); SAMI: one
           sync per start (ms), a blank sync at the end unless the language's next cue starts
           there, none after the language's last cue
  C03      every cue reads back as the caption's lines, in order, up to white space
  C11      the characters inside italic spans / under an italic style are exactly the italic ones
  C12      every visible character's effective region carries its layout (origin/extent/padding/align)
  C14      languages in order of first appearance, each cue under its own language
  C09      the caption set is unchanged by writing, and a second write gives the same bytes
"""
import ast
import html
import html.parser
import re
import xml.etree.ElementTree as ET

from ..core.tree import AnalysisError
from ..core.constfold import Folder, Stub, FoldRaise
from ..core.soupmodel import Soup

S = 1000000
TTML = "{http://www.w3.org/ns/ttml}"
TTS = "{http://www.w3.org/ns/ttml#styling}"
XMLNS = "{http://www.w3.org/XML/1998/namespace}"

TEXTS = [
    ["hello"], ["one", "two"], ["one", None, "two"], ["one", None, None, "two"], ["top", None, " ", None, "bottom"], ["a & b < c > d"], ["\"quoted\" 'apos' it's"],
    ["]]> --> &amp; &lt;tag&gt; &#38; &nbsp;"], ["<i>x</i> <br/> </p>"], ["é ü 漢 ♪"], ["  padded  "],
]


class World:
    def __init__(self, ctx):
        self.ctx = ctx
        self.F = Folder(ctx.index)
        self.F.object_classes = "*"
        self.F.external_models = {"bs4.BeautifulSoup": Soup}
        self.n = 0

    def ev(self, text, mod="pycaption.base", **local):
        return self.F.eval_in(mod, ast.parse(text, mode="eval").body, local)

    def size(self, v):
        return self.ev("Size(v, UnitEnum.PERCENT)", "pycaption.geometry", v=v)

    def layout(self, spec):
        """spec: (x, y, w, h, align) percentages; w may be None"""
        if spec is None:
            return None
        x, y, w, h, al = spec
        o = self.ev("Point(a, b)", "pycaption.geometry", a=self.size(x), b=self.size(y))
        e = self.ev("Stretch(a, b)", "pycaption.geometry", a=self.size(w), b=self.size(h)) if w is not None else None
        a = None
        if al:
            h_ = f"HorizontalAlignmentEnum.{al[0]}" if al[0] else "None"
            v_ = f"VerticalAlignmentEnum.{al[1]}" if al[1] else "None"
            a = self.ev(f"Alignment({h_}, {v_})", "pycaption.geometry")
        return self.ev("Layout(origin=o, extent=e, alignment=a)", "pycaption.geometry", o=o, e=e, a=a)

    def nodes(self, items):
        """items: str (text) | None (break) | ('i', True/False) (italic style node) | ('L', spec) sets the layout of what follows"""
        out, lay = [], None
        prev_break = True
        for it in items:
            if isinstance(it, tuple) and it[0] == "L":
                lay = self.layout(it[1])
            elif it is None:
                out.append(self.ev("CaptionNode.create_break(layout_info=l)", l=lay))
            elif isinstance(it, tuple) and it[0] == "i":
                out.append(self.ev("CaptionNode.create_style(s, {'italics': True}, layout_info=l)", s=it[1], l=lay))
            elif isinstance(it, tuple) and it[0] == "s":
                out.append(self.ev("CaptionNode.create_style(s, c, layout_info=l)", s=it[1], c=dict(it[2]), l=lay))
            else:
                out.append(self.ev("CaptionNode.create_text(t, layout_info=l)", t=it, l=lay))
        return out

    def caption_set(self, spec):
        """spec: {"langs": {lang: [(start, end, items, caption_layout, style)]}, "lang_layout": {lang: spec}, "styles": {...}}"""
        langs = {}
        for lang, caps in spec["langs"].items():
            cl = []
            for (s, e, items, clay, style) in caps:
                cl.append(self.ev("Caption(s, e, n, style=st, layout_info=l)", s=s, e=e, n=self.nodes(items),
                                  st=dict(style or {}), l=self.layout(clay)))
            langs[lang] = self.ev("CaptionList(c, layout_info=l)", c=cl, l=self.layout(spec.get("lang_layout", {}).get(lang)))
        return self.ev("CaptionSet(d, styles=st)", d=langs, st={k: dict(v) for k, v in spec.get("styles", {}).items()})

    def write(self, path, cls_name, cs, init_kw=None, **kw):
        cls = self.ctx.index.get_class(path, cls_name)
        fn, init = cls.find_method("write"), cls.find_method("__init__")
        me = Stub("writer", {}, cls=cls)
        self.n += 1
        if init is not None:
            self.F.call_function(init, [], dict(init_kw or {}), self_value=me)
        return fn, self.F.call_function(fn, [cs], dict(kw), self_value=me), me


def snapshot(o, depth=0):
    """structural value of a folded object graph (for 'the caption set is unchanged')"""
    if depth > 12:
        return "..."
    if isinstance(o, Stub):
        return (o.name, tuple(sorted((k, snapshot(v, depth + 1)) for k, v in o.attrs.items())))
    if isinstance(o, dict):
        return tuple((k, snapshot(v, depth + 1)) for k, v in o.items())
    if isinstance(o, (list, tuple)):
        return tuple(snapshot(v, depth + 1) for v in o)
    return repr(o)


# ----------------------------------------------------------------------------- model side: what the set means
def lines_of(items):
    """[(line text, italic text of the line)] of a caption's items"""
    rows, cur, ital, on = [], "", "", False
    for it in items:
        if isinstance(it, tuple) and it[0] == "L":
            continue
        if it is None:
            rows.append((cur, ital))
            cur, ital = "", ""
        elif isinstance(it, tuple) and it[0] == "i":
            on = bool(it[1])
        elif isinstance(it, tuple) and it[0] == "s":
            if it[2].get("italics"):
                on = bool(it[1])
        else:
            cur += it
            if on:
                ital += it
    rows.append((cur, ital))
    return rows


def norm(s):
    return re.sub(r"\s+", " ", s.replace(" ", " ")).strip()


def pieces_of(items):
    """[[text of each text node of the line]] - the writers may put a blank between two nodes of a line"""
    rows, cur = [], []
    for it in items:
        if it is None:
            rows.append(cur)
            cur = []
        elif isinstance(it, str):
            cur.append(it)
    rows.append(cur)
    return [r for r in rows if norm("".join(r))]


def same_lines(got_lines, piece_rows):
    got_lines = [g for g in got_lines if g]
    if len(got_lines) != len(piece_rows):
        return False
    for g, ps in zip(got_lines, piece_rows):
        rx = r"\s*" + r"\s*".join(r"\s+".join(re.escape(w) for w in norm(p_).split(" ")) if norm(p_) else "" for p_ in ps) + r"\s*"
        if not re.fullmatch(rx, g):
            return False
    return True


def fmt_ms(us):
    ms = int(us) // 1000
    return f"{ms // 3600000:02d}:{ms // 60000 % 60:02d}:{ms // 1000 % 60:02d}.{ms % 1000:03d}"


# ----------------------------------------------------------------------------- reference consumers
def read_dfxp(doc):
    """strict XML -> {"langs": [(lang, region, [p...])], "regions": {id: attrs}, "styles": {id: attrs}, problems}"""
    try:
        root = ET.fromstring(doc.encode("utf-8"))
    except ET.ParseError as e:
        return None, f"not well-formed XML: {e}"
    if root.tag != TTML + "tt":
        return None, f"root element is {root.tag}, not tt in the TTML namespace"
    problems = []
    ids = [el.get(XMLNS + "id") for el in root.iter() if el.get(XMLNS + "id") is not None]
    dup = sorted({i for i in ids if ids.count(i) > 1})
    if dup:
        problems.append(f"xml:id defined more than once: {dup}")
    styles = {el.get(XMLNS + "id"): dict(el.attrib) for el in root.iter(TTML + "style") if el.get(XMLNS + "id")}
    for sid, attrs_ in styles.items():
        for ref_ in (attrs_.get("style") or "").split():
            if ref_ not in styles:
                problems.append(f"style {sid!r} refers to style={ref_!r}, which has no definition in the head")
    regions = {}
    for el in root.iter(TTML + "region"):
        rid = el.get(XMLNS + "id")
        attrs = {k.replace(TTS, "tts:"): v for k, v in el.attrib.items()}
        for st in el.iter(TTML + "style"):
            attrs.update({k.replace(TTS, "tts:"): v for k, v in st.attrib.items()})
        regions[rid] = attrs
    used_regions, langs = set(), []
    body = root.find(TTML + "body")
    if body is None:
        return None, "no body"
    for div in body.findall(TTML + "div"):
        ps = []
        if div.get("region"):
            used_regions.add(div.get("region"))
        for p in div.findall(TTML + "p"):
            if p.get("begin") is None or p.get("end") is None:
                problems.append("a p without begin/end")
            for ref_attr, table, what in (("style", styles, "style"), ("region", regions, "region")):
                for el in [p] + list(p.iter(TTML + "span")):
                    r = el.get(ref_attr)
                    if r is not None and r not in table:
                        problems.append(f"{what}={r!r} has no definition in the head")
                    if r is not None and ref_attr == "region":
                        used_regions.add(r)
            rows, chars = [], []          # chars: (character, italic?, effective region)

            def walk(el, italic, region, rows=rows, chars=chars):
                st = styles.get(el.get("style"), {}) if el.get("style") else {}
                it = italic
                fs = el.get(TTS + "fontStyle") or st.get(TTS + "fontStyle")
                if fs is not None:
                    it = fs == "italic"
                reg = el.get("region") or region
                if el.text:
                    for ch in el.text:
                        chars.append((ch, it, reg))
                for ch_ in el:
                    if ch_.tag == TTML + "br":
                        chars.append(("\n", False, reg))
                    else:
                        walk(ch_, it, reg)
                    if ch_.tail:
                        for c in ch_.tail:
                            chars.append((c, it, reg))
            walk(p, False, div.get("region"))
            text = "".join(c for c, _, _ in chars)
            ps.append({"begin": p.get("begin"), "end": p.get("end"), "lines": [norm(l) for l in text.split("\n")],
                       "italic": norm("".join(c for c, i, _ in chars if i and c != "\n")).replace(" ", ""),
                       "regions": sorted({r for c, _, r in chars if c.strip() and r is not None}), "chars": chars,
                       "style": p.get("style")})
        langs.append((div.get(XMLNS + "lang"), div.get("region"), ps))
    unused = sorted(set(regions) - used_regions)
    if unused:
        problems.append(f"regions defined but never referenced: {unused}")
    return {"langs": langs, "regions": regions, "styles": styles, "problems": problems,
            "tt_lang": root.get(XMLNS + "lang")}, None


class _Sami(html.parser.HTMLParser):
    def __init__(self):
        super().__init__(convert_charrefs=True)
        self.syncs = []          # [start_ms, [(class, text with \n for br)]]
        self.in_p = False
        self.problems = []

    def handle_starttag(self, tag, attrs):
        a = dict(attrs)
        if tag == "sync":
            try:
                self.syncs.append([int(a.get("start")), []])
            except (TypeError, ValueError):
                self.problems.append(f"sync start={a.get('start')!r}")
        elif tag == "p" and self.syncs:
            self.syncs[-1][1].append([a.get("class"), ""])
            self.in_p = True
        elif tag == "br" and self.in_p:
            self.syncs[-1][1][-1][1] += "\n"

    def handle_startendtag(self, tag, attrs):
        self.handle_starttag(tag, attrs)

    def handle_endtag(self, tag):
        if tag == "p":
            self.in_p = False

    def handle_data(self, data):
        if self.in_p and self.syncs and self.syncs[-1][1]:
            self.syncs[-1][1][-1][1] += data


def read_sami(doc):
    p = _Sami()
    p.feed(doc)
    p.close()
    return p


# ----------------------------------------------------------------------------- the caption sets
BOTTOM = None
L1 = (10, 10, 80, 20, ("LEFT", "TOP"))
L2 = (25, 70, 50, 10, ("CENTER", "BOTTOM"))
L3 = (5, 40, None, None, ("RIGHT", "CENTER"))
L4 = (10, 10, 80, 20, ("CENTER", "TOP"))


def caption_sets(thorough):
    n = len(TEXTS)
    for i in range(n):
        a, b = TEXTS[i], TEXTS[(i + 3) % n]
        yield f"text {i}", {"langs": {"en-US": [(S, 2 * S + 500999, a, None, None), (5 * S, 7 * S, b, None, None)]}}
    # italics: start / middle / end of a line, across a break, adjacent spans
    spans = [
        [("i", True), "slanted", ("i", False), " plain"], ["plain ", ("i", True), "slanted", ("i", False), " end"],
        ["plain ", ("i", True), "slanted", ("i", False)], [("i", True), "one", None, "two", ("i", False), " three"],
        [("i", True), "a", ("i", False), ("i", True), "b", ("i", False), "c"], ["x & ", ("i", True), "<y>", ("i", False)],
        # a line break directly before the closing style node
        [("i", True), "first > line & more", None, ("i", False), "second line"], ["a ", ("i", True), "b", None, ("i", False)],
    ]
    for k, sp in enumerate(spans):
        yield f"italics {k}", {"langs": {"en-US": [(S, 2 * S, sp, None, None), (3 * S, 4 * S, ["after"], None, None)]}}
    # languages, cue ends touching the next start, last cue
    yield "two languages", {"langs": {"en-US": [(S, 2 * S, ["hello"], None, None), (2 * S, 3 * S, ["again"], None, None),
                                                (5 * S, 6 * S, ["bye"], None, None)],
                                      "fr": [(S, 2 * S, ["bonjour"], None, None), (4 * S, 6 * S, ["au revoir"], None, None)]}}
    yield "two languages, cue ends coinciding", {"langs": {
        "en-US": [(S, 2 * S, ["hello"], None, None), (5 * S, 6 * S, ["bye"], None, None)],
        "fr": [(S, 2 * S, ["bonjour"], None, None), (4 * S, 6 * S, ["au revoir"], None, None)]}}
    yield "two languages, interleaved", {"langs": {
        "en-US": [(S, 3 * S, ["a"], None, None), (4 * S, 5 * S, ["b"], None, None)],
        "fr": [(2 * S, 3 * S, ["c"], None, None), (3 * S, 4 * S + 500000, ["d"], None, None), (6 * S, 7 * S, ["e"], None, None)]}}
    yield "cue end and next start inside one millisecond", {"langs": {"en-US": [(S, 2 * S + 400, ["a"], None, None),
                                                                                (2 * S + 900, 3 * S, ["b"], None, None),
                                                                                (3 * S + 999, 4 * S, ["c"], None, None)]}}
    # cues of one language that overlap: a later cue starts in the very millisecond at which an earlier, still running one ends,
    # and two cues that are not neighbours start together
    yield "overlapping cues, a start at an earlier cue's end", {"langs": {"en-US": [
        (S, 5 * S, ["long"], None, None), (2 * S, 3 * S, ["short"], None, None), (5 * S, 6 * S, ["next"], None, None)]}}
    yield "overlapping cues, equal starts apart", {"langs": {"en-US": [
        (S, 4 * S, ["one"], None, None), (2 * S, 3 * S, ["two"], None, None), (S, 3 * S, ["three"], None, None),
        (6 * S, 7 * S, ["four"], None, None)]}}
    yield "concurrent captions", {"langs": {"en-US": [(S, 2 * S, ["up"], L1, None), (S, 2 * S, ["down"], L2, None),
                                                      (3 * S, 4 * S, ["next"], None, None)]}}
    yield "one language code a prefix of another", {"langs": {"en-US": [(3 * S, 4 * S, ["american"], None, None)],
                                                              "en": [(S, 2 * S, ["plain"], None, None), (5 * S, 6 * S, ["two"], None, None)]}}
    yield "a language without captions listed first", {"langs": {"de": [], "fr": [(S, 2 * S, ["bonjour"], None, None),
                                                                                 (4 * S, 6 * S, ["au revoir"], None, None)]}}
    yield "a language without captions between two others", {"langs": {
        "en-US": [(S, 2 * S, ["hello"], None, None)], "de": [], "fr": [(S, 2 * S, ["bonjour"], None, None), (4 * S, 6 * S, ["salut"], None, None)]}}
    yield "language code with metacharacters", {"langs": {"en\"<&>": [(S, 2 * S, ["hello"], None, None)]}}
    # layouts at the three levels
    yield "language layout", {"langs": {"en-US": [(S, 2 * S, ["hello"], None, None)]}, "lang_layout": {"en-US": L1}}
    yield "caption layouts", {"langs": {"en-US": [(S, 2 * S, ["top"], L1, None), (3 * S, 4 * S, ["bottom"], L2, None),
                                                  (5 * S, 6 * S, ["default"], None, None)]}}
    yield "node layouts", {"langs": {"en-US": [(S, 2 * S, [("L", L1), ("i", True), "up", ("i", False), None,
                                                           ("L", L2), ("i", True), "down", ("i", False)], None, None)]}}
    yield "node layout equal to the language's, caption layout different", {
        "langs": {"en-US": [(S, 2 * S, [("L", L1), ("i", True), "slanted", ("i", False), ("L", None), " rest"], L2, None)]},
        "lang_layout": {"en-US": L1}}
    yield "closing style node with a layout nothing else uses", {
        "langs": {"en-US": [(S, 2 * S, [("L", L1), ("i", True), "slanted", ("L", L3), ("i", False)], L1, None)]}}
    yield "span with its own text-align and a layout", {"langs": {"en-US": [(S, 2 * S, [
        "plain ", ("L", L4), ("s", True, {"text-align": "center", "italics": True}), "centred",
        ("s", False, {"text-align": "center", "italics": True}), ("L", None), " end"], None, None)]}}
    # a style pair built through the API: the opening node placed, the closing node not; a style DFXP renders to nothing
    yield "bold pair, layout on the opening node only", {"langs": {"en-US": [(S, 2 * S, [
        "plain ", ("L", L4), ("s", True, {"bold": True}), "heavy", ("L", None), ("s", False, {"bold": True}), " end"], None, None),
        (3 * S, 4 * S, [("L", L1), ("s", True, {"italics": True}), "slanted", ("L", None), ("s", False, {"italics": True})], None, None)]}}
    # alignments with one component only, and the logical start / end
    yield "partial alignments", {"langs": {"en-US": [
        (S, 2 * S, ["top only"], (10, 10, 80, 20, (None, "TOP")), None), (3 * S, 4 * S, ["centre only"], (10, 40, 80, 20, (None, "CENTER")), None),
        (5 * S, 6 * S, ["left only"], (10, 70, 80, 20, ("LEFT", None)), None), (7 * S, 8 * S, ["end"], (10, 12, 80, 20, ("END", "BOTTOM")), None),
        (9 * S, 10 * S, ["start"], (10, 14, 80, 20, ("START", "CENTER")), None)]}}
    # document styles, one named 'p'
    yield "document styles", {"langs": {"en-US": [(S, 2 * S, ["styled"], None, {"class": "emph"}),
                                                  (3 * S, 4 * S, ["plain"], None, None)]},
                              "styles": {"emph": {"italics": True}, "p": {"color": "white"}}}
    # chained referential styling: a style that refers to another one - also to one that gives the writer nothing to write
    yield "chained document styles", {"langs": {"en-US": [(S, 2 * S, ["styled"], None, {"class": "speaker"}),
                                                          (3 * S, 4 * S, ["slanted"], None, {"class": "a-ref"})]},
                                      "styles": {"speaker": {"class": "strong", "classes": ["strong"]}, "strong": {"bold": True},
                                                 "a-ref": {"class": "emph", "classes": ["emph"]}, "emph": {"italics": True}}}
    yield "style id with metacharacters", {"langs": {"en-US": [(S, 2 * S, ["styled"], None, {"class": "a\"b<c"})]},
                                           "styles": {"a\"b<c": {"italics": True}}}


def expected_regions(layout_spec):
    if layout_spec is None:
        return None
    x, y, w, h, al = layout_spec
    out = {"tts:origin": f"{x}% {y}%"}
    if w is not None:
        out["tts:extent"] = f"{w}% {h}%"
    if al and al[0]:
        out["tts:textAlign"] = {"LEFT": "left", "CENTER": "center", "RIGHT": "right", "START": "start", "END": "end"}[al[0]]
    if al and al[1]:
        out["tts:displayAlign"] = {"TOP": "before", "CENTER": "center", "BOTTOM": "after"}[al[1]]
    return out


def _pct(v):
    return [round(float(t.rstrip("%")), 2) for t in v.split()]


def colliding_layouts(W):
    """two DIFFERENT percentage layouts whose (folded) hashes are equal, found by folding hash() over a grid of origins -
    the value classes hash by linear formulas, so collisions exist; None when the grid has none"""
    seen = {}
    for x in range(5, 70, 1):
        for y in range(5, 75, 1):
            spec = (x, y, 20, 20, ("LEFT", "TOP"))       # (an extent that fits the safe area, so fit_to_screen leaves it alone)
            try:
                h = W.ev("hash(l)", l=W.layout(spec))
            except (FoldRaise, AnalysisError):
                return None
            if h in seen and seen[h] != spec:
                return seen[h], spec
            seen[h] = spec
    return None


def explore(ctx, thorough):
    W = World(ctx)
    bad = {k: [] for k in ("wellformed", "structure", "refs", "times", "text", "italics", "layout", "langs", "unchanged",
                           "sami_syncs", "sami_text", "sami_langs")}
    n = 0
    fns = {}
    sets = list(caption_sets(thorough))
    pair = colliding_layouts(W)
    if pair is not None:
        # two captions whose layouts differ but hash alike: each still needs its own region
        sets.append(("layouts with equal hashes", {"langs": {"en-US": [(S, 2 * S, ["first"], pair[0], None),
                                                                          (3 * S, 4 * S, ["second"], pair[1], None)]}}))
    for label, spec in sets:
        n += 1
        cs = W.caption_set(spec)
        before = snapshot(cs)
        case = {"caption_set": label}
        # ---------------- DFXP
        try:
            fn, doc, _ = W.write("pycaption/dfxp/base.py", "DFXPWriter", cs)
            fns["dfxp"] = fn
            _, doc2, _ = W.write("pycaption/dfxp/base.py", "DFXPWriter", cs)
        except FoldRaise as e:
            bad["structure"].append(dict(case, writer="DFXPWriter", raises=f"{e.exc_name}: {e}"[:160]))
            doc = None
        except AnalysisError as e:
            raise AnalysisError(f"DFXPWriter.write cannot be folded on the set '{label}': {e}")
        if doc is not None:
            if snapshot(cs) != before:
                bad["unchanged"].append(dict(case, writer="DFXPWriter", why="the caption set differs after write()"))
            if doc2 != doc:
                bad["unchanged"].append(dict(case, writer="DFXPWriter", why="a second write() gives a different document"))
            parsed, err = read_dfxp(doc)
            if parsed is None:
                bad["wellformed"].append(dict(case, problem=err, document=doc[-400:]))
            else:
                _judge_dfxp(spec, parsed, doc, case, bad)
        # ---------------- the same writer under its other options: still a well-formed document with the same cues and
        # resolvable references (the options add attributes or change numbers, nothing else)
        if doc is not None and ("layout" in label or "text-align" in label):
            for opts in ({"write_inline_positioning": True}, {"relativize": False}, {"fit_to_screen": False},
                         {"video_width": 640, "video_height": 360, "write_inline_positioning": True}):
                oname = ", ".join(f"{k}={v}" for k, v in opts.items())
                try:
                    _, idoc, _ = W.write("pycaption/dfxp/base.py", "DFXPWriter", cs, init_kw=dict(opts))
                except FoldRaise as e:
                    bad["structure"].append(dict(case, options=oname, raises=f"{e.exc_name}: {e}"[:160]))
                    continue
                except AnalysisError as e:
                    raise AnalysisError(f"DFXPWriter({oname}).write cannot be folded on the set '{label}': {e}")
                iparsed, ierr = read_dfxp(idoc)
                if iparsed is None:
                    bad["wellformed"].append(dict(case, options=oname, problem=ierr,
                                                  document=[l_.strip() for l_ in idoc.splitlines() if "<span" in l_ or "<p " in l_][:3]))
                    continue
                refs_ = [p_ for p_ in iparsed["problems"] if "definition" in p_ or "xml:id" in p_ or "never referenced" in p_]
                if refs_:
                    bad["refs"].append(dict(case, options=oname, problems=refs_[:3]))
                plain, _ = read_dfxp(doc)
                if plain is not None and [[(p_["begin"], p_["end"], p_["lines"]) for p_ in ps] for _, _, ps in iparsed["langs"]] != \
                        [[(p_["begin"], p_["end"], p_["lines"]) for p_ in ps] for _, _, ps in plain["langs"]]:
                    bad["structure"].append(dict(case, options=oname, why="the cues differ from those written without the options"))
                elif plain is not None and [[p_["italic"] for p_ in ps] for _, _, ps in iparsed["langs"]] != \
                        [[p_["italic"] for p_ in ps] for _, _, ps in plain["langs"]]:
                    bad["italics"].append(dict(case, options=oname, why="the italic characters differ from those written without the options",
                                               italic=[[p_["italic"] for p_ in ps] for _, _, ps in iparsed["langs"]],
                                               without=[[p_["italic"] for p_ in ps] for _, _, ps in plain["langs"]]))
        # ---------------- the other DFXP writers (one p per run of concurrent captions)
        for wname in ("SinglePositioningDFXPWriter", "LegacyDFXPWriter"):
            try:
                fn, xdoc, _ = W.write("pycaption/dfxp/extras.py", wname, cs)
                fns[wname] = fn
            except FoldRaise as e:
                bad["structure"].append(dict(case, writer=wname, raises=f"{e.exc_name}: {e}"[:160]))
                continue
            except AnalysisError as e:
                raise AnalysisError(f"{wname}.write cannot be folded on the set '{label}': {e}")
            if snapshot(cs) != before:
                bad["unchanged"].append(dict(case, writer=wname, why="the caption set differs after write()"))
            parsed, err = read_dfxp(xdoc)
            if parsed is None:
                bad["wellformed"].append(dict(case, writer=wname, problem=err, document=xdoc[-300:]))
                continue
            refs = [p_ for p_ in parsed["problems"] if "definition" in p_ or "xml:id" in p_ or "never referenced" in p_]
            if refs:
                bad["refs"].append(dict(case, writer=wname, problems=refs[:3]))
            langs_written = [l for l, _, _ in parsed["langs"]]
            if wname == "SinglePositioningDFXPWriter" and langs_written != list(spec["langs"]):
                bad["langs"].append(dict(case, writer=wname, divs=langs_written, required=list(spec["langs"])))
            for (lang, _, ps) in parsed["langs"]:
                caps = spec["langs"].get(lang)
                if caps is None:
                    continue
                runs = []
                for c in caps:
                    if runs and (runs[-1][0], runs[-1][1]) == (c[0], c[1]):
                        continue
                    runs.append(c)
                if len(ps) != len(runs):
                    bad["structure"].append(dict(case, writer=wname, language=lang, paragraphs=len(ps),
                                                 runs_of_concurrent_captions=len(runs)))
                elif [(p_["begin"], p_["end"]) for p_ in ps] != [(fmt_ms(c[0]), fmt_ms(c[1])) for c in runs]:
                    bad["times"].append(dict(case, writer=wname, written=[(p_["begin"], p_["end"]) for p_ in ps][:3],
                                             required=[(fmt_ms(c[0]), fmt_ms(c[1])) for c in runs][:3]))
        # ---------------- the force option of the three DFXP writers: exactly the named language when the set has it,
        # every language otherwise; the paragraphs of each written language as without the option
        if label in ("two languages", "concurrent captions", "two languages, cue ends coinciding", "one language code a prefix of another"):
            for wpath, wname in (("pycaption/dfxp/base.py", "DFXPWriter"), ("pycaption/dfxp/extras.py", "SinglePositioningDFXPWriter"),
                                 ("pycaption/dfxp/extras.py", "LegacyDFXPWriter")):
                # (every language of the set, the primary subtag of each - which names a language only if the set has exactly
                #  that code -, and a code the set does not have)
                for force in list(spec["langs"]) + sorted({l.split("-")[0] for l in spec["langs"]} - set(spec["langs"])) + ["zz"]:
                    try:
                        _, fdoc, _ = W.write(wpath, wname, cs, force=force)
                    except FoldRaise as e:
                        bad["langs"].append(dict(case, writer=wname, force=force, raises=f"{e.exc_name}: {e}"[:120]))
                        continue
                    except AnalysisError as e:
                        raise AnalysisError(f"{wname}.write(force={force!r}) cannot be folded on the set '{label}': {e}")
                    parsed, err = read_dfxp(fdoc)
                    if parsed is None:
                        bad["wellformed"].append(dict(case, writer=wname, force=force, problem=err))
                        continue
                    written = [l for l, _, _ in parsed["langs"]]
                    if wname == "LegacyDFXPWriter":
                        want_langs = [force] if force in spec["langs"] else [list(spec["langs"])[-1]]     # one language only
                    else:
                        want_langs = [force] if force in spec["langs"] else list(spec["langs"])
                    if written != want_langs:
                        bad["langs"].append(dict(case, writer=wname, force=force, languages_written=written, required=want_langs))
                        continue
                    for (lang, _, ps) in parsed["langs"]:
                        caps = spec["langs"][lang]
                        runs = []
                        for c in caps:
                            if wname != "DFXPWriter" and runs and (runs[-1][0], runs[-1][1]) == (c[0], c[1]):
                                continue
                            runs.append(c)
                        if len(ps) != len(runs):
                            bad["structure"].append(dict(case, writer=wname, force=force, language=lang, paragraphs=len(ps),
                                                         required=len(runs)))
        # ---------------- SAMI
        try:
            fn, sdoc, _ = W.write("pycaption/sami.py", "SAMIWriter", cs)
            fns["sami"] = fn
        except FoldRaise as e:
            bad["sami_syncs"].append(dict(case, raises=f"{e.exc_name}: {e}"[:160]))
            continue
        except AnalysisError as e:
            raise AnalysisError(f"SAMIWriter.write cannot be folded on the set '{label}': {e}")
        if snapshot(cs) != before:
            bad["unchanged"].append(dict(case, writer="SAMIWriter", why="the caption set differs after write()"))
        _judge_sami(spec, read_sami(sdoc), sdoc, case, bad)
    return W, fns, bad, n


def _judge_dfxp(spec, parsed, doc, case, bad):
    refs = [p for p in parsed["problems"] if "definition" in p or "xml:id" in p or "never referenced" in p]
    other = [p for p in parsed["problems"] if p not in refs]
    if refs:
        bad["refs"].append(dict(case, problems=refs[:3]))
    if other:
        bad["structure"].append(dict(case, problems=other[:3]))
    want_langs = list(spec["langs"])
    got_langs = [l for l, _, _ in parsed["langs"]]
    if got_langs != want_langs:
        bad["langs"].append(dict(case, divs=got_langs, required=want_langs))
        return
    for (lang, div_region, ps), caps in zip(parsed["langs"], spec["langs"].values()):
        if len(ps) != len(caps):
            bad["structure"].append(dict(case, language=lang, paragraphs=len(ps), captions=len(caps)))
            return
        for k, (p, (s, e, items, clay, style)) in enumerate(zip(ps, caps)):
            if (p["begin"], p["end"]) != (fmt_ms(s), fmt_ms(e)):
                bad["times"].append(dict(case, cue=k + 1, written=(p["begin"], p["end"]), required=(fmt_ms(s), fmt_ms(e))))
            rows = lines_of(items)
            want_lines = [norm(t) for t, _ in rows if norm(t)]
            got_lines = [l for l in p["lines"] if l]
            if not same_lines(got_lines, pieces_of(items)):
                bad["text"].append(dict(case, cue=k + 1, read_back=got_lines, required=want_lines))
                continue
            want_it = "".join(norm(i).replace(" ", "") for _, i in rows)
            if style and spec.get("styles", {}).get(style.get("class"), {}).get("italics"):
                want_it = "".join(norm(t).replace(" ", "") for t, _ in rows)
            if p["italic"] != want_it:
                bad["italics"].append(dict(case, cue=k + 1, italic_characters=p["italic"], required=want_it))
            # layout: every visible character's region carries the layout in force for it
            lay_lang = spec.get("lang_layout", {}).get(lang)
            cur = span = None
            want_chars = []
            for it in items:
                if isinstance(it, tuple) and it[0] == "L":
                    cur = it[1]
                elif isinstance(it, tuple) and it[0] in ("i", "s"):
                    span = cur if it[1] else None          # DFXP carries a node-level layout on the span it opens
                elif isinstance(it, str):
                    eff = span or clay or lay_lang
                    want_chars += [(ch, eff) for ch in it if ch.strip()]
            got_chars = [(c, r) for c, _, r in p["chars"] if c.strip()]
            if len(got_chars) == len(want_chars):
                for (c, rid), (_, eff) in zip(got_chars, want_chars):
                    reg = parsed["regions"].get(rid, {})
                    exp = expected_regions(eff)
                    if exp is None:
                        if "tts:origin" in reg:
                            bad["layout"].append(dict(case, cue=k + 1, character=c, region=reg, required="the default region"))
                            break
                        continue
                    wrong = {a: reg.get(a) for a, v in exp.items()
                             if reg.get(a) is None or (_pct(reg[a]) != _pct(v) if "%" in v else reg[a] != v)}
                    if wrong:
                        bad["layout"].append(dict(case, cue=k + 1, character=c, region_id=rid, region=reg, required=exp))
                        break


def _judge_sami(spec, parsed, doc, case, bad):
    if parsed.problems:
        bad["sami_syncs"].append(dict(case, problems=parsed.problems[:3]))
        return
    # every language has a class rule of its own in the stylesheet that declares exactly that language
    sheet = {m.group(1): dict((k.strip().lower(), v.strip()) for k, _, v in (d.partition(":") for d in m.group(2).split(";")) if k.strip())
             for m in re.finditer(r"\.([^\s{}]+)\s*\{([^{}]*)\}", doc)}
    for lang in spec["langs"]:
        if re.fullmatch(r"[A-Za-z0-9-]+", lang) and not any(r_.get("lang") == lang for r_ in sheet.values()):
            bad["sami_langs"].append(dict(case, language=lang, why="no class rule of the stylesheet declares this language",
                                          rules={k: v.get("lang") for k, v in sheet.items()}))
    starts = [s for s, _ in parsed.syncs]
    overlapping = any(a[1] > b[0] for caps in spec["langs"].values() for a, b in zip(caps, caps[1:]))
    if overlapping:
        # cues that overlap within a language: the blank-sync clause is stated for a language's *next* cue and is not judged,
        # but "one timed cue per caption, in order" is - for the language written first (later languages are filed into the
        # syncs that exist): its paragraphs with text, in document order, start where its captions start, in caption order
        lang, caps = next(iter(spec["langs"].items()))
        if re.fullmatch(r"[A-Za-z0-9-]+", lang) and not style_classes(spec):
            got = [s for s, ps in parsed.syncs for cls, text in ps if (cls or "").lower() == lang.lower() and norm(text) != ""]
            want = [int(s) // 1000 for s, e, items, _, _ in caps if any(norm(t) for t, _ in lines_of(items))]
            if got != want:
                bad["sami_syncs"].append(dict(case, language=lang, why="overlapping cues: the cues with text are not one per caption "
                                              "in caption order", starts_in_document_order=got, required=want))
        return
    if starts != sorted(starts):
        bad["sami_syncs"].append(dict(case, why="sync blocks are not in non-decreasing time order", starts=starts))
    # per language: the paragraphs labelled with a class that is (or contains) that language
    classes = {}
    for lang in spec["langs"]:
        classes[lang] = lang
    for lang, caps in spec["langs"].items():
        if not re.fullmatch(r"[A-Za-z0-9-]+", lang):
            continue          # a language code that is not a CSS identifier: DFXP's business (C07), not SAMI's
        seq = []
        for s, ps in parsed.syncs:
            for cls, text in ps:
                if cls == lang or (cls or "").lower() == lang.lower():
                    seq.append((s, text))
        want = []
        for k, (s, e, items, clay, style) in enumerate(caps):
            want.append((int(s) // 1000, [norm(t) for t, _ in lines_of(items) if norm(t)]))
            nxt = caps[k + 1][0] // 1000 if k + 1 < len(caps) else None
            if nxt is not None and int(e) // 1000 != nxt:
                want.append((int(e) // 1000, None))
        got = [(s, None if norm(t) == "" else [norm(l) for l in t.split("\n") if norm(l)]) for s, t in seq]
        if style_classes(spec):
            continue        # captions that name their own class are labelled with it: compared by the label rules of C14
        if [(s, t is None) for s, t in got] != [(s, t is None) for s, t in want]:
            bad["sami_syncs"].append(dict(case, language=lang, syncs=[(s, "blank" if t is None else "text") for s, t in got],
                                          required=[(s, "blank" if t is None else "text") for s, t in want]))
        else:
            cues = [t for _, t in got if t is not None]
            for (s_, e_, items, _, _), g in zip(caps, cues):
                if not same_lines(g, pieces_of(items)):
                    bad["sami_text"].append(dict(case, language=lang, read_back=g,
                                                 required=[norm(t) for t, _ in lines_of(items) if norm(t)]))
                    break


def style_classes(spec):
    return any(style and style.get("class") for caps in spec["langs"].values() for (_, _, _, _, style) in caps)


WRITERS = [("pycaption/dfxp/base.py", "DFXPWriter"), ("pycaption/dfxp/extras.py", "SinglePositioningDFXPWriter"),
           ("pycaption/dfxp/extras.py", "LegacyDFXPWriter"), ("pycaption/sami.py", "SAMIWriter"), ("pycaption/webvtt.py", "WebVTTWriter"),
           ("pycaption/srt.py", "SRTWriter"), ("pycaption/microdvd.py", "MicroDVDWriter")]


def reuse(ctx, report, rule="R-DOC-UNCHANGED", clause="2"):
    """one writer object used for several caption sets in a row: what it writes for a set does not depend on what it wrote
    before (A, B, A again: the two A documents are identical, and B's is the document a fresh writer gives), and every
    set is unchanged afterwards - for the seven writers that can be folded"""
    W = World(ctx)
    picks = ("two languages", "italics 3", "caption layouts", "text 5", "span with its own text-align and a layout",
             "two languages, interleaved", "document styles")
    specs = [(label, spec) for label, spec in caption_sets(False) if label in picks]
    # a set whose first language is another one, and one whose last caption ends inside a styled span
    specs.insert(1, ("french first", {"langs": {"fr": [(S, 2 * S, ["bonjour"], None, None), (4 * S, 5 * S, ["salut"], None, None)],
                                                "en-US": [(2 * S, 3 * S, ["hello"], None, None)]}}))
    specs.insert(3, ("a span left open at the end", {"langs": {"en-US": [(S, 2 * S, ["plain ", ("i", True), "slanted to the end"], None, None)]}}))
    bad = []
    n = 0
    fn0 = None
    for path, cname in WRITERS:
        cls = ctx.index.get_class(path, cname)
        fn, init = cls.find_method("write"), cls.find_method("__init__")
        fn0 = fn0 or fn
        report.covered(fn)
        for k in range(len(specs)):
            (la, sa_), (lb, sb) = specs[k], specs[(k + 1) % len(specs)]
            n += 1
            case = {"writer": cname, "first_and_third": la, "second": lb}
            try:
                a, b = W.caption_set(sa_), W.caption_set(sb)
                snap_a, snap_b = snapshot(a), snapshot(b)
                me = Stub("writer", {}, cls=cls)
                if init is not None:
                    W.F.call_function(init, [], {}, self_value=me)
                d1 = W.F.call_function(fn, [a], {}, self_value=me)
                d2 = W.F.call_function(fn, [b], {}, self_value=me)
                d3 = W.F.call_function(fn, [a], {}, self_value=me)
                _, fresh_b, _ = W.write(path, cname, b)
            except FoldRaise as e:
                bad.append(dict(case, raises=f"{e.exc_name}: {e}"[:140]))
                continue
            except AnalysisError as e:
                raise AnalysisError(f"{cname}.write (one object, three writes) cannot be folded on '{la}' / '{lb}': {e}")
            if d3 != d1:
                i = next((j for j in range(min(len(d1), len(d3))) if d1[j] != d3[j]), min(len(d1), len(d3)))
                bad.append(dict(case, why="the third write differs from the first (same set, same writer object)",
                                first=d1[max(0, i - 60):i + 60], third=d3[max(0, i - 60):i + 60]))
            elif d2 != fresh_b:
                i = next((j for j in range(min(len(d2), len(fresh_b))) if d2[j] != fresh_b[j]), min(len(d2), len(fresh_b)))
                bad.append(dict(case, why="a used writer writes the second set differently from a fresh one",
                                used=d2[max(0, i - 60):i + 60], fresh=fresh_b[max(0, i - 60):i + 60]))
            elif snapshot(a) != snap_a or snapshot(b) != snap_b:
                bad.append(dict(case, why="a caption set differs after the writes"))
    report.check(not bad, rule, fn0, f"seven writers, one object each writing A, B, A over {len(specs)} caption sets ({n} sequences): the "
                 "output for a set does not depend on what the object wrote before; the sets are unchanged", {"sequences": n, "mismatches": bad[:3]}, clause)


TEXTS_BY_KEY = {
    "wellformed": "the DFXP document is well-formed XML with a tt root in the TTML namespace",
    "structure": "one div per language and one p carrying begin and end per caption",
    "refs": "every style= / region= reference resolves to exactly one definition, ids are unique, every region is referenced",
    "times": "begin / end are the caption's instants truncated to milliseconds",
    "text": "every DFXP cue reads back (strict XML) as the caption's lines, in order",
    "italics": "the characters under an italic style are exactly the italic ones",
    "layout": "every visible character's effective region carries the layout in force for it",
    "langs": "languages are written in order of first appearance, each under its own xml:lang",
    "unchanged": "writing leaves the caption set unchanged and is repeatable",
    "sami_syncs": "SAMI: one sync per start, a blank sync at the end unless the language's next cue starts there, none after "
                  "the last cue; syncs in time order",
    "sami_text": "every SAMI cue reads back (HTML tokenizer) as the caption's lines, in order",
    "sami_langs": "SAMI: every language has a class rule in the stylesheet that declares it",
}


def run(ctx, report, rules):
    """rules: {key: (rule id, clause)}"""
    thorough = ctx.tier == "thorough"
    W, fns, bad, n = ctx.memo(("markup_writer_fold", thorough), lambda: explore(ctx, thorough))
    for f in fns.values():
        report.covered(f)
    report.count("markup_documents_folded", 2 * n)
    for key, (rule, clause) in rules.items():
        fn = fns.get("sami" if key.startswith("sami") else "dfxp")
        report.check(not bad[key], rule, fn, f"markup writers on {n} small caption sets: {TEXTS_BY_KEY[key]}",
                     {"caption_sets": n, "mismatches": bad[key][:2]}, clause)


# ----------------------------------------------------------------------------- span markup on every flat node sequence
def _flat_sequences(max_len):
    """node sequences of the flat-span grammar ( text | break | start text* end )* up to max_len nodes; a start carries
    italics, or a style that produces no markup of its own"""
    out = []

    def grow(seq, open_kind):
        if len(seq) <= max_len and open_kind is None and seq:
            out.append(list(seq))
        if len(seq) >= max_len:
            return
        if open_kind is None:
            for item in ("T", "B", "S+", "S0"):
                grow(seq + [item], item if item.startswith("S") else None)
        else:
            grow(seq + ["T"], open_kind)
            grow(seq + ["B"], open_kind)
            grow(seq + ["E" + open_kind[1]], None)
    grow([], None)
    return out


def _nested_sequences():
    """balanced style nodes that NEST (depth two): the writers flatten them; only well-formedness is asked"""
    c = {"+": {"italics": True}, "c": {"color": "red"}, "0": {}}
    out = []
    for a, b in (("+", "c"), ("c", "+"), ("+", "+"), ("0", "+"), ("+", "0")):
        out.append(["T", ("S", a), "T", ("S", b), "T", ("E", b), "T", ("E", a), "T"])
        out.append([("S", a), ("S", b), "T", ("E", b), ("E", a)])
        out.append([("S", a), "T", ("S", b), "T", ("E", b), ("E", a), "B", "T"])
    return out, c


def span_sequences(ctx, report, rule="R-SPAN-TYPESTATE", clause="2", which=("DFXPWriter", "LegacyDFXPWriter", "SAMIWriter")):
    """the markup writers' `write` folded on a one-caption set for EVERY flat style-node sequence up to 4 (5 thorough)
    nodes: the markup written for the caption is balanced and properly nested (the document / paragraph parses), and the
    characters inside an italic span are exactly the italic ones"""
    max_len = 5 if ctx.tier == "thorough" else 4
    res = ctx.memo(("span_sequences", max_len), lambda: _span_explore(ctx, max_len))
    for wname in which:
        fn, bad, n = res[wname]
        report.covered(fn)
        report.check(not bad, rule, fn, "span tags are balanced, properly nested and cover exactly the italic characters, for every "
                     f"flat style-node sequence up to {max_len} nodes", {"sequences": n, "mismatches": bad[:3]}, clause)


def _span_explore(ctx, max_len):
    W = World(ctx)
    seqs = _flat_sequences(max_len)
    sites = {"DFXPWriter": ("pycaption/dfxp/base.py", "DFXPWriter"), "LegacyDFXPWriter": ("pycaption/dfxp/extras.py", "LegacyDFXPWriter"),
             "SAMIWriter": ("pycaption/sami.py", "SAMIWriter")}
    out = {}
    for wname, (path, cname) in sites.items():
        bad = []
        n = 0
        fn = None
        for seq in seqs:
            n += 1
            items, want_it, k = [], "", 0
            on = False
            for it in seq:
                if it == "T":
                    k += 1
                    items.append(f"w{k}")
                    if on:
                        want_it += f"w{k}"
                elif it == "B":
                    items.append(None)
                elif it in ("S+", "S0"):
                    items.append(("s", True, {"italics": True} if it == "S+" else {}))
                    on = it == "S+"
                else:
                    items.append(("s", False, {"italics": True} if it == "E+" else {}))
                    on = False
            nodes = []
            for it in items:
                if it is None:
                    nodes.append(W.ev("CaptionNode.create_break()"))
                elif isinstance(it, tuple):
                    nodes.append(W.ev("CaptionNode.create_style(s, c)", s=it[1], c=dict(it[2])))
                else:
                    nodes.append(W.ev("CaptionNode.create_text(t)", t=it))
            cs = W.ev("CaptionSet({'en-US': CaptionList([Caption(1000000, 2000000, n)])})", n=nodes)
            try:
                fn, doc, _ = W.write(path, cname, cs)
            except FoldRaise as e:
                bad.append({"nodes": seq, "raises": f"{e.exc_name}: {e}"[:100]})
                continue
            except AnalysisError as e:
                raise AnalysisError(f"{cname}.write cannot be folded on the node sequence {seq}: {e}")
            if wname == "SAMIWriter":
                m = re.search(r"<p [^>]*>(.*?)</p>", doc, re.S)
                frag = m.group(1) if m else ""
                depth, ok, ital, on_ = 0, True, "", []
                for m2 in re.finditer(r"<(/?)span([^>]*)>|([^<]+)|<[^>]+>", frag):
                    if m2.group(3) is not None:
                        if any(on_):
                            ital += m2.group(3)
                    elif m2.group(0).startswith("<span") or m2.group(0).startswith("</span"):
                        if m2.group(1):
                            depth -= 1
                            if depth < 0:
                                ok = False
                                break
                            on_.pop()
                        else:
                            depth += 1
                            on_.append("italic" in m2.group(2))
                ok = ok and depth == 0
                got_it = re.sub(r"\s+", "", html.unescape(ital)) if ok else None
                shown = frag
            else:
                parsed, err = read_dfxp(doc)
                ok = parsed is not None and len(parsed["langs"]) == 1 and len(parsed["langs"][0][2]) == 1
                got_it = parsed["langs"][0][2][0]["italic"] if ok else None
                shown = (re.search(r"<p [^>]*>(.*?)</p>", doc, re.S) or [None, doc[-200:]])[1]
            if not ok:
                bad.append({"nodes": seq, "markup": shown[:160], "why": "the span tags are not balanced / properly nested"})
            elif got_it != want_it:
                bad.append({"nodes": seq, "markup": shown[:160], "italic_characters": got_it, "required": want_it})
        # nested balanced spans: the document must still be well-formed
        nested, content = _nested_sequences()
        if wname == "SAMIWriter":
            nested = []         # nesting is outside C11's domain (flat spans); C07, which admits it, is about the DFXP writers
        for seq in nested:
            n += 1
            nodes, k = [], 0
            for it in seq:
                if it == "T":
                    k += 1
                    nodes.append(W.ev("CaptionNode.create_text(t)", t=f"w{k}"))
                elif it == "B":
                    nodes.append(W.ev("CaptionNode.create_break()"))
                else:
                    nodes.append(W.ev("CaptionNode.create_style(s, c)", s=it[0] == "S", c=dict(content[it[1]])))
            cs = W.ev("CaptionSet({'en-US': CaptionList([Caption(1000000, 2000000, n)])})", n=nodes)
            try:
                fn, doc, _ = W.write(path, cname, cs)
            except FoldRaise as e:
                bad.append({"nodes": [str(x) for x in seq], "raises": f"{e.exc_name}: {e}"[:100]})
                continue
            except AnalysisError as e:
                raise AnalysisError(f"{cname}.write cannot be folded on nested style nodes: {e}")
            if wname == "SAMIWriter":
                m = re.search(r"<p [^>]*>(.*?)</p>", doc, re.S)
                frag = m.group(1) if m else ""
                depth = 0
                for m2 in re.finditer(r"<(/?)span", frag):
                    depth += -1 if m2.group(1) else 1
                    if depth < 0:
                        break
                ok, shown = depth == 0, frag
            else:
                parsed, err = read_dfxp(doc)
                ok = parsed is not None
                shown = (re.search(r"<p [^>]*>(.*?)</p>", doc, re.S) or [None, doc[-200:]])[1]
            if not ok:
                bad.append({"nodes": [str(x) for x in seq], "markup": shown[:200],
                            "why": "nested (balanced) style nodes: the span tags written are not balanced"})
        out[wname] = (fn, bad, n)
    return out
