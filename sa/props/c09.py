"""C09 - writing never alters its input and is deterministic.

Decided clauses (DESIGN.md 4/C09), by interprocedural abstract interpretation of every discovered writer's
write():
 1 R-COPY      no mutation site whose receiver may be reachable from the caption-set parameter (deepcopy switches the
               name to the COPY region; the copy dominates every mutation, so a raise cannot leave the input half edited);
               no model class customises copying (R-DEEPCOPY-HOOK)
 2 R-STATE     no writer attribute that is written/mutated during write() is read or mutated in its left-over value
 3 R-GLOBALMUT no module-/class-level mutable object is mutated from write-reachable code; geometry is immutable
 4 R-HASHORDER / R-NONDET no hash-ordered set is iterated into the output, no clock/random/environment call
NOT decided: byte identity across processes as such (follows under the assumption that bs4/lxml serialise
deterministically).
"""
from ..core.tree import AnalysisError
from ..engines import effects as E
from ..engines import structural as S

PARAM_NAMES = ("caption_set", "captions_set", "captions", "content")
COPY_HOOKS = ("__deepcopy__", "__copy__", "__reduce__", "__reduce_ex__", "__getstate__", "__setstate__",
              "__getnewargs__", "__getnewargs_ex__")


def writers(ctx):
    base = ctx.index.get_class("pycaption/base.py", "BaseWriter")
    return sorted((c for c in ctx.index.subclasses(base, strict=True)), key=lambda c: (c.module.path, c.name))


def run(ctx, report):
    E.validate_schema(ctx.index)
    ws = writers(ctx)
    if len(ws) < 8:
        raise AnalysisError(f"only {len(ws)} writers discovered (floor 8)")
    for cls in ws:
        report.section(cls.name, one_writer, ctx, report, cls)
    report.section("copy hooks", copy_hooks, ctx, report)
    report.section("geometry immutability", geometry_immut, ctx, report)
    from . import markup_writer_fold
    report.section("written documents", markup_writer_fold.run, ctx, report, {"unchanged": ("R-DOC-UNCHANGED", "1")})
    report.section("writer objects used repeatedly", markup_writer_fold.reuse, ctx, report, "R-DOC-UNCHANGED", "2")
    report.not_decided.append("byte identity across processes as such; determinism of bs4/lxml serialisation")
    report.assume("copy.deepcopy of the caption model yields objects disjoint from the original (no copy hooks: checked)")
    report.assume("third-party objects (bs4 tags, lxml) are created per call and not shared between writes")


def one_writer(ctx, report, cls):
    wr = cls.find_method("write")
    if wr is None or wr.cls.name == "BaseWriter":
        report.info("R-COPY", (cls.module.path, cls.name), "inherits the identity write() of BaseWriter")
        return
    pname = wr.params[1]
    if cls.name == "TranscriptWriter":
        # needs nltk at construction; write() only reads: analyse it with an opaque self.nltk
        pass
    run = E.run_entry(ctx, cls, "write", {pname: E.model_param(ctx.index, "CaptionSet", f"P:{pname}")})
    for f in sorted(run.I.visited_functions):
        report.covered(f)
    if run.I.counters["calls_unresolved"]:
        report.info("R-COPY", wr, "calls the analysis could not resolve (treated as opaque, arguments havocked)",
                    sorted(set(run.I.unresolved))[:10])
    E.rule_copy(report, run, f"P:{pname}", f"{cls.name}.write never mutates what is reachable from its argument", "1")
    E.rule_state(report, run, f"{cls.name}: no state survives a write()", "2")
    E.rule_globalmut(report, run, f"{cls.name}.write mutates no module-/class-level object", "3")
    E.rule_hashorder(report, run, f"{cls.name}.write: no hash order reaches the output", "4")
    E.rule_nondet(report, run, f"{cls.name}.write calls no clock / random / environment source", "4")
    report.count("functions_inlined", len(run.I.visited_functions))
    report.count("mutation_sites", len(run.events("mutate")))


def copy_hooks(ctx, report):
    bad = []
    n = 0
    for mod in ("pycaption/base.py", "pycaption/geometry.py"):
        for c in ctx.index.by_path[mod].classes.values():
            n += 1
            for h in COPY_HOOKS:
                if h in c.methods:
                    bad.append(f"{c.name}.{h}")
                    report.violation("R-DEEPCOPY-HOOK", c.methods[h], f"{c.name} customises copying ({h})",
                                     {"why": "writers rely on copy.deepcopy giving a fully disjoint copy; a custom hook can "
                                             "share sub-objects between the copy and the caller's set"}, "1")
    report.check(not bad, "R-DEEPCOPY-HOOK", ("pycaption/base.py", "<module>"),
                 f"no model or geometry class customises copying ({n} classes)", None, "1")


def geometry_immut(ctx, report):
    mod = ctx.index.by_path["pycaption/geometry.py"]
    n = 0
    for name in ("Size", "Point", "Stretch", "Padding", "Alignment", "Layout", "Region"):
        n += S.rule_immut_class(report, mod.classes[name], fresh_ctor_methods=("from_points", "from_extent"), clause="3", index=ctx.index)
