"""C01 - reading preserves every cue's start and end instant (text formats).

Decided clauses (DESIGN.md 4/C01):
 1 R-AFFINE    every field of every timestamp spelling is scaled correctly
 2 R-LANG-INCL / R-GROUP-ROLE / R-FRACTION-WIDTH on the timestamp grammars
 3 R-EXACT     exact integer microseconds (no truncation of a doubly rounded float)
 4 R-APPEND-ORDER one caption per cue in document order (structural part)
 5 R-DOMINATES Caption refuses non-numeric times
NOT decided: cue segmentation by the parser libraries, SRT/WebVTT block scanning.
"""
import ast
import re
from fractions import Fraction

from ..core.tree import AnalysisError
from ..core.constfold import Folder, RegexConst
from ..core.astutil import walk_no_nested, call_name, short, src, kwarg, closure, closure_nodes, resolve_local
from ..engines import regexlang as R
from ..engines.regexuse import regex_uses
from ..engines.symeval import SymEvaluator, Poly, SMatch, SObj, Raised, Param, SStr, inner_of, _PropagateRaise
from ..engines.affine import check_affine, unwrap_floor, outcome_table, form_dict
from ..spec import time_grammar as T

US_H, US_M, US_S, US_MS = 3600000000, 60000000, 1000000, 1000


def run(ctx, report):
    folder = ctx.memo("folder", lambda: Folder(ctx.index))
    ev = lambda: SymEvaluator(ctx.index, folder)
    # the symbolic forms (all values, one outcome per path) are read off ONE spelling of each converter; when the evaluator
    # does not support a construct, the conversion is still decided on every spelling of the format's stamp grammar by the
    # lexical-forms fold below (and, for SAMI, by the generated documents), so the part records an INFO instead of refusing
    lex = "R-DENOTES on an enumeration of every spelling of the format's time expressions (timestamp_fold) and R-SEGMENT on generated documents"
    report.structural_section("SRT (symbolic form)", lex, srt_site, ctx, report, ev)
    report.structural_section("WebVTT (symbolic form)", lex, webvtt_site, ctx, report, ev, folder)
    report.structural_section("DFXP (symbolic form)", lex, dfxp_site, ctx, report, ev, folder)
    report.section("DFXP fraction digits", fraction_digits_section, ctx, report, ev, folder)
    report.structural_section("MicroDVD (symbolic form)", lex, microdvd_site, ctx, report, ev, folder)
    report.structural_section("SAMI (symbolic form)", "R-DENOTES / R-SEGMENT on the generated SAMI documents (sami_reader_fold)",
                              sami_site, ctx, report, ev, folder)
    report.structural_section("append-order (shape)", "R-SEGMENT on the generated documents of every reader (one caption per cue, in "
                              "document order)", append_order, ctx, report)
    report.section("Caption guards", caption_guards, ctx, report)
    from . import timestamp_fold
    report.section("lexical forms", timestamp_fold.run, ctx, report)
    from . import srt_doc_fold, reader_doc_fold, dfxp_reader_fold
    report.section("generated DFXP documents", dfxp_reader_fold.run, ctx, report, {
        "cues": ("R-SEGMENT", "4"), "times": ("R-DENOTES", "2")})
    from . import sami_reader_fold
    report.section("generated SAMI documents", sami_reader_fold.run, ctx, report, {
        "cues": ("R-SEGMENT", "4"), "times": ("R-DENOTES", "2")})
    report.section("generated documents", reader_doc_fold.run, ctx, report, {
        "cues": ("R-SEGMENT", "4", "one caption per cue of the document, in order"),
        "times": ("R-SEGMENT", "4", "each caption carries the instants of its own timing line / frame pair")})
    report.section("SRT documents", srt_doc_fold.run, ctx, report, {
        "cues": ("R-SEGMENT", "4", "SRT: one caption per cue of the document, whatever blank line separates the cues"),
        "times": ("R-SEGMENT", "4", "SRT: each caption carries the instants of its own timing line, in document order"),
        "text": ("R-SEGMENT", "4", "SRT: each caption holds the text lines of its own cue"),
    })
    n_sites = report.counters.get("conversion_sites", 0)
    if n_sites < 10 and not report.analysis_errors and not any(i.rule == "R-STRUCTURE" for i in report.instances):
        raise AnalysisError(f"only {n_sites} time-conversion sites analysed (floor 10)")
    report.not_decided += [
        "that splitlines / BeautifulSoup find_all / select deliver the cues the document contains",
        "SRT block segmentation beyond the generated documents (<= 3 cues) and WebVTT cue segmentation over arbitrary documents",
        "ignore_timing_errors validation outcomes"]
    report.assume("int(str) / float(str) / Fraction(str) read a decimal numeral exactly / to nearest / exactly")
    report.assume("binary float arithmetic: each operation is correctly rounded (IEEE 754)")


# --------------------------------------------------------------------------
def exactness(report, where, label, poly, clause="3", finite_domain=None):
    """R-EXACT: truncation (int/floor) of a value that went through two or more
    float roundings may come out one unit short when the exact value is
    integral.  finite_domain: optional callable returning (ok, detail) that
    folds the expression over the whole finite domain."""
    inner, floored = unwrap_floor(poly)
    if not floored:
        from ..engines.affine import flatten_floors
        _flat, truncated = flatten_floors(inner)
        worst = max([t.rounds for t in truncated], default=0)
        if worst >= 2:
            report.violation("R-EXACT", where, label,
                             {"form": inner.show()[:200], "float_roundings_before_truncation": worst,
                              "why": "a term is truncated after two or more float roundings: it can come out one unit short"},
                             clause)
            return
        report.ok("R-EXACT", where, label, {"kind": "exact integer arithmetic, no truncation" if not truncated else
                                             "truncation of exact / once-rounded terms only",
                                             "form": inner.show()[:160]}, clause)
        return
    if inner.rounds >= 2:
        if finite_domain is not None:
            ok, detail = finite_domain()
            report.check(ok, "R-EXACT", where, label, detail, clause)
            return
        report.violation("R-EXACT", where, label,
                         {"form": f"floor[{inner.show()[:160]}]", "float_roundings_before_truncation": inner.rounds,
                          "why": "a product/quotient rounded twice can land just below an integer that the exact "
                                 "value equals; int() then drops a whole unit"}, clause)
    else:
        report.ok("R-EXACT", where, label, {"form": f"floor[{inner.show()[:160]}]",
                                             "float_roundings_before_truncation": inner.rounds}, clause)


def fraction_atoms(poly):
    """atoms of the form int(<base>[:w].ljust(w,'0')) etc. -> parsed chain"""
    out = []
    for a in unwrap_floor(poly)[0].atoms():
        m = re.fullmatch(r"int\((?P<base>.+?)(?P<chain>(\[:\d+\]|\.(ljust|rjust|zfill|center)\([^()]*\))+)\)", a)
        if m:
            out.append((a, m.group("base"), m.group("chain")))
    return out


# --------------------------------------------------------------------------
def srt_site(ctx, report, ev):
    fn = ctx.index.get_function("pycaption/srt.py", "SRTReader._srttomicro")
    report.covered(fn)
    outs = ev().run(fn)
    f = lambda i: f"int($stamp.split(':')[{i}])"
    sec0 = "int($stamp.split(':')[2].split(',')[0])"
    sec1 = "int($stamp.split(':')[2].split(',')[1])"
    vocab = {f(0), f(1), f(2), sec0, sec1}
    # alternative spelling: the seconds field (with its fraction) read as one decimal number
    dec = {k: f"{k}($stamp.split(':')[2].replace(',', '.'))" for k in ("float", "Fraction", "Decimal")}
    n = 0
    for o in outs:
        if isinstance(o.value, Raised):
            continue
        if isinstance(o.value, Poly):
            from ..engines.affine import base_atoms
            atoms = base_atoms(unwrap_floor(o.value)[0])
            alt = [a for a in dec.values() if a in atoms]
            if alt:
                exp = {f(0): US_H, f(1): US_M, alt[0]: US_S}
                label = "hh:mm:ss,mmm -> microseconds (seconds read as one decimal number)"
                check_affine(report, "R-AFFINE", fn, label, o.value, exp, {f(0), f(1), alt[0]}, "1", want_floor=True)
                exactness(report, fn, label, o.value)
                n = 2
                continue
        comma = not any(c == "',' not in $stamp.split(':')[2]" and b for c, b in o.conds)
        if comma:
            exp = {f(0): US_H, f(1): US_M, sec0: US_S, sec1: US_MS}
            label = "hh:mm:ss,mmm -> microseconds"
        else:
            exp = {f(0): US_H, f(1): US_M, f(2): US_S}
            label = "hh:mm:ss (no fraction) -> microseconds"
        # (fields of a datetime.timedelta, should the conversion go through one: a result that is not the
        # whole duration keeps a td.days / td.seconds term, which the oracle wants to be absent)
        check_affine(report, "R-AFFINE", fn, label, o.value, exp, vocab | {"td.days", "td.seconds"}, "1",
                     note="hour counts of 24 and more are valid: the days part of a timedelta must not be dropped")
        exactness(report, fn, label, o.value)
        n += 1
    if n != 2:
        raise AnalysisError(f"SRT conversion: expected 2 value paths, found {n}")
    report.count("conversion_sites")
    # the call sites hand the two halves of the arrow line to the conversion
    rd = ctx.index.get_function("pycaption/srt.py", "SRTReader.read")
    report.covered(rd)
    sites = [(f2, c) for f2, c in closure_nodes(ctx.index, rd, ast.Call) if (call_name(c) or "").split(".")[-1] == "Caption"]
    if len(sites) != 1:
        raise AnalysisError(f"SRT reader: expected one Caption(...) construction, found {len(sites)}")
    f2, c = sites[0]
    got = []
    for k, name in ((0, "start"), (1, "end")):
        a = c.args[k] if len(c.args) > k else kwarg(c, name)
        txt = src(resolve_local(f2, a, index=ctx.index)) if a is not None else ""
        m = re.search(r"_srttomicro\(.*\.split\('-->'\)\[(\d)\]", txt)
        if not m and "_srttomicro" not in txt:
            raise AnalysisError(f"SRT reader: cannot trace the {name} argument of Caption(...) to the conversion: {txt[:120]}")
        got.append(int(m.group(1)) if m else None)
    if None in got:
        raise AnalysisError("SRT reader: the halves of the arrow line are not taken with .split('-->')[k] (spelling not recognised)")
    report.check(got == [0, 1], "R-FIELD-ROUTING", rd, "start from the left of '-->', end from the right",
                 {"caption_arguments_trace_to_fields": got}, "1")


# --------------------------------------------------------------------------
def webvtt_site(ctx, report, ev, folder):
    path = "pycaption/webvtt.py"
    fn = ctx.index.get_function(path, "WebVTTReader._parse_timestamp")
    report.covered(fn)
    report.covered(ctx.index.get_function(path, "microseconds"))
    outs = ev().run(fn)
    g = lambda k: f"M[$timestamp].g<{k}>"
    h3 = f"int({g(3)}.replace(':', ''))"
    vocab = {f"int({g(1)})", f"int({g(2)})", h3, f"int({g(4)})"}
    n = 0
    for o in outs:
        if isinstance(o.value, Raised):
            continue
        hours = any(c == f"truthy({g(3)})" and b for c, b in o.conds)
        if hours:
            exp = {f"int({g(1)})": US_H, f"int({g(2)})": US_M, h3: US_S, f"int({g(4)})": US_MS}
            label = "hh:mm:ss.ttt -> microseconds"
        else:
            exp = {f"int({g(1)})": US_M, f"int({g(2)})": US_S, f"int({g(4)})": US_MS}
            label = "mm:ss.ttt -> microseconds"
        check_affine(report, "R-AFFINE", fn, label, o.value, exp, vocab, "1")
        exactness(report, fn, label, o.value)
        n += 1
    if n != 2:
        raise AnalysisError(f"WebVTT timestamp: expected 2 value paths, found {n}")
    raises = [o for o in outs if isinstance(o.value, Raised)]
    report.check(any("matched" in o.cond_text() for o in raises), "R-MUSTRAISE", fn,
                 "no match -> CaptionReadSyntaxError", outcome_table(raises), "2")
    report.count("conversion_sites", 2)

    # grammar: reference timestamps are accepted, groups have the assumed roles
    uses = [u for u in regex_uses(fn, folder) if u.method in ("search", "match", "fullmatch")]
    if len(uses) != 1:
        raise AnalysisError("WebVTT _parse_timestamp: expected one regex application")
    u = uses[0]
    alpha = R.make_alphabet(u.pattern)
    lang = R.lang_of_pattern(u.pattern, alpha, u.mode, u.flags)
    ref = R.Lang(T.webvtt_timestamp(), alpha, "full")
    w = R.difference_witness(ref, lang)
    report.check(w is None, "R-LANG-INCL", (fn, u.node), "every WebVTT timestamp is accepted by TIMESTAMP_PATTERN",
                 {"pattern": u.pattern, "applied_with": u.method,
                  **({"shortest_rejected_timestamp": w} if w is not None else {})}, "2")
    # the match must start at the beginning of the stamp (a stamp is one \S+ token)
    loose = R.cat(R.plus(R.cset("0123456789")), R.lit(":"), R.digits(2, 2), R.opt(R.cat(R.lit(":"), R.digits(2, 2))),
                  R.lit("."), R.digits(3, 3))
    a_ascii0 = R.Alphabet([c for c in alpha.chars if c.isascii()])
    lang0 = R.lang_of_pattern(u.pattern, a_ascii0, u.mode, u.flags)
    w2 = R.difference_witness(lang0, R.Lang(R.cat(loose, R.star(R.cset(a_ascii0.set))), a_ascii0, "full"))
    report.check(w2 is None, "R-LANG-INCL", (fn, u.node),
                 "TIMESTAMP_PATTERN matches only strings that begin with a timestamp",
                 {"shortest_string_matched_elsewhere": w2} if w2 is not None else None, "2")
    roles = {1: R.plus(R.cset("0123456789")), 2: R.digits(2, 2), 3: R.cat(R.lit(":"), R.digits(2, 2)),
             4: R.digits(3, 3)}
    for gi, want in roles.items():
        got = lang.groups.get(gi)
        if got is None:
            raise AnalysisError(f"TIMESTAMP_PATTERN: group {gi} missing")
        a_ascii = R.Alphabet([c for c in alpha.chars if c.isascii()])
        ww = R.equal_witness(R.Lang(_restrict(got, a_ascii), a_ascii, "full"), R.Lang(want, a_ascii, "full"))
        report.check(ww is None, "R-GROUP-ROLE", (fn, u.node), f"TIMESTAMP_PATTERN group {gi}",
                     {"witness": ww} if ww else None, "2")

    # timing line: both stamps shifted by the configured amount
    tl = ctx.index.get_function(path, "WebVTTReader._parse_timing_line")
    report.covered(tl)
    init = ctx.index.get_function(path, "WebVTTReader.__init__")
    selfobj = SObj("self", {}, "self")
    e0 = ev()
    e0.run(init, None, self_obj=selfobj)
    shift = selfobj.attrs.get("time_shift_microseconds")
    if not isinstance(shift, Poly):
        raise AnalysisError("WebVTTReader.__init__: time_shift_microseconds not computed")
    check_affine(report, "R-AFFINE", init, "time_shift_milliseconds -> microseconds", shift,
                 {"$time_shift_milliseconds": 1000}, {"$time_shift_milliseconds"}, "1")
    e1 = ev()
    key = ctx.index.get_function(path, "WebVTTReader._parse_timestamp").key
    e1.stubs[key] = lambda args, kw: Poly.atom(f"ts({args[0].path})")
    so = SObj("self", {"time_shift_microseconds": Poly.atom("SHIFT"), "ignore_timing_errors": True}, "self")
    outs = e1.run(tl, None, self_obj=so)
    vals = [o for o in outs if isinstance(o.value, tuple)]
    if not vals:
        raise AnalysisError("_parse_timing_line: no value path")
    for o in vals:
        start, end = o.value[0], o.value[1]
        a1, a2 = "ts(M[$line].g<1>)", "ts(M[$line].g<2>)"
        check_affine(report, "R-AFFINE", tl, "cue start = stamp left of '-->' + shift", start,
                     {a1: 1, "SHIFT": 1}, {a1, a2, "SHIFT"}, "1")
        check_affine(report, "R-AFFINE", tl, "cue end = stamp right of '-->' + shift", end,
                     {a2: 1, "SHIFT": 1}, {a1, a2, "SHIFT"}, "1")
        break
    uses = [u for u in regex_uses(tl, folder) if u.method in ("search", "match", "fullmatch")]
    if len(uses) != 1:
        raise AnalysisError("_parse_timing_line: expected one regex application")
    u = uses[0]
    alpha = R.Alphabet([c for c in R.make_alphabet(u.pattern).chars if c not in "\n\r\x0b\x0c  "])
    lang = R.lang_of_pattern(u.pattern, alpha, u.mode, u.flags)
    ref = R.Lang(T.webvtt_timing_line(alpha), alpha, "full")
    w = R.difference_witness(ref, lang)
    report.check(w is None, "R-LANG-INCL", (tl, u.node), "every WebVTT timing line is accepted by TIMING_LINE_PATTERN",
                 {"pattern": u.pattern, "alphabet": "single-line strings (no line terminators)",
                  **({"shortest_rejected_line": w} if w is not None else {})}, "2")
    report.count("conversion_sites")


def _restrict(ast_, alphabet):
    k = ast_[0]
    if k == "set":
        return ("set", frozenset(c for c in ast_[1] if c in alphabet.set))
    if k in ("cat", "alt"):
        return (k, [_restrict(x, alphabet) for x in ast_[1]])
    if k == "rep":
        return ("rep", _restrict(ast_[1], alphabet), ast_[2], ast_[3])
    if k == "grp":
        return ("grp", ast_[1], _restrict(ast_[2], alphabet))
    return ast_


# --------------------------------------------------------------------------
def dfxp_site(ctx, report, ev, folder):
    path = "pycaption/dfxp/base.py"
    top = ctx.index.get_function(path, "DFXPReader._convert_timestamp_to_microseconds")
    clock = ctx.index.get_function(path, "DFXPReader._convert_clock_time_to_microseconds")
    count = ctx.index.get_function(path, "DFXPReader._convert_time_count_to_microseconds")
    for f in (top, clock, count):
        report.covered(f)
    pat = folder.value("pycaption.dfxp.base", "TIME_EXPRESSION_PATTERN")
    if not isinstance(pat, RegexConst):
        raise AnalysisError("TIME_EXPRESSION_PATTERN does not fold to a compiled pattern")
    outs = ev().run(top)
    g = lambda k: f"M[$stamp].g<{k}>"
    H, M_, S = f"int({g('hours')})", f"int({g('minutes')})", f"int({g('seconds')})"
    FR = f"int({g('frames')})"
    vals = [o for o in outs if isinstance(o.value, Poly)]
    raises = [o for o in outs if isinstance(o.value, Raised)]
    n_clock = n_count = 0
    metrics_seen = {}
    for o in vals:
        conds = dict(o.conds)
        if conds.get(f"truthy({g('clock_time')})"):
            inner, floored = unwrap_floor(o.value)
            fr = fraction_atoms(o.value)
            vocab = {H, M_, S, FR} | {a for a, _, _ in fr}
            if conds.get(f"truthy({g('sub_frames')})"):
                if len(fr) != 1:
                    raise AnalysisError("DFXP clock time: fraction field normalisation not recognised: "
                                        + inner.show()[:200])
                atom, base, chain = fr[0]
                if base != g("sub_frames"):
                    raise AnalysisError(f"DFXP clock time: fraction read from {base}")
                width, pad_ok, trunc = _fraction_chain(chain)
                exp = {H: US_H, M_: US_M, S: US_S, atom: Fraction(10 ** 6, 10 ** width) if width else 0}
                label = "hh:mm:ss.fraction -> microseconds"
                check_affine(report, "R-AFFINE", clock, label, o.value, exp, vocab, "1",
                             note=f"fraction normalised to {width} digits must be scaled by 10^(6-{width})")
                report.check(pad_ok, "R-FRACTION-WIDTH", clock, "fraction is padded on the right with zeros",
                             {"normalisation": chain, "why": "a second fraction '.5' means 500 ms: digits keep their "
                                                             "place only when padding is appended"}, "2")
                # the grammar admits arbitrarily many digits: they must be cut to the width
                lang_digits = _max_digits(pat.pattern, "sub_frames")
                ok = trunc is not None and trunc <= width or (lang_digits is not None and lang_digits <= width)
                report.check(ok, "R-FRACTION-WIDTH", clock,
                             "fraction digits beyond the normalised width cannot reach the conversion",
                             {"digits_admitted_by_grammar": "unbounded" if lang_digits is None else lang_digits,
                              "normalised_width": width, "truncated_to": trunc,
                              "why": "ljust pads but neither truncates nor rescales: '.1234' would be read as 1234 units"},
                             "2")
                exactness(report, clock, label, o.value)
            elif conds.get(f"truthy({g('frames')})"):
                exp = {H: US_H, M_: US_M, S: US_S, FR: Fraction(US_S, T.TTML_FRAME_RATE)}
                label = "hh:mm:ss:ff -> microseconds (30 fps)"
                check_affine(report, "R-AFFINE", clock, label, o.value, exp, vocab, "1", want_floor=True)
                exactness(report, clock, label, o.value, finite_domain=lambda: _fold_frames(clock, folder))
            else:
                exp = {H: US_H, M_: US_M, S: US_S}
                label = "hh:mm:ss -> microseconds"
                check_affine(report, "R-AFFINE", clock, label, o.value, exp, vocab, "1")
                exactness(report, clock, label, o.value)
            n_clock += 1
        else:
            metric = None
            for c, b in o.conds:
                m = re.fullmatch(re.escape(g("metric")) + r" == '(\w+)'", c)
                if m and b:
                    metric = m.group(1)
            if metric is None:
                raise AnalysisError("DFXP offset time: metric case not recognised: " + o.cond_text()[:200])
            inner, floored = unwrap_floor(o.value)
            atoms = inner.atoms()
            if len(atoms) == 1 and atoms[0].startswith("round["):
                check_affine(report, "R-AFFINE", count, f"offset time in '{metric}' -> microseconds", o.value, {}, set(), "1",
                             want_floor=True)
                metrics_seen[metric] = True
                n_count += 1
                continue
            tc = [a for a in atoms if g("time_count") in a]
            if len(tc) != 1 or not re.fullmatch(r"(float|Fraction|Decimal)\(" + re.escape(g("time_count")) + r"\)", tc[0]):
                raise AnalysisError("DFXP offset time: count field not recognised: " + inner.show()[:120])
            want = T.TTML_OFFSET_UNITS.get(metric)
            label = f"offset time in '{metric}' -> microseconds"
            if want is None:
                report.violation("R-AFFINE", count, label, {"found": inner.show(), "required": "not a TTML metric"}, "1")
            else:
                check_affine(report, "R-AFFINE", count, label, o.value, {tc[0]: want}, {tc[0]}, "1", want_floor=True)
                exactness(report, count, label, o.value)
            metrics_seen[metric] = True
            n_count += 1
    if n_clock != 3:
        raise AnalysisError(f"DFXP clock time: expected 3 value paths (fraction, frames, plain), found {n_clock}")
    missing = sorted(set(T.TTML_OFFSET_UNITS) - set(metrics_seen))
    report.check(not missing, "R-AFFINE", count, "all offset metrics h m s ms f are converted",
                 {"missing": missing} if missing else {"metrics": sorted(metrics_seen)}, "1")
    t_raise = [o for o in raises if f"{g('metric')} == 't'" in o.cond_text()
               and dict(o.conds).get(f"{g('metric')} == 't'")]
    report.check(bool(t_raise), "R-MUSTRAISE", count, "tick metric 't' is refused, not guessed",
                 outcome_table(t_raise) or "no raising path for metric t", "1")
    nomatch = [o for o in raises if "matched" in o.cond_text()]
    report.check(bool(nomatch), "R-MUSTRAISE", top, "no match -> CaptionReadTimingError",
                 outcome_table(nomatch), "2")
    report.count("conversion_sites", 2)

    # begin / end / dur
    fct = ctx.index.get_function(path, "DFXPReader._find_and_convert_times")
    report.covered(fct)
    e1 = ev()
    e1.stubs[top.key] = lambda args, kw: Poly.atom(f"conv({args[0].path})")
    outs = e1.run(fct)
    vals = [o for o in outs if isinstance(o.value, tuple)]
    seen = set()
    for o in vals:
        start, end = o.value
        conds = dict(o.conds)
        b = "conv($p_tag.get('begin'))"
        voc = {b, "conv($p_tag['end'])", "conv($p_tag['dur'])", "conv($p_tag.get('end'))", "conv($p_tag.get('dur'))"}
        check_affine(report, "R-AFFINE", fct, "start = begin", start, {b: 1}, voc, "1")
        if conds.get("truthy($p_tag.get('end'))"):
            e_atoms = [a for a in end.atoms()]
            exp = {a: 1 for a in e_atoms if "end" in a}
            check_affine(report, "R-AFFINE", fct, "end = end attribute", end, exp or {"conv($p_tag['end'])": 1}, voc, "1")
            seen.add("end")
        else:
            d_atoms = [a for a in end.atoms() if "dur" in a]
            exp = {b: 1}
            exp.update({a: 1 for a in d_atoms})
            if not d_atoms:
                exp["conv($p_tag['dur'])"] = 1
            check_affine(report, "R-AFFINE", fct, "end = begin + dur", end, exp, voc, "1")
            seen.add("dur")
    if seen != {"end", "dur"}:
        raise AnalysisError(f"_find_and_convert_times: cases found {sorted(seen)}")
    # which inputs are refused: exactly 'no begin' and 'neither end nor dur'; what is accepted has what it reads
    B, E_, D = "truthy($p_tag.get('begin'))", "truthy($p_tag.get('end'))", "truthy($p_tag.get('dur'))"
    wrong = []
    for o in outs:
        c = dict(o.conds)
        if isinstance(o.value, Raised):
            legit = c.get(B) is False or (c.get(E_) is False and c.get(D) is False)
            if not legit:
                wrong.append({"refused_although": {k: v for k, v in c.items() if k in (B, E_, D)}})
        elif isinstance(o.value, tuple):
            if c.get(B) is not True or (c.get(E_) is not True and c.get(D) is not True):
                wrong.append({"accepted_although": {k: v for k, v in c.items() if k in (B, E_, D)}})
    report.check(not wrong, "R-MUSTRAISE", fct, "a cue is refused exactly when it has no begin, or neither end nor dur",
                 {"outcomes": len(outs), "wrong": wrong[:3]}, "2")
    report.count("conversion_sites")

    # grammar
    alpha = R.Alphabet([c for c in R.make_alphabet(pat.pattern).chars if c.isascii() and c not in "\n\r\x0b\x0c"])
    uses = [u for u in regex_uses(top, folder) if u.method in ("search", "match", "fullmatch")]
    if len(uses) != 1:
        raise AnalysisError("DFXP timestamp: expected one regex application")
    lang = R.lang_of_pattern(pat.pattern, alpha, uses[0].mode, pat.flags)
    ref = R.Lang(T.ttml_time_expression(), alpha, "full")
    w = R.difference_witness(ref, lang)
    report.check(w is None, "R-LANG-INCL", (top, uses[0].node),
                 "every TTML time expression (clock time, offset time) is accepted",
                 {"pattern": pat.pattern, **({"shortest_rejected_expression": w} if w is not None else {})}, "2")
    roles = {"hours": R.plus(R.cset("0123456789")), "minutes": R.digits(2, 2), "seconds": R.digits(2, 2),
             "frames": R.digits(2, 2), "metric": R.alt(*[R.lit(m) for m in list(T.TTML_OFFSET_UNITS) + ["t"]])}
    for name, want in roles.items():
        got = lang.groups.get(name)
        if got is None:
            raise AnalysisError(f"TIME_EXPRESSION_PATTERN: group {name} missing")
        ww = R.difference_witness(R.Lang(want, alpha, "full"), R.Lang(got, alpha, "full"))
        ww2 = R.difference_witness(R.Lang(got, alpha, "full"), R.Lang(want, alpha, "full")) \
            if name != "hours" else None
        report.check(ww is None and ww2 is None, "R-GROUP-ROLE", (top, uses[0].node),
                     f"TIME_EXPRESSION_PATTERN group '{name}'",
                     {"witness": ww if ww is not None else ww2} if (ww is not None or ww2 is not None) else None, "2")


def fraction_digits_section(ctx, report, ev, folder):
    clock = ctx.index.get_function("pycaption/dfxp/base.py", "DFXPReader._convert_clock_time_to_microseconds")
    pat = folder.value("pycaption.dfxp.base", "TIME_EXPRESSION_PATTERN")
    if not isinstance(pat, RegexConst):
        raise AnalysisError("TIME_EXPRESSION_PATTERN does not fold to a compiled pattern")
    fraction_digits(ctx, report, ev, clock, pat)


def fraction_digits(ctx, report, ev, clock, pat, max_len=9):
    """The second fraction, digit by digit: the clock-time routine is evaluated symbolically on a
    match whose fraction group is a string of n SYMBOLIC decimal digits d1..dn, for every n in
    1..max_len.  The result must be  hours, minutes, seconds at their scales + sum_{i<=6} d_i *
    10^(6-i)  microseconds (digits past the sixth are below the resolution: any weight between 0
    and their true one), with no float rounding.  This is independent of how the normalisation is
    spelled (slicing, padding, scaling by a power of ten ...)."""
    from ..engines.symeval import SDigits, NONE
    g = lambda k: f"M[$stamp].g<{k}>"
    base = {f"int({g('hours')})": US_H, f"int({g('minutes')})": US_M, f"int({g('seconds')})": US_S}
    bad = []
    evaluated = 0
    for n in range(1, max_len + 1):
        m = SMatch(pat, "$stamp", "match")
        digs = SDigits.symbolic("fraction", n)
        m.overrides = {"sub_frames": digs, "frames": NONE}
        try:
            outs = ev().run(clock, {clock.params[0]: m})
        except AnalysisError as e:
            raise AnalysisError(f"DFXP clock time with a {n}-digit fraction: {e}")
        vals = [o for o in outs if isinstance(o.value, Poly)]
        if len(vals) != 1:
            raise AnalysisError(f"DFXP clock time with a {n}-digit fraction: {len(vals)} value paths")
        evaluated += 1
        v = vals[0].value
        inner, floored = unwrap_floor(v)
        form = form_dict(inner)
        why = []
        for k, c in base.items():
            if form.pop(k, 0) != c:
                why.append(f"{k} not scaled by {c}")
        for i in range(1, n + 1):
            c = Fraction(form.pop(f"fraction#{i}", 0))
            true = Fraction(10 ** 6, 10 ** i)
            if i <= 6 and c != true:
                why.append(f"digit {i} of the fraction weighs {c} us instead of {true}")
            if i > 6 and not (0 <= c <= true):
                why.append(f"digit {i} of the fraction weighs {c} us (at most {true})")
        form.pop("", None) if form.get("", 0) == 0 else None
        if form:
            why.append(f"unexpected terms {sorted(form)[:3]}")
        if v.isfloat and (v.rounds or 0) > 0:
            why.append("the value went through binary floating point")
        if why:
            bad.append({"fraction_digits": n, "problems": why[:3], "computed": inner.show()[:160]})
    report.check(not bad, "R-FRACTION-DIGITS", clock,
                 "hh:mm:ss.fraction: every digit of a 1..%d digit fraction has its decimal weight in microseconds" % max_len,
                 {"lengths_evaluated": evaluated, "mismatches": bad[:3],
                  "not_decided": f"fractions longer than {max_len} digits"}, "2")


def _fraction_chain(chain):
    """('[:6].ljust(6, '0')') -> (width, padded_right_with_zero, truncation)"""
    width = None
    pad_ok = True
    trunc = None
    for m in re.finditer(r"\[:(\d+)\]|\.(ljust|rjust|zfill|center)\(([^()]*)\)", chain):
        if m.group(1):
            trunc = int(m.group(1))
        else:
            meth, args = m.group(2), [a.strip() for a in m.group(3).split(",")]
            width = int(args[0])
            if meth != "ljust" or (len(args) < 2 or args[1] not in ("'0'", '"0"')):
                pad_ok = False
    if width is None:
        width = trunc if trunc is not None else 0
    return width, pad_ok, trunc


def _max_digits(pattern, group):
    """maximal length of the named all-digit group, None if unbounded"""
    import re._parser as P
    import re._constants as C
    sp = P.parse(pattern)
    gid = sp.state.groupdict.get(group)

    def find(sub):
        for op, arg in sub:
            if op == C.SUBPATTERN:
                if arg[0] == gid:
                    return arg[3]
                r = find(arg[3])
                if r is not None:
                    return r
            elif op == C.BRANCH:
                for s in arg[1]:
                    r = find(s)
                    if r is not None:
                        return r
            elif op in (C.MAX_REPEAT, C.MIN_REPEAT):
                r = find(arg[2])
                if r is not None:
                    return r
        return None
    body = find(sp)
    if body is None:
        raise AnalysisError(f"group {group} not found")
    lo, hi = body.getwidth()
    return None if hi >= C.MAXREPEAT else hi


def _fold_frames(clock, folder):
    """finite-domain fold: the whole clock-time routine is folded (constant evaluation of its
    source, no import) on a match stub for every value 00..99 of the two-digit frame field, the
    other fields zero, and compared with exact rational arithmetic."""
    from ..core.constfold import Stub
    bad = []
    for f in range(100):
        m = Stub.match({"hours": "00", "minutes": "00", "seconds": "00", "sub_frames": None,
                        "frames": f"{f:02d}", 0: f"00:00:00:{f:02d}"})
        try:
            got = folder.call_function(clock, [m], self_value=Stub("reader"))
        except AnalysisError as e:
            raise AnalysisError(f"frames fold: {e}")
        want = Fraction(f * US_S, 30)
        if isinstance(got, bool) or not isinstance(got, (int, float, Fraction)) \
                or int(got) != want.numerator // want.denominator:
            bad.append((f, repr(got), str(want)))
    return (not bad, {"domain": "frames 00..99 (regex \\d{2})", "folded": clock.qualname,
                      "mismatches_vs_exact_floor": bad[:5], "evaluated": 100})


# --------------------------------------------------------------------------
def microdvd_site(ctx, report, ev, folder):
    path = "pycaption/microdvd.py"
    fn = ctx.index.get_function(path, "MicroDVDReader._framestomicro")
    rd = ctx.index.get_function(path, "MicroDVDReader.read", inline=True, keep=("_framestomicro",))
    report.covered(fn)
    report.covered(rd)
    outs = ev().run(fn)
    vals = [o for o in outs if isinstance(o.value, Poly)]
    if len(vals) != 1:
        raise AnalysisError("MicroDVD _framestomicro: expected one path")
    label = "frame number -> microseconds (frame * 10^6 / fps)"
    # (the two parameters by position: frame number, frames per second)
    p_frame, p_fps = ("$" + fn.params[-2], "$" + fn.params[-1]) if len(fn.params) >= 2 else ("$framenum", "$fps")
    check_affine(report, "R-AFFINE", fn, label, vals[0].value, {"*".join(sorted([p_fps + "^-1", p_frame])): US_S},
                 {p_fps, p_frame}, "1", want_floor=True)
    # call sites: which frame number and which fps reach the conversion
    calls = [c for c in walk_no_nested(rd.node) if isinstance(c, ast.Call) and call_name(c) == "self._framestomicro"]
    if len(calls) != 2:
        raise AnalysisError(f"MicroDVDReader.read: {len(calls)} conversion calls (expected start and end)")
    uses = [u for u in regex_uses(rd, folder) if u.method in ("match", "search", "fullmatch")]
    if len(uses) != 1:
        raise AnalysisError("MicroDVDReader.read: expected one line pattern")
    # Caption(start, end, ...): both arguments traced back (through locals) to the conversion
    # of one numbered group of the line pattern
    capt = [c for c in walk_no_nested(rd.node) if isinstance(c, ast.Call) and call_name(c) == "Caption"]
    if len(capt) != 1:
        raise AnalysisError(f"MicroDVDReader.read: expected one Caption(...) construction, found {len(capt)}")
    grp = r"\.groups\(\)\[(\d)\]|\.group\((\d)\)"
    traced = []
    for k, name in ((0, "start"), (1, "end")):
        a_ = capt[0].args[k] if len(capt[0].args) > k else kwarg(capt[0], name)
        txt = src(resolve_local(rd, a_)) if a_ is not None else ""
        m = re.fullmatch(r"self\._framestomicro\(int\((?:.*?)(?:%s)\), (?:fps=)?(\w+)\)" % grp, txt)
        if not m:
            raise AnalysisError(f"MicroDVDReader.read: cannot trace Caption {name} to the conversion: {txt[:100]}")
        gi = int(m.group(1)) + 1 if m.group(1) is not None else int(m.group(2))
        traced.append((name, gi, m.group(3)))
    report.check([t[1] for t in traced] == [1, 2], "R-FIELD-ROUTING", rd,
                 "first brace field -> start, second -> end (as integers), in Caption(start, end, ...)",
                 {"caption_argument_traces": traced}, "1")
    report.ok("R-FIELD-ROUTING", rd, "Caption(start, end, ...) receives the converted start then end",
              [short(c) for c in capt], "1") if [t[1] for t in traced] == [1, 2] else None
    # fps: definitions reaching the call
    fps_arg = [src(c.args[1]) if len(c.args) > 1 else None for c in calls]
    if len(set(fps_arg)) != 1 or fps_arg[0] is None:
        raise AnalysisError("MicroDVDReader.read: fps argument not uniform")
    fps_name = fps_arg[0]
    defs = []
    for n in walk_no_nested(rd.node):
        if isinstance(n, ast.Assign) and len(n.targets) == 1 and isinstance(n.targets[0], ast.Name) \
                and n.targets[0].id == fps_name:
            defs.append(n.value)
    kinds = []
    for d in defs:
        d = resolve_local(rd, d) if isinstance(d, ast.Name) else d
        if isinstance(d, ast.Constant):
            kinds.append(("default", d.value))
        elif isinstance(d, ast.Call) and call_name(d) in ("float", "Fraction", "Decimal", "int"):
            kinds.append(("declared", call_name(d), src(resolve_local(rd, d.args[0]))))
        else:
            kinds.append(("other", src(d)))
    default = [k for k in kinds if k[0] == "default"]
    report.check(len(default) == 1 and Fraction(str(default[0][1])) == T.MICRODVD_DEFAULT_FPS,
                 "R-AFFINE", rd, "default frame rate is 25 fps", {"definitions_of_fps": kinds}, "1")
    declared = [k for k in kinds if k[0] == "declared"]
    dm = re.search(grp, declared[0][2]) if len(declared) == 1 else None
    dgi = None if not dm else (int(dm.group(1)) + 1 if dm.group(1) is not None else int(dm.group(2)))
    report.check(dgi == 3, "R-FIELD-ROUTING", rd,
                 "a declared rate is read from the text of the {0}{0} line",
                 {"definitions_of_fps": kinds}, "1")
    # the declaration is recognised by start == '0' and end == '0'
    guard = None
    for n in walk_no_nested(rd.node):
        if isinstance(n, ast.If) and any(isinstance(x, ast.Assign) and isinstance(x.targets[0], ast.Name)
                                         and x.targets[0].id == fps_name for x in ast.walk(n)):
            guard = resolve_local(rd, n.test)
            break
    if guard is None:
        raise AnalysisError("MicroDVDReader.read: the frame-rate declaration is not under an if")
    conj = guard.values if isinstance(guard, ast.BoolOp) and isinstance(guard.op, ast.And) else [guard]
    zero_of = set()
    for v in conj:
        t = src(v)
        m = re.fullmatch(r"(?:.*?)(?:%s) == '0'" % grp, t) or re.fullmatch(r"int\((?:.*?)(?:%s)\) == 0" % grp, t)
        if m:
            zero_of.add(int(m.group(1)) + 1 if m.group(1) is not None else int(m.group(2)))
        else:
            zero_of.add(t)
    report.check(zero_of == {1, 2}, "R-GUARD", rd, "only a line with BOTH frame fields 0 declares the frame rate",
                 {"guard": src(guard), "fields_required_zero": sorted(map(str, zero_of))}, "1")
    # exactness, per definition of fps
    inner, floored = unwrap_floor(vals[0].value)
    body_expr = None
    for n in walk_no_nested(fn.node):
        if isinstance(n, ast.Return):
            body_expr = resolve_local(fn, n.value)
    for k in kinds:
        label_k = f"{label} with fps from {k[0]} ({k[1]})"
        fps_float = (k[0] == "default" and isinstance(k[1], float)) or (k[0] == "declared" and k[1] == "float")
        fps_exact = (k[0] == "default" and isinstance(k[1], int)) or (k[0] == "declared" and k[1] in ("Fraction", "int"))
        if not (fps_float or fps_exact):
            raise AnalysisError(f"MicroDVD fps kind not recognised: {k}")
        if k[0] == "default" and isinstance(k[1], float) and float(k[1]).is_integer():
            fk = "intfloat"
        else:
            fk = "float" if fps_float else "exact"
        rounds = _roundings(body_expr, {p_frame[1:]: "int", p_fps[1:]: fk})
        ok = rounds <= 1
        report.check(ok, "R-EXACT", fn, label_k,
                     {"expression": short(body_expr), "float_roundings_before_truncation": rounds,
                      "why": None if ok else "frame/fps is rounded, the product with 10^6 is rounded again; "
                                             "e.g. frame 201 at 25 fps gives 8039999"}, "3")
    report.count("conversion_sites", 2)
    # grammar of a line
    u = uses[0]
    alpha = R.Alphabet([c for c in R.make_alphabet(u.pattern).chars if c not in "\n\r\x0b\x0c  "])
    lang = R.lang_of_pattern(u.pattern, alpha, u.mode, u.flags)
    ref = R.Lang(T.microdvd_line(alpha), alpha, "full")
    w = R.difference_witness(ref, lang)
    report.check(w is None, "R-LANG-INCL", (rd, u.node), "every {start}{end}text line is accepted",
                 {"pattern": u.pattern, **({"shortest_rejected_line": w} if w is not None else {})}, "2")
    for gi in (1, 2):
        got = lang.groups.get(gi)
        a2 = R.Alphabet([c for c in alpha.chars if c.isascii()])
        ww = R.equal_witness(R.Lang(_restrict(got, a2), a2, "full"), R.Lang(R.plus(R.cset("0123456789")), a2, "full"))
        report.check(ww is None, "R-GROUP-ROLE", (rd, u.node), f"line pattern group {gi} is a frame number",
                     {"witness": ww} if ww else None, "2")


def _roundings(expr, kinds):
    """Number of binary-float roundings in evaluating expr (E7 lattice).
    kinds of operands: 'int' (exact integer), 'exact' (Fraction), 'intfloat' (a
    float holding an integral value, e.g. the literal 25.0: products with
    integers stay exact below 2^53), 'float' (arbitrary binary float).
    An operation rounds once when it has a float operand and can produce a
    non-representable result; int/int true division rounds once."""
    def go(e):
        if isinstance(e, ast.Constant):
            if isinstance(e.value, float):
                return ("intfloat" if e.value.is_integer() else "float", 0)
            return ("int", 0)
        if isinstance(e, ast.Name):
            k = kinds.get(e.id)
            if k is None:
                raise AnalysisError(f"numkind: unknown operand {e.id}")
            return (k, 0)
        if isinstance(e, ast.BinOp):
            (ka, ra), (kb, rb) = go(e.left), go(e.right)
            r = ra + rb
            if isinstance(e.op, ast.Pow):
                return ("int" if ka == kb == "int" else "float", r + (0 if ka == kb == "int" else 1))
            if "float" in (ka, kb):
                return ("float", r + 1)
            if isinstance(e.op, ast.Div):
                if ka == "exact" or kb == "exact":
                    if "intfloat" in (ka, kb):
                        return ("float", r + 1)
                    return ("exact", r)
                return ("float", r + 1)
            if "intfloat" in (ka, kb):
                if "exact" in (ka, kb):
                    return ("float", r + 1)
                return ("intfloat", r)      # int (*,+,-) intfloat: exact below 2^53
            if "exact" in (ka, kb):
                return ("exact", r)
            return ("int", r)
        if isinstance(e, ast.Call) and call_name(e) in ("int", "math.floor", "float"):
            return go(e.args[0])
        if isinstance(e, ast.UnaryOp):
            return go(e.operand)
        raise AnalysisError(f"numkind: unsupported expression {src(e)[:60]}")
    return go(expr)[1]


def _is_int_operand(e, kinds):
    if isinstance(e, ast.Constant):
        return isinstance(e.value, int)
    if isinstance(e, ast.Name):
        return kinds.get(e.id) == "int"
    if isinstance(e, ast.BinOp) and not isinstance(e.op, ast.Div):
        return _is_int_operand(e.left, kinds) and _is_int_operand(e.right, kinds)
    return False


# --------------------------------------------------------------------------
def sami_site(ctx, report, ev, folder):
    path = "pycaption/sami.py"
    fn = ctx.index.get_function(path, "SAMIReader._translate_lang")
    report.covered(fn)
    e = ev()
    env = {}
    # straight-line slice: evaluate the simple assignments in source order
    targets = {}
    stores = []
    for n in walk_no_nested(fn.node):
        if isinstance(n, ast.Assign) and len(n.targets) == 1:
            t = n.targets[0]
            if isinstance(t, ast.Name):
                targets.setdefault(t.id, []).append(n)
            elif isinstance(t, ast.Attribute) and t.attr in ("start", "end"):
                stores.append(n)
    from ..engines.symeval import _Path
    p = _Path({"p": Param("p"), "captions": Param("captions"), "self": SObj("self"), "language": Param("language")}, [])
    order = sorted((n for ns in targets.values() for n in ns), key=lambda n: n.lineno)
    for n in order:
        try:
            (pp, v), = e._eval(n.value, p, fn)
            p.env[n.targets[0].id] = v
        except (AnalysisError, ValueError, _PropagateRaise):
            continue
    ms = p.env.get("milliseconds")
    start = p.env.get("start")
    if not isinstance(start, Poly) or not isinstance(ms, Poly):
        raise AnalysisError("SAMI _translate_lang: `milliseconds` / `start` not recognised")
    ms_atoms = ms.atoms()
    if len(ms_atoms) != 1 or "start" not in ms_atoms[0]:
        raise AnalysisError(f"SAMI: sync time read from {ms_atoms}")
    A = ms_atoms[0]
    check_affine(report, "R-AFFINE", fn, "sync start (ms) -> caption start (microseconds)", start, {A: 1000}, {A}, "1")
    # Caption(start, end, ...)
    capt = [c for c in walk_no_nested(fn.node) if isinstance(c, ast.Call) and call_name(c) == "Caption"]
    ok = len(capt) == 1 and [src(a) for a in capt[0].args[:2]] == ["start", "end"]
    report.check(ok, "R-FIELD-ROUTING", fn, "Caption(start, end, ...) with end initially 0 (open)",
                 [short(c) for c in capt], "1")
    end0 = p.env.get("end")
    report.check(isinstance(end0, Poly) and end0.is_const() and end0.const_value() == 0, "R-AFFINE", fn,
                 "a new cue's end is the 'open' marker 0 until the next sync", None, "1")
    # back-fill and last-cue default
    backfill = default = None
    # stores made by helpers called from here are evaluated with the helper's parameters bound
    # to the (symbolic) arguments of the call
    sites = [(fn, n, p) for n in stores]
    from ..core.astutil import resolve_callee
    for c in walk_no_nested(fn.node):
        if not isinstance(c, ast.Call):
            continue
        h = resolve_callee(ctx.index, fn, c)
        if h is None or h is fn or not h.name.startswith("_"):
            continue
        hs = [n for n in walk_no_nested(h.node) if isinstance(n, ast.Assign) and len(n.targets) == 1
              and isinstance(n.targets[0], ast.Attribute) and n.targets[0].attr in ("start", "end")]
        if not hs:
            continue
        ps = [a.arg for a in h.node.args.posonlyargs + h.node.args.args]
        if h.kind in ("method", "classmethod"):
            ps = ps[1:]
        henv = {"self": SObj("self")}
        try:
            for name, a in list(zip(ps, c.args)) + [(k.arg, k.value) for k in c.keywords]:
                (pp, v), = e._eval(a, p, fn)
                henv[name] = v
        except (AnalysisError, ValueError, _PropagateRaise):
            continue
        report.covered(h)
        sites += [(h, n, _Path(henv, [])) for n in hs]
    for owner, n, penv in sites:
        t = n.targets[0]
        if t.attr == "end":
            try:
                (pp, v), = e._eval(n.value, penv, owner)
            except (AnalysisError, ValueError, _PropagateRaise):
                continue
            if isinstance(v, Poly) and v.same_form(start):
                backfill = n
            elif isinstance(v, Poly):
                default = (n, v)
    report.check(backfill is not None, "R-AFFINE", fn, "an open cue ends at the next sync's start",
                 short(backfill) if backfill is not None else "no `captions[i].end = start` store", "1")
    if default is None:
        report.violation("R-AFFINE", fn, "last cue lasts four seconds", "no default-end store found", "1")
    else:
        check_affine(report, "R-AFFINE", (fn, default[0]), "last cue lasts four seconds", default[1],
                     {A: 1000, "": 4000 * 1000}, {A}, "1")
    exactness(report, fn, "sync start (ms) -> microseconds", start)
    report.count("conversion_sites")


# --------------------------------------------------------------------------
READERS = [("pycaption/srt.py", "SRTReader.read"), ("pycaption/webvtt.py", "WebVTTReader._parse"),
           ("pycaption/microdvd.py", "MicroDVDReader.read"), ("pycaption/sami.py", "SAMIReader._translate_lang"),
           ("pycaption/dfxp/base.py", "DFXPReader._convert_div_to_caption_list")]
REORDERING = {"insert", "sort", "reverse", "pop", "remove", "appendleft", "clear", "__delitem__"}


def append_order(ctx, report):
    for path, q in READERS:
        fn = ctx.index.get_function(path, q, inline=True)     # appends made through private helpers count
        report.covered(fn)
        # the result list: a name bound to CaptionList(...)
        names = set()
        for n in walk_no_nested(fn.node):
            if isinstance(n, ast.Assign) and isinstance(n.value, ast.Call) and call_name(n.value) == "CaptionList":
                for t in n.targets:
                    if isinstance(t, ast.Name):
                        names.add(t.id)
        if q.endswith("_convert_div_to_caption_list"):
            comp = [n for n in walk_no_nested(fn.node) if isinstance(n, ast.ListComp)]
            ok = len(comp) == 1 and "find_all" in src(comp[0].generators[0].iter)
            report.recognise(ok, "R-APPEND-ORDER", fn, "captions built by one comprehension over find_all('p')",
                         src(comp[0])[:160] if comp else None, "4")
            continue
        if not names:
            raise AnalysisError(f"{q}: result CaptionList not found")
        bad = []
        appends = 0
        for n in walk_no_nested(fn.node):
            if isinstance(n, ast.Call) and isinstance(n.func, ast.Attribute) and isinstance(n.func.value, ast.Name) \
                    and n.func.value.id in names:
                if n.func.attr in REORDERING:
                    bad.append(short(n))
                elif n.func.attr == "append":
                    appends += 1
            if isinstance(n, (ast.Assign, ast.Delete)):
                for t in (n.targets if hasattr(n, "targets") else []):
                    if isinstance(t, ast.Subscript) and isinstance(t.value, ast.Name) and t.value.id in names:
                        bad.append(short(n))
            if isinstance(n, ast.Call) and call_name(n) in ("sorted", "reversed") and n.args \
                    and isinstance(n.args[0], ast.Name) and n.args[0].id in names:
                if not any(isinstance(a, ast.For) for a in []):
                    pass
        # reversed(range(len(captions))) in SAMI iterates indices, it does not reorder: allowed
        report.check(not bad and appends >= 1, "R-APPEND-ORDER", fn,
                     "result list is only appended to, in document order",
                     {"appends": appends, "reordering_operations": bad}, "4")


def caption_guards(ctx, report):
    """Caption.__init__ folded on the finite domain {number, non-number}^2 for (start, end): it must refuse
    with the timing error unless both are numbers, and otherwise store exactly what it was given."""
    from ..core.constfold import Folder, Stub, FoldRaise
    fn = ctx.index.get_function("pycaption/base.py", "Caption.__init__")
    report.covered(fn)
    folder = ctx.memo("folder", lambda: Folder(ctx.index))
    good = (0, 1500000, 2.5)
    badv = (None, "00:00:01.000", [1])
    for name in ("start", "end"):
        problems = []
        n = 0
        for mine in good + badv:
            for other in good[:2] + badv[:2]:
                start, end = (mine, other) if name == "start" else (other, mine)
                obj = Stub("caption", {}, cls=fn.cls)
                n += 1
                try:
                    folder.call_function(fn, [start, end, ["node"]], {}, self_value=obj)
                    raised = None
                except FoldRaise as e:
                    raised = e.exc_name
                except AnalysisError as e:
                    raise AnalysisError(f"Caption.__init__ cannot be folded: {e}")
                if mine in badv:
                    if raised is None:
                        problems.append(f"{name}={mine!r} is accepted")
                    elif other in good and "Timing" not in (raised or ""):
                        problems.append(f"{name}={mine!r} is refused with {raised}, not the timing error")
                elif other in good:
                    if raised is not None:
                        problems.append(f"numeric times ({start!r}, {end!r}) are refused with {raised}")
                    elif obj.attrs.get(name) != mine or type(obj.attrs.get(name)) is not type(mine):
                        problems.append(f"{name}={mine!r} is stored as {obj.attrs.get(name)!r}")
        report.check(not problems, "R-DOMINATES", fn, f"isinstance({name}, Number) guard dominates the store of self.{name}",
                     {"folded_calls": n, "problems": problems[:4]}, "5")
