"""C15 - SCC lines longer than 32 characters are never returned silently.

Decided clauses: 1 no offender is forgotten (every iteration ADDS its offenders to the accumulator, nothing
replaces earlier ones); 2 every returned line is examined (same collection, whole joined text, split at line
breaks, len > 32); 3 a non-empty offender list always reaches the raise, before the return.
"""
import ast
import re

from ..core.tree import AnalysisError
from ..core.astutil import walk_no_nested, call_name, short, src, resolve_local
from ..engines import pathrules as PR
from ..spec import cea608

SCC = "pycaption/scc/__init__.py"
SPC = "pycaption/scc/specialized_collections.py"


def run(ctx, report):
    report.structural_section("scan structure", "R-MUSTRAISE / R-E2E: read() folded on prepared captions and the whole reader on "
                              "generated streams", structural, ctx, report)
    from . import scc_read_fold, scc_e2e_fold
    # read() folded around a stubbed decoder: every list of up to N prepared captions over the boundary row lengths
    # (the stubbed decoder presumes where read() finds the stored captions: when that does not fold, the end-to-end part decides)
    report.structural_section("read() on prepared captions", "R-E2E: the whole reader on generated streams in the three caption modes",
                              scc_read_fold.run, ctx, report, {
        "length": ("R-MUSTRAISE", "3", "a row longer than 32 characters anywhere in the stash raises CaptionLineLengthError; "
                                       "otherwise the captions are returned"),
        "message": ("R-MUSTRAISE", "1", "the error message names every offending row with its length"),
    })
    # the whole reader, end to end, on generated streams in the three caption modes
    report.section("end to end", scc_e2e_fold.run_part, ctx, report, "lengths", {
        "length": ("R-E2E", "2", "rows of 0..40 characters in pop-on, roll-up and paint-on streams: the error is raised "
                                 "exactly when a row is longer than 32, and no returned line is longer"),
        "message": ("R-E2E", "1", "the error names every offending row"),
    })


def structural(ctx, report):
    fn = ctx.index.get_function(SCC, "SCCReader.read")
    report.covered(fn)
    # the scan loop: the `for` whose body compares a length with 32
    loops = [n for n in walk_no_nested(fn.node) if isinstance(n, ast.For) and
             any(isinstance(c, ast.Compare) and re.search(r"len\([^()]+\) >=? [\w.]+", src(c)) for c in walk_no_nested(n))
             and "msg" not in [src(t) for s in n.body if isinstance(s, ast.AugAssign) for t in [s.target]]]
    loops = [l for l in loops if not any(isinstance(x, ast.For) and x is not l and l in list(walk_no_nested(x)) for x in loops)]
    if len(loops) != 1:
        raise AnalysisError(f"SCCReader.read: length-scan loop not found ({len(loops)} candidates)")
    lp = loops[0]
    cap = lp.target.id if isinstance(lp.target, ast.Name) else None
    # names
    acc = None
    for n in walk_no_nested(fn.node):
        if isinstance(n, ast.Assign) and isinstance(n.value, ast.Call) and call_name(n.value) in ("defaultdict", "dict",
                                                                                                   "collections.defaultdict") \
                and n.lineno < lp.lineno and isinstance(n.targets[0], ast.Name):
            acc = n.targets[0].id
        if isinstance(n, ast.Assign) and isinstance(n.value, (ast.Dict, ast.List)) and n.lineno < lp.lineno \
                and isinstance(n.targets[0], ast.Name) and not n.value.__dict__.get("keys") and not getattr(n.value, "elts", None):
            acc = acc or n.targets[0].id
    if acc is None:
        raise AnalysisError("SCCReader.read: offender accumulator not found")
    offenders = None
    comp = None
    for st in lp.body:
        if isinstance(st, ast.Assign) and isinstance(st.value, ast.ListComp) and "len(" in src(st.value):
            offenders = st.targets[0].id
            comp = st.value
    if offenders is None:
        raise AnalysisError("SCCReader.read: per-caption offender list not found")

    # clause 1 ---------------------------------------------------------------
    def classify(n):
        if isinstance(n, ast.Call) and isinstance(n.func, ast.Attribute) and n.func.attr in ("extend", "append") \
                and src(n.func.value).startswith(acc) and n.args and offenders in src(n.args[0]):
            return "ADD"
        if isinstance(n, ast.AugAssign) and src(n.target).startswith(acc) and isinstance(n.op, ast.Add) \
                and offenders in src(n.value):
            return "ADD"
        if isinstance(n, ast.Assign) and any(isinstance(t, ast.Subscript) and src(t.value) == acc for t in n.targets):
            rhs = src(n.value)
            if re.search(rf"{re.escape(acc)}(\[|\.get\()", rhs) and offenders in rhs:
                return "ADD"      # acc[k] = acc[k] + offenders
            return "KILL"
        if isinstance(n, ast.Call) and isinstance(n.func, ast.Attribute) and src(n.func.value) == acc \
                and n.func.attr in ("pop", "clear", "popitem", "update", "__setitem__"):
            return "KILL"
        if isinstance(n, ast.Delete):
            return "KILL"
        return None
    paths = PR.paths_of_block(lp.body, classify)
    bad = []
    for ev, end in paths:
        fl = PR.flat(ev)
        if end in ("raise",):
            continue
        if "KILL" in fl:
            bad.append({"path_events": fl, "why": "an assignment replaces what earlier captions with the same key stored"})
        elif fl.count("ADD") < 1:
            bad.append({"path_events": fl, "why": "this caption's offenders are not added on this path"})
    report.check(not bad, "R-MONOTONE", (fn, lp), "no offender is forgotten: every pass adds its offenders, none are replaced",
                 {"accumulator": acc, "paths": len(paths), "offending_paths": bad[:4]}, "1")
    report.count("paths_checked", len(paths))

    # clause 2 (a): the scan sees the captions still sitting in the implicit buffers: it runs after the
    # final flush (source order within read(); both are unconditional statements of its body)
    flush = [n for n in walk_no_nested(fn.node) if isinstance(n, ast.Call) and (call_name(n) or "").endswith("_flush_implicit_buffers")]
    if not flush:
        raise AnalysisError("SCCReader.read: final flush of the implicit buffers not found")
    report.check(all(f.lineno < lp.lineno for f in flush), "R-ORDER", (fn, lp),
                 "the length scan runs after the final flush (a last caption that is never explicitly ended is "
                 "measured too)", {"flush_line": [f.lineno for f in flush], "scan_line": lp.lineno}, "2")

    # clause 2 ---------------------------------------------------------------
    stash_get_all = ctx.index.get_function(SPC, "CaptionCreator.get_all")
    report.covered(stash_get_all)
    it = src(lp.iter)
    ga_loops = [n for n in walk_no_nested(stash_get_all.node) if isinstance(n, ast.For)]
    same = it.endswith("._collection") and len(ga_loops) == 1 and src(ga_loops[0].iter) == "self._collection"
    same2 = "get_captions(" in it or it.endswith("get_all()")
    if it.endswith("._collection") and len(ga_loops) != 1:
        raise AnalysisError("CaptionCreator.get_all: the loop over the stored captions is not spelled as one for statement")
    report.check(same or same2, "R-SAME-COLLECTION", (fn, lp), "the scan walks the collection the returned captions come from",
                 {"scan_iterates": it, "get_all_iterates": [src(l.iter) for l in ga_loops]}, "2")
    # comp: [line for line in TEXT.split("\n") if len(line) > 32]
    g = comp.generators[0]
    var = src(g.target)
    ok_split = isinstance(g.iter, ast.Call) and isinstance(g.iter.func, ast.Attribute) and g.iter.func.attr == "split" \
        and len(g.iter.args) == 1 and isinstance(g.iter.args[0], ast.Constant) and g.iter.args[0].value == "\n"
    cond = [src(c) for c in g.ifs]
    m = re.fullmatch(rf"len\({re.escape(var)}\) (>|>=) (.+)", cond[0]) if len(cond) == 1 else None
    limit = None
    if m:
        # the bound: a literal, or a name with exactly one constant definition (module / class constant or local);
        # a bound that depends on options or on the stream is not the constant the property names
        folder = ctx.memo("folder", lambda: __import__("sa.core.constfold", fromlist=["Folder"]).Folder(ctx.index))
        bexpr = g.ifs[0].comparators[0]
        defs = [n for n in walk_no_nested(fn.node) if isinstance(n, (ast.Assign, ast.AugAssign)) and
                src(n.targets[0] if isinstance(n, ast.Assign) else n.target) == src(bexpr)]
        try:
            if len(defs) > 1:
                raise AnalysisError("several definitions")
            val = folder.eval_in(fn.module, resolve_local(fn, bexpr))
            limit = (val if isinstance(val, int) else None)
            if limit is not None and m.group(1) == ">=":
                limit -= 1
        except AnalysisError:
            limit = f"not a constant: {m.group(2)}" + (f" (assigned {len(defs)} times)" if len(defs) > 1 else "")
    report.check(ok_split and limit == cea608.SCREEN_COLUMNS and src(comp.elt) == var, "R-THRESHOLD", (fn, comp),
                 "a line is an offender exactly when it is longer than 32 characters (text split at line breaks)",
                 {"comprehension": short(comp), "limit": limit}, "2")
    text_src = src(g.iter.func.value) if ok_split else None
    pass
    resolved = src(resolve_local(_LoopFn(fn, lp), g.iter.func.value)) if ok_split else ""
    ok_text = re.fullmatch(rf"''\.join\({re.escape(cap)}(\.to_real_caption\(\))?\.get_text_nodes\(\)\)", resolved) is not None
    report.check(ok_text, "R-WHOLE-TEXT", (fn, lp),
                 "the measured text is the whole caption: all text and break nodes joined, nothing stripped",
                 {"measured": resolved, "required": f"''.join({cap}.to_real_caption().get_text_nodes())"}, "2")
    gt = ctx.index.get_function("pycaption/base.py", "Caption.get_text_nodes")
    report.covered(gt)
    # folded on a stub caption with one node of each kind (constant evaluation of the source)
    from ..core.constfold import Folder, Stub
    folder = ctx.memo("folder", lambda: Folder(ctx.index))
    node_cls = ctx.index.get_class("pycaption/base.py", "CaptionNode")
    cap_cls = ctx.index.get_class("pycaption/base.py", "Caption")
    kinds = {k: folder.eval_in(node_cls.module, node_cls.class_attrs[k]) for k in ("TEXT", "STYLE", "BREAK")}
    nodes = [Stub("text-node", {"type_": kinds["TEXT"], "content": "ab"}, cls=node_cls),
             Stub("break-node", {"type_": kinds["BREAK"], "content": None}, cls=node_cls),
             Stub("style-node", {"type_": kinds["STYLE"], "content": {"italics": True}, "start": True}, cls=node_cls),
             Stub("text-node", {"type_": kinds["TEXT"], "content": " c "}, cls=node_cls)]
    try:
        got = folder.call_function(gt, [], self_value=Stub("caption", {"nodes": nodes}, cls=cap_cls))
    except AnalysisError as e:
        raise AnalysisError(f"Caption.get_text_nodes cannot be folded: {e}")
    ok = list(got) == ["ab", "\n", "", " c "] or [x for x in got if x] == ["ab", "\n", " c "]
    report.check(ok, "R-WHOLE-TEXT", gt, "get_text_nodes yields the content of text nodes and a newline per break",
                 {"folded_on": "text 'ab', break, style, text ' c '", "result": list(got)}, "2")

    # clause 3 ---------------------------------------------------------------
    raises = [n for n in walk_no_nested(fn.node) if isinstance(n, ast.Raise) and isinstance(n.exc, ast.Call)
              and call_name(n.exc) == "CaptionLineLengthError"]
    if len(raises) != 1:
        raise AnalysisError("SCCReader.read: raise CaptionLineLengthError not unique")
    r = raises[0]
    guard = None
    for n in walk_no_nested(fn.node):
        if isinstance(n, ast.If) and r in n.body:
            guard = n
    msgvar = None
    if guard is not None:
        m = re.fullmatch(r"len\((\w+)\)( > 0)?|(\w+)", src(guard.test))
        msgvar = (m.group(1) or m.group(3)) if m else None
    ret = [n for n in walk_no_nested(fn.node) if isinstance(n, ast.Return) and n.value is not None]
    ok = guard is not None and msgvar is not None and all(guard.lineno < x.lineno for x in ret) and lp.lineno < guard.lineno
    report.check(ok, "R-MUSTRAISE", (fn, r), "a non-empty offender message raises before anything is returned",
                 {"guard": src(guard.test) if guard is not None else None}, "3")
    # the message is built from every key of the accumulator with a non-empty list
    # (the message may be assembled by a helper that receives the accumulator)
    scope, acc2, msg2 = fn, acc, msgvar
    if msgvar is not None:
        from ..core.astutil import resolve_callee
        defs = [n for n in walk_no_nested(fn.node) if isinstance(n, ast.Assign) and len(n.targets) == 1
                and src(n.targets[0]) == msgvar]
        if len(defs) == 1 and isinstance(defs[0].value, ast.Call):
            h = resolve_callee(ctx.index, fn, defs[0].value)
            argsrc = [src(a) for a in defs[0].value.args]
            if h is not None and acc in argsrc:
                ps = [a.arg for a in h.node.args.posonlyargs + h.node.args.args]
                if h.kind in ("method", "classmethod"):
                    ps = ps[1:]
                rets = [n.value for n in walk_no_nested(h.node) if isinstance(n, ast.Return) and n.value is not None]
                if len(rets) != 1 or not isinstance(rets[0], ast.Name):
                    raise AnalysisError(f"{h.qualname}: message helper does not return a single name")
                scope, acc2, msg2 = h, ps[argsrc.index(acc)], rets[0].id
                report.covered(h)
    acc_, msgvar_ = acc, msgvar
    acc, msgvar = acc2, msg2
    mloops = [n for n in walk_no_nested(scope.node) if isinstance(n, ast.For) and src(n.iter) in (acc, f"{acc}.keys()",
                                                                                                  f"{acc}.items()", f"sorted({acc})")]
    if not mloops:
        raise AnalysisError("SCCReader.read: the loop assembling the offender message was not found")
    ok = len(mloops) == 1 and msgvar is not None and any(isinstance(x, ast.AugAssign) and src(x.target) == msgvar
                                                         for x in walk_no_nested(mloops[0]))
    inner_tests = [src(n.test) for n in walk_no_nested(mloops[0]) if isinstance(n, ast.If)] if mloops else []
    ok_t = all(re.fullmatch(rf"{re.escape(acc)}\[\w+\]|\w+", t) for t in inner_tests)
    report.recognise(ok and ok_t, "R-MUSTRAISE", fn, "every start time with offenders contributes to the message",
                 {"loops": [short(l) for l in mloops], "tests": inner_tests}, "3")
    report.not_decided.append("the line lengths themselves are produced by the decoder (C05/C16)")


class _LoopFn:
    """adapter: resolve_local over the statements of one loop body"""

    def __init__(self, fn, loop):
        self.params = []
        self.node = ast.FunctionDef(name="_", args=fn.node.args, body=loop.body, decorator_list=[], lineno=loop.lineno)
