"""C02 - writing preserves every cue's start and end instant.

Decided clauses (DESIGN.md 4/C02):
 1 R-RADIX    carries and field widths of every formatter (exhaustive fold of the
              extracted symbolic fields over td.seconds in [0, 86400))
   R-AFFINE   MicroDVD us*fps/10^6 truncated, SAMI us // 1000
 2 R-INT-FIELD integer time fields stay integers for fractional input times
 3 R-LANG-INCL written stamp language <= format grammar
 4 R-EMIT     one timed cue per caption, from that caption's own start/end, in order
 5 R-BLANK-SYNC structural part of the SAMI blank-sync rule; merge keys
NOT decided: value-dependent SAMI blank sync placement, WebVTT splitting by layout.
"""
import ast
import re
from fractions import Fraction

from ..core.tree import AnalysisError
from ..core.constfold import Folder
from ..core.astutil import walk_no_nested, call_name, short, src, kwarg, template_holes, closure, closure_nodes
from ..engines import regexlang as R
from ..engines.symeval import (SymEvaluator, Poly, SObj, Raised, Param, SStr, Fmt, SAttr, eval_poly, eval_cond,
                               SNone)
from ..engines.affine import check_affine, unwrap_floor
from ..spec import time_grammar as T
from .c01 import _roundings


def run(ctx, report):
    folder = ctx.memo("folder", lambda: Folder(ctx.index))
    ev = lambda: SymEvaluator(ctx.index, folder)
    report.section("shared formatter", shared_formatter, ctx, report, ev)
    report.section("WebVTT formatter", webvtt_formatter, ctx, report, ev)
    report.section("MicroDVD", microdvd_writer, ctx, report, ev)
    report.structural_section("SAMI writer (symbolic form)", "R-DOC-CUES / R-DOC-TIMES on the folded SAMI documents (markup_writer_fold)",
                              sami_writer, ctx, report, ev)
    report.structural_section("emission templates", "R-DOC-CUES / R-DOC-TIMES / R-DOC-GRAMMAR on the folded documents of all writers",
                              emission_rules, ctx, report)
    report.section("merge keys", merge_keys, ctx, report)
    from . import writer_doc_fold
    report.section("written documents", writer_doc_fold.run, ctx, report, ("cues", "times", "grammar"),
                   {"cues": "1", "times": "1", "grammar": "1"},
                   {"cues": "R-DOC-CUES", "times": "R-DOC-TIMES", "grammar": "R-DOC-GRAMMAR"})
    from . import markup_writer_fold
    report.section("written markup documents", markup_writer_fold.run, ctx, report, {
        "times": ("R-DOC-TIMES", "1"), "sami_syncs": ("R-DOC-CUES", "4")})
    report.not_decided += [
        "SAMI: whether a blank sync is needed beyond the structural test (truthiness of last_time makes an end "
        "at 0 ms special - value dependent)", "how WebVTT splits a caption by layout",
        "fractional input times within half a microsecond of a millisecond boundary (timedelta rounds to nearest)"]
    report.assume("datetime.timedelta(microseconds=x): .seconds in [0,86400), .microseconds in [0,10^6), "
                  "x = ((days*86400)+seconds)*10^6 + microseconds for integer x >= 0")
    report.assume("format(n, '02d') / '03d' zero-pads a non-negative int to at least that width")


# --------------------------------------------------------------------------
def flatten(v):
    """token list of a symbolic string: ('lit', text) | ('num', Poly, spec) |
    ('nested', tokens, spec) | ('param', name) | ('str', path)"""
    if isinstance(v, Fmt):
        if isinstance(v.value, SStr) and (v.value.parts is not None or v.value.known is not None):
            inner = flatten(v.value)
            return [("nested", inner, v.spec)] if v.spec else inner
        if isinstance(v.value, Poly):
            return [("num", v.value, v.spec or "")]
        if isinstance(v.value, Param):
            return [("param", v.value.name)]
        if isinstance(v.value, SStr):
            return [("str", v.value.path)]
        raise AnalysisError(f"formatter token not recognised: {type(v.value).__name__}")
    if isinstance(v, SStr):
        if v.known is not None:
            return [("lit", v.known)]
        if v.parts is not None:
            out = []
            for p in v.parts:
                out.extend(flatten(p))
            return out
        return [("str", v.path)]
    if isinstance(v, Param):
        return [("param", v.name)]
    raise AnalysisError(f"formatter token not recognised: {type(v).__name__}")


def render(tokens, env, params):
    out = []
    for t in tokens:
        if t[0] == "lit":
            out.append(t[1])
        elif t[0] == "num":
            val = eval_poly(t[1], env)
            if val.denominator != 1:
                raise AnalysisError("formatter prints a non-integer value")
            out.append(format(int(val), t[2]))
        elif t[0] == "nested":
            out.append(format(render(t[1], env, params), t[2]))
        elif t[0] == "param":
            out.append(params[t[1]])
        else:
            raise AnalysisError(f"formatter token {t[0]} cannot be rendered")
    return "".join(out)


def describe(tokens):
    d = []
    for t in tokens:
        if t[0] == "lit":
            d.append(repr(t[1]))
        elif t[0] == "num":
            d.append("{" + t[1].show()[:70] + ":" + t[2] + "}")
        elif t[0] == "nested":
            d.append("{" + describe(t[1]) + ":" + t[2] + "}")
        else:
            d.append("{" + str(t[1]) + "}")
    return " ".join(d)


SECONDS_DOMAIN = range(86400)
US_SAMPLES = (0, 1, 999, 1000, 1001, 499999, 500000, 999000, 999999)
S_FOR_US = (0, 59, 60, 3599, 3600, 3601, 86399)


def seconds_domain(tier):
    if tier == "thorough":
        return list(range(86400)), "td.seconds 0..86399 exhaustively"
    pts = set(range(0, 86400, 61))
    for k in range(0, 1441):
        for d in (-1, 0, 1):
            v = k * 60 + d
            if 0 <= v < 86400:
                pts.add(v)
    return sorted(pts), ("td.seconds: every minute boundary +-1 s and every 61st second (quick tier; the thorough "
                         "tier folds all 86 400 values)")


def fold_formatter(report, fn, outcomes, evaluator, reference, label, params_by_path, clause="1", tier="quick"):
    """R-RADIX: every (seconds, microseconds) of the abstract timedelta must
    satisfy exactly one path of the formatter, and that path must print the
    reference text."""
    paths = []
    for o in outcomes:
        if isinstance(o.value, (Raised, SNone)):
            continue
        paths.append((o, flatten(o.value)))
    if not paths:
        raise AnalysisError(f"{label}: no value path")
    bad = []
    n = 0

    def one(S, u):
        nonlocal n
        env = {"td.seconds": S, "td.microseconds": u, "td.days": 0}
        for params in params_by_path:
            hits = []
            for o, toks in paths:
                ok = True
                for ctext, truth in o.conds:
                    m = re.fullmatch(r"truthy\(\$(\w+)\)", ctext)
                    if m and m.group(1) in params:
                        val = bool(params[m.group(1)])
                    else:
                        obj = evaluator.cond_objs.get(ctext)
                        if obj is None:
                            raise AnalysisError(f"{label}: condition {ctext[:60]} not evaluable")
                        val = eval_cond(obj, env)
                    if val != truth:
                        ok = False
                        break
                if ok:
                    hits.append(toks)
            n += 1
            want = reference(S, u, params)
            if len(hits) != 1:
                bad.append({"seconds": S, "microseconds": u, "paths_taken": len(hits)})
                continue
            rp = {k: (v if v else ".") for k, v in params.items()}
            got = render(hits[0], env, {k: (params[k] or "") for k in params})
            if got != want:
                bad.append({"seconds": S, "microseconds": u, "printed": got, "required": want})
    dom, dom_text = seconds_domain(tier)
    for S in dom:
        one(S, 0)
        if len(bad) > 5:
            break
    for S in S_FOR_US:
        for u in US_SAMPLES:
            one(S, u)
    report.check(not bad, "R-RADIX", fn, label,
                 {"templates": [describe(t) for _, t in paths],
                  "domain": dom_text + " (microseconds 0) + 7 second values x 9 microsecond values around the "
                            "millisecond and second boundaries", "exhaustive": tier == "thorough",
                  "evaluations": n, "first_mismatches": bad[:4]}, clause)
    report.count("formatter_evaluations", n)


def shared_formatter(ctx, report, ev):
    fn = ctx.index.get_function("pycaption/base.py", "Caption._format_timestamp")
    report.covered(fn)
    e = ev()
    outs = e.run(fn, {"microseconds": Poly.atom("US")})

    def ref(S, u, params):
        sep = params.get("msec_separator") or "."
        return f"{S // 3600:02d}:{S // 60 % 60:02d}:{S % 60:02d}{sep}{u // 1000:03d}"
    fold_formatter(report, fn, outs, e, ref, "hh:mm:ss<sep>mmm with carries into seconds, minutes, hours",
                   [{"msec_separator": ","}, {"msec_separator": None}, {"msec_separator": "."}], tier=ctx.tier)
    # format_start / format_end hand the caption's own start / end to the formatter
    for name, attr in (("format_start", "start"), ("format_end", "end")):
        f2 = ctx.index.get_function("pycaption/base.py", f"Caption.{name}")
        report.covered(f2)
        calls = [c for c in walk_no_nested(f2.node) if isinstance(c, ast.Call) and call_name(c) == "self._format_timestamp"]
        ok = len(calls) == 1 and calls[0].args and src(calls[0].args[0]) == f"self.{attr}" and \
            len(calls[0].args) >= 2 and src(calls[0].args[1]) == "msec_separator"
        report.check(ok, "R-FIELD-ROUTING", f2, f"{name} formats self.{attr} with the given separator",
                     [short(c) for c in calls], "1")
    # language of what the shared formatter prints (hours < 24 -> exactly two digits)
    for sep, gram, what in ((",", T.srt_timestamp(), "SRT"), (".", T.dfxp_written_clock_time(), "TTML clock time")):
        alpha = R.Alphabet([chr(i) for i in range(0x20, 0x7F)])
        D = R.cset("0123456789")
        printed = R.cat(R.rep(D, 2, 2), R.lit(":"), R.rep(D, 2, 2), R.lit(":"), R.rep(D, 2, 2), R.lit(sep), R.rep(D, 3, 3))
        w = R.difference_witness(R.Lang(printed, alpha, "full"), R.Lang(gram, alpha, "full"))
        report.check(w is None, "R-LANG-INCL", fn, f"printed stamp (separator {sep!r}) is a {what} timestamp",
                     {"shortest_ill_formed_print": w} if w is not None else None, "3")


def webvtt_formatter(ctx, report, ev):
    fn = ctx.index.get_function("pycaption/webvtt.py", "WebVTTWriter._timestamp")
    report.covered(fn)
    e = ev()
    outs = e.run(fn, {"ts": Poly.atom("US")})

    def ref(S, u, params):
        hh, mm, ss = S // 3600, S // 60 % 60, S % 60
        s = f"{mm:02d}:{ss:02d}.{u // 1000:03d}"
        return f"{hh:02d}:{s}" if hh else s
    fold_formatter(report, fn, outs, e, ref, "[hh:]mm:ss.ttt, hours printed exactly when non-zero", [{}],
                   tier=ctx.tier)
    alpha = R.Alphabet([chr(i) for i in range(0x20, 0x7F)])
    D = R.cset("0123456789")
    printed = R.cat(R.opt(R.cat(R.rep(D, 2, 2), R.lit(":"))), R.rep(D, 2, 2), R.lit(":"), R.rep(D, 2, 2), R.lit("."),
                    R.rep(D, 3, 3))
    w = R.difference_witness(R.Lang(printed, alpha, "full"), R.Lang(T.webvtt_timestamp(), alpha, "full"))
    report.check(w is None, "R-LANG-INCL", fn, "printed stamp is a WebVTT timestamp",
                 {"shortest_ill_formed_print": w} if w is not None else None, "3")


def microdvd_writer(ctx, report, ev):
    path = "pycaption/microdvd.py"
    fn = ctx.index.get_function(path, "MicroDVDWriter._microtoframes")
    report.covered(fn)
    outs = [o for o in ev().run(fn) if isinstance(o.value, Poly)]
    if len(outs) != 1:
        raise AnalysisError("_microtoframes: expected one path")
    # (the two parameters by position: microseconds, frames per second)
    p_us, p_fps = ("$" + fn.params[-2], "$" + fn.params[-1]) if len(fn.params) >= 2 else ("$micro", "$fps")
    check_affine(report, "R-AFFINE", fn, "microseconds -> frame number (us * fps / 10^6, truncated)", outs[0].value,
                 {"*".join(sorted([p_fps, p_us])): Fraction(1, 10**6)}, {p_fps, p_us}, "1", want_floor=True)
    a = fn.node.args
    d = a.defaults[-1] if a.defaults else None
    def _default_value(f_, node_):
        # a literal, or a name / expression that folds to a number (a module-level constant)
        if isinstance(node_, ast.Constant):
            return node_.value
        if node_ is None:
            return None
        try:
            from ..core.constfold import Folder as _F
            v_ = ctx.memo("folder", lambda: _F(ctx.index)).eval_in(f_.module, node_)
        except AnalysisError:
            return None
        return v_ if isinstance(v_, (int, float)) and not isinstance(v_, bool) else None
    dv = _default_value(fn, d)
    report.check(dv is not None and Fraction(str(dv)) == T.MICRODVD_DEFAULT_FPS, "R-AFFINE", fn,
                 "frame rate is the format's default 25 fps", {"default": dv}, "1")
    rd = ctx.index.get_function(path, "MicroDVDReader._framestomicro")
    ad = rd.node.args.defaults[-1] if rd.node.args.defaults else None
    adv = _default_value(rd, ad)
    report.check(adv is not None and dv is not None and Fraction(str(adv)) == Fraction(str(dv)),
                 "R-TABLE-SIBLING", fn, "reader and writer use the same default frame rate",
                 {"writer": dv, "reader": adv}, "1")
    ret = resolve_local(fn, [n.value for n in walk_no_nested(fn.node) if isinstance(n, ast.Return)][0])
    kinds = {p_us[1:]: "int", p_fps[1:]: "intfloat" if isinstance(dv, float) and float(dv).is_integer() else "int"}
    rounds = _roundings(ret, kinds)
    report.check(rounds <= 1, "R-EXACT", fn, "frame number is not truncated from a twice-rounded float",
                 {"expression": short(ret), "float_roundings_before_truncation": rounds}, "1")
    # R-INT-FIELD: the printed fields are the int() results
    rl = ctx.index.get_function(path, "MicroDVDWriter._recreate_lang")
    report.covered(rl)
    t1, t2 = emission_template(report, rl, r"^\{\}\{\}$", "{start}{end} prefix from this caption's start then end")
    report.check("_microtoframes(" in t1 and "_microtoframes(" in t2, "R-EMIT", rl,
                 "both frame fields go through the microseconds->frames conversion", [t1[:80], t2[:80]], "4")
    top = unwrap_floor(outs[0].value)[1]
    # `//` keeps the operand's type: caption times may be floats (SCC reader, adjust_caption_timing), so only an
    # explicit integer conversion makes the printed field an integer
    conv = isinstance(ret, ast.Call) and call_name(ret) in ("int", "math.floor", "math.trunc", "floor", "trunc")
    report.check(top and conv, "R-INT-FIELD", fn, "frame fields are integers (int() outermost)",
                 {"returned": short(ret), "why": None if conv else "float caption times give '{37.0}{62.0}': floor division "
                                                                   "of a float is a float"}, "2")


from ..core.astutil import resolve_local  # noqa: E402  (shared def-use normaliser)


def which_instant(fn, expr):
    """'start' | 'end' | None: which caption instant an emitted expression is
    computed from (after def-use resolution)."""
    text = src(resolve_local(fn, expr))
    has_s = bool(re.search(r"\.start\b|format_start\(", text))
    has_e = bool(re.search(r"\.end\b|format_end\(", text))
    if has_s and not has_e:
        return "start", text
    if has_e and not has_s:
        return "end", text
    return None, text


def emission_template(report, fn, separator_regex, label):
    """The timing template of a writer: an f-string with two holes around the
    format's separator; the first hole must be computed from this caption's
    start, the second from its end."""
    cands = []
    for n in walk_no_nested(fn.node):
        th = template_holes(n)
        if th is not None and len(th[1]) >= 2 and re.search(separator_regex, th[0]):
            cands.append((n, th[1]))
    if len(cands) != 1:
        raise AnalysisError(f"{fn.qualname}: timing template not recognised ({len(cands)} candidates)")
    n, holes = cands[0]
    (k1, t1), (k2, t2) = which_instant(fn, holes[0]), which_instant(fn, holes[1])
    if k1 is None or k2 is None:
        raise AnalysisError(f"{fn.qualname}: cannot tell which instant a timing hole prints: {t1[:60]} / {t2[:60]}")
    report.check((k1, k2) == ("start", "end"), "R-EMIT", (fn, n), label,
                 {"first_hole": t1[:120], "second_hole": t2[:120], "computed_from": [k1, k2],
                  "required": ["start", "end"]}, "4")
    return t1, t2


def sami_writer(ctx, report, ev):
    path = "pycaption/sami.py"
    fn = ctx.index.get_function(path, "SAMIWriter._recreate_p_tag")
    report.covered(fn)
    assigns = {}
    for n in walk_no_nested(fn.node):
        if isinstance(n, ast.Assign) and len(n.targets) == 1:
            t = n.targets[0]
            key = t.id if isinstance(t, ast.Name) else src(t)
            assigns.setdefault(key, []).append(n.value)
    from ..engines.symeval import _Path
    e = ev()
    for key, attr, what in (("time", "start", "sync start = caption.start in milliseconds"),
                            ("self.last_time", "end", "remembered end = caption.end in milliseconds")):
        vals = assigns.get(key, [])
        if len(vals) != 1:
            raise AnalysisError(f"SAMI _recreate_p_tag: assignment to {key} not unique")
        expr = vals[0]
        p = _Path({"caption": Param("caption"), "self": SObj("self")}, [])
        res = e._eval(expr, p, fn)
        if len(res) != 1 or not isinstance(res[0][1], Poly):
            raise AnalysisError(f"SAMI: {key} is not a numeric form")
        val = res[0][1]
        check_affine(report, "R-AFFINE", (fn, expr), what, val, {f"$caption.{attr}": Fraction(1, 1000)},
                     {"$caption.start", "$caption.end"}, "1", want_floor=True)
        wrapped = isinstance(expr, ast.Call) and call_name(expr) == "int"
        report.check(wrapped, "R-INT-FIELD", (fn, expr), f"{key} is an integer for fractional caption times",
                     {"found": short(expr),
                      "why": "Caption accepts any Number and the SCC reader returns float times: float // 1000 is a "
                             "float, written as start=\"1234.0\" and compared with int(...) syncs"}, "2")
    # sync created from `time`
    syn = ctx.index.get_function(path, "SAMIWriter._recreate_sync")
    report.covered(syn)
    tags = [c for c in walk_no_nested(syn.node) if isinstance(c, ast.Call) and call_name(c) and
            call_name(c).endswith("new_tag") and c.args and isinstance(c.args[0], ast.Constant) and c.args[0].value == "sync"]
    ok = bool(tags) and all(kwarg(c, "start") is not None and src(kwarg(c, "start")) == "time" for c in tags)
    calls = [c for c in walk_no_nested(fn.node) if isinstance(c, ast.Call) and call_name(c) == "self._recreate_sync"]
    ok2 = len(calls) == 1 and src(calls[0].args[-1]) == "time"
    report.check(ok and ok2, "R-EMIT", fn, "one <sync start=time> per caption", [short(c) for c in tags + calls], "4")
    # blank sync: structural part
    test = None
    for n in walk_no_nested(fn.node):
        if isinstance(n, ast.If) and any(isinstance(c, ast.Call) and call_name(c) == "self._recreate_blank_tag"
                                         for c in walk_no_nested(n)):
            test = n.test
    ok = False
    if isinstance(test, ast.BoolOp) and isinstance(test.op, ast.And):
        parts = [src(v) for v in test.values]
        ok = sorted(parts) == sorted(["self.last_time", "time != self.last_time"]) or \
            sorted(parts) == sorted(["self.last_time is not None", "time != self.last_time"])
    elif test is not None and src(test) == "time != self.last_time":
        ok = True
    report.check(ok, "R-BLANK-SYNC", fn, "blank sync exactly when this start differs from the previous end",
                 {"guard": src(test) if test is not None else None,
                  "required": "self.last_time and time != self.last_time"}, "5")
    bl = ctx.index.get_function(path, "SAMIWriter._recreate_blank_tag")
    report.covered(bl)
    calls = [c for c in walk_no_nested(bl.node) if isinstance(c, ast.Call) and call_name(c) == "self._recreate_sync"]
    ok = len(calls) == 1 and src(calls[0].args[-1]) == "self.last_time"
    report.check(ok, "R-BLANK-SYNC", bl, "the blank sync is placed at the previous end (self.last_time)",
                 [short(c) for c in calls], "5")
    # order inside _recreate_p_tag: blank test uses the OLD last_time, then last_time is updated
    lines = {}
    for n in walk_no_nested(fn.node):
        if isinstance(n, ast.If) and n.test is test:
            lines["blank"] = n.lineno
        if isinstance(n, ast.Assign) and src(n.targets[0]) == "self.last_time":
            lines["update"] = n.lineno
    report.check(lines.get("blank", 10**9) < lines.get("update", -1), "R-ORDER", fn,
                 "previous end is tested before it is overwritten with this caption's end", lines, "5")
    wr = ctx.index.get_function(path, "SAMIWriter.write")
    resets = [n for n in walk_no_nested(wr.node) if isinstance(n, ast.For) and
              any(isinstance(s, ast.Assign) and src(s.targets[0]) == "self.last_time" and
                  isinstance(s.value, ast.Constant) and s.value.value is None for s in n.body)]
    report.check(bool(resets), "R-BLANK-SYNC", wr, "last_time is reset at the start of every language", None, "5")


WRITER_LOOPS = [
    ("pycaption/srt.py", "SRTWriter._recreate_lang"),
    ("pycaption/microdvd.py", "MicroDVDWriter._recreate_lang"),
    ("pycaption/dfxp/base.py", "DFXPWriter.write"),
    ("pycaption/dfxp/extras.py", "LegacyDFXPWriter.write"),
    ("pycaption/sami.py", "SAMIWriter.write"),
    ("pycaption/webvtt.py", "WebVTTWriter.write"),
]


def emission_rules(ctx, report):
    idx = ctx.index
    # SRT
    fn = idx.get_function("pycaption/srt.py", "SRTWriter._recreate_lang")
    report.covered(fn)
    t1, t2 = emission_template(report, fn, r"^ --> \n?$", "SRT timing line from this caption's start then end")
    seps = re.findall(r"msec_separator=('.'|\".\")", t1 + t2)
    report.check(len(seps) == 2 and all(x[1] == "," for x in seps), "R-EMIT", fn,
                 "SRT stamps use the comma as millisecond separator", [t1[:80], t2[:80]], "3")
    # DFXP
    for path, q in (("pycaption/dfxp/base.py", "DFXPWriter._recreate_p_tag"),
                    ("pycaption/dfxp/extras.py", "LegacyDFXPWriter._recreate_p_tag")):
        f = idx.get_function(path, q)
        report.covered(f)
        tags = [c for c in walk_no_nested(f.node) if isinstance(c, ast.Call) and (call_name(c) or "").endswith("new_tag")
                and c.args and isinstance(c.args[0], ast.Constant) and c.args[0].value == "p"]
        if len(tags) != 1 or kwarg(tags[0], "begin") is None or kwarg(tags[0], "end") is None:
            raise AnalysisError(f"{q}: new_tag('p', begin=..., end=...) not found")
        (kb, tb), (ke, te) = which_instant(f, kwarg(tags[0], "begin")), which_instant(f, kwarg(tags[0], "end"))
        if kb is None or ke is None:
            raise AnalysisError(f"{q}: cannot tell which instant begin=/end= print")
        report.check((kb, ke) == ("start", "end") and "format_start(" in tb and "format_end(" in te, "R-EMIT", f,
                     "<p begin=format_start() end=format_end()> of this caption",
                     {"begin": tb[:80], "end": te[:80]}, "4")
    # WebVTT
    f = idx.get_function("pycaption/webvtt.py", "WebVTTWriter._convert_caption")
    report.covered(f)
    t1, t2 = emission_template(report, f, r"^ --> $", "WebVTT timing line from this caption's start then end")
    report.check("_timestamp(" in t1 and "_timestamp(" in t2, "R-EMIT", f,
                 "both stamps go through the WebVTT formatter", [t1[:80], t2[:80]], "4")
    from . import webvtt_layout_fold
    webvtt_layout_fold.run_cues(ctx, report, {"split": ("R-EMIT", "4")})
    # loops: one emission per caption, forward iteration, no skipping
    for path, q in WRITER_LOOPS:
        f = idx.get_function(path, q)
        report.covered(f)
        loops = []
        for n in walk_no_nested(f.node):
            if isinstance(n, ast.For) and re.search(r"\bcaptions\b|get_captions\(", src(n.iter)):
                loops.append(n)
            if isinstance(n, ast.ListComp) and any(re.search(r"\bcaptions\b|get_captions\(", src(g.iter))
                                                   for g in n.generators):
                loops.append(n)
        if not loops:
            raise AnalysisError(f"{q}: loop over captions not found")
        problems = []
        for lp in loops:
            it = lp.iter if isinstance(lp, ast.For) else lp.generators[0].iter
            s_it = src(it)
            if re.search(r"reversed\(|\[::-1\]|sorted\(", s_it):
                problems.append(f"iteration order changed: {s_it}")
            if isinstance(lp, ast.For):
                for b in walk_no_nested(lp):
                    if isinstance(b, (ast.Continue, ast.Break)):
                        # a continue/break directly in the caption loop skips a cue
                        inner = [x for x in walk_no_nested(lp) if isinstance(x, (ast.For, ast.While)) and x is not lp
                                 and b in list(walk_no_nested(x))]
                        if not inner:
                            problems.append(f"cue skipped by `{type(b).__name__.lower()}` at line {b.lineno}")
            else:
                if any(g.ifs for g in lp.generators):
                    problems.append("comprehension filters captions: " + short(lp))
        report.check(not problems, "R-EMIT", f, "caption loop runs forwards over every caption",
                     {"loops": [short(l.iter if isinstance(l, ast.For) else l.generators[0].iter) for l in loops],
                      "problems": problems}, "4")


def _eq_pairs(test):
    """[(left expr, right expr)] compared for equality by `test` (tuple equality is
    element-wise; `and` joins), or None when the test is not of that form."""
    if isinstance(test, ast.BoolOp) and isinstance(test.op, ast.And):
        out = []
        for v in test.values:
            p = _eq_pairs(v)
            if p is None:
                return None
            out += p
        return out
    if isinstance(test, ast.Compare) and len(test.ops) == 1 and isinstance(test.ops[0], ast.Eq):
        l, r = test.left, test.comparators[0]
        if isinstance(l, ast.Tuple) and isinstance(r, ast.Tuple) and len(l.elts) == len(r.elts):
            return list(zip(l.elts, r.elts))
        if isinstance(l, ast.Tuple) or isinstance(r, ast.Tuple):
            return None
        return [(l, r)]
    return None


def merge_keys(ctx, report):
    """merging happens only behind an equality test of BOTH start and end of
    two captions (direct attribute reads, no formatting in between)"""
    from . import merge_fold
    merge_fold.run(ctx, report, clause="5", only=("R-RUNS",), rename={"R-RUNS": (
        "R-MERGE-KEY", "only captions that FOLLOW each other with the same (start, end) are merged "
                       "(merge_concurrent_captions folded on every sequence of timespans)")})
    report.structural_section("SRT merge test (shape)", "R-DOC-CUES on the folded SRT documents (writer_doc_fold: consecutive captions "
                              "with identical times, and with times that agree to the millisecond only)", merge_key_shape, ctx, report)


def merge_key_shape(ctx, report):
    for path, q in (("pycaption/srt.py", "SRTWriter._recreate_lang"),):
        top = ctx.index.get_function(path, q)
        tests = []
        for fn in closure(ctx.index, top):
            report.covered(fn)
            for n in walk_no_nested(fn.node):
                if not isinstance(n, (ast.If, ast.While, ast.IfExp)):
                    continue
                t = resolve_local(fn, n.test, index=ctx.index)
                if isinstance(t, ast.UnaryOp) and isinstance(t.op, ast.Not):
                    continue
                pairs = _eq_pairs(t)
                if pairs and any(isinstance(e, ast.Attribute) and ("start" in e.attr or "end" in e.attr)
                                 and e.attr not in ("append", "extend", "endswith")
                                 for pr in pairs for e0 in pr for e in ast.walk(e0)):
                    tests.append((fn, n, pairs, t))
        if not tests:
            # recognised wrong shape: captions collected in a container KEYED by their times are merged
            # across the whole list, not only when they follow each other
            keyed = []
            for fn in closure(ctx.index, top):
                for n in walk_no_nested(fn.node):
                    key = None
                    if isinstance(n, ast.Subscript):
                        key = n.slice
                    elif isinstance(n, ast.Call) and isinstance(n.func, ast.Attribute) \
                            and n.func.attr in ("setdefault", "get") and n.args:
                        key = n.args[0]
                    if key is None:
                        continue
                    k = resolve_local(fn, key, index=ctx.index)
                    if isinstance(k, ast.Tuple) and any(isinstance(e, ast.Attribute) and e.attr in ("start", "end")
                                                        for e in k.elts):
                        keyed.append((fn, n, src(k)))
            if keyed:
                fn, n, k = keyed[0]
                report.violation("R-MERGE-KEY", (fn, n), "only captions that FOLLOW each other with the same (start, end) "
                                 "are merged", {"found": f"captions are grouped in a mapping keyed by {k}",
                                                "why": "two captions with the same times separated by a different one are "
                                                       "joined: the later text moves forward and its cue disappears"}, "5")
                continue
        if len(tests) != 1:
            raise AnalysisError(f"{q}: expected one equality test of caption times guarding the merge, "
                                f"found {len(tests)}")
        fn, n, pairs, t = tests[0]
        if not all(isinstance(x, ast.Attribute) and x.attr in ("start", "end") for pr in pairs for x in pr):
            raise AnalysisError(f"{q}: the merge test does not compare plain start / end attributes: {src(t)[:120]}")
        shape = []
        for l, r in pairs:
            la = (src(l.value), l.attr) if isinstance(l, ast.Attribute) else (src(l), None)
            ra = (src(r.value), r.attr) if isinstance(r, ast.Attribute) else (src(r), None)
            shape.append((la, ra))
        attrs = sorted((la[1], ra[1]) for la, ra in shape)
        ok = attrs == [("end", "end"), ("start", "start")] \
            and len({la[0] for la, _ in shape}) == 1 and len({ra[0] for _, ra in shape}) == 1 \
            and shape[0][0][0] != shape[0][1][0]
        report.check(ok, "R-MERGE-KEY", (fn, n), "merge key is (start, end) of both captions, compared as numbers",
                     {"test_after_resolving_locals_and_helpers": src(t)[:200],
                      "why": "captions may be merged only when both their start and their end coincide"}, "5")
