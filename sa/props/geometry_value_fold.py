"""C18 clauses 1/2: the geometry value classes folded on a grid of values.

Values are built by folding the classes' own constructors (exhaustive in None-ness, units and
alignments, two magnitudes per component).  For every ordered pair (a, b) of values of one class:
  a == b   exactly when all geometric components are equal        (the model knows how it built them)
  a != b   is the negation of a == b
  a == b   implies hash(a) == hash(b)
and for every Layout: as_percentage_of / fit_to_screen return a value and leave the receiver as it was.
`==`, `!=`, `hash` are the classes' own __eq__ / __ne__ / __hash__, folded by the checker's evaluator.
"""
import ast
import itertools

from ..core.tree import AnalysisError
from ..core.constfold import Folder, Stub, FoldRaise

UNITS = ("PERCENT", "PIXEL", "EM")


def _snap(o, depth=0):
    if isinstance(o, Stub):
        return (o.name, tuple(sorted((k, _snap(v, depth + 1)) for k, v in o.attrs.items()))) if depth < 8 else "..."
    return repr(o)


def run(ctx, report, clause_eq="1", clause_immut="2"):
    F = Folder(ctx.index)
    F.object_classes = "*"
    geom = "pycaption.geometry"
    cls_site = ctx.index.get_class("pycaption/geometry.py", "Layout").find_method("__eq__")

    def ev(text, **local):
        return F.eval_in(geom, ast.parse(text, mode="eval").body, local)

    def size(spec):
        return None if spec is None else ev(f"Size(v, UnitEnum.{spec[1]})", v=spec[0])
    # (the last two differ beyond the print precision only: still different values)
    sizes = [(10, "PERCENT"), (20, "PERCENT"), (10, "PIXEL"), (10.0, "PERCENT"), (10.001, "PERCENT"), (10.004, "PERCENT")]
    points = [(a, b) for a in sizes[:3] for b in sizes[:2]]
    pads = [None, ((1, "PERCENT"),) * 4, ((1, "PERCENT"), (2, "PERCENT"), (1, "PERCENT"), (1, "PERCENT")), ((1, "PIXEL"),) * 4]
    aligns = [None, ("LEFT", "TOP"), ("LEFT", "BOTTOM"), ("CENTER", "TOP"), ("START", "TOP"), ("RIGHT", "TOP"), ("END", "TOP")]
    families = {
        "Size": [(s, lambda s=s: size(s)) for s in sizes],
        "Point": [(p, lambda p=p: ev("Point(a, b)", a=size(p[0]), b=size(p[1]))) for p in points],
        "Stretch": [(p, lambda p=p: ev("Stretch(a, b)", a=size(p[0]), b=size(p[1]))) for p in points[:4]],
        "Padding": [(p, lambda p=p: ev("Padding(before=a, after=b, start=c, end=d)", a=size(p[0]), b=size(p[1]), c=size(p[2]),
                                       d=size(p[3]))) for p in pads[1:]],
        "Alignment": [(a, lambda a=a: ev(f"Alignment(HorizontalAlignmentEnum.{a[0]}, VerticalAlignmentEnum.{a[1]})")) for a in aligns[1:]],
    }
    families["Region"] = [((e_, o_), lambda e_=e_, o_=o_: ev("Region.from_extent(e, o)", e=ev("Stretch(a, b)", a=size(e_[0]), b=size(e_[1])),
                                                              o=ev("Point(a, b)", a=size(o_[0]), b=size(o_[1]))))
                          for e_ in points[:2] for o_ in points[:3]]
    lay_specs = []
    for o, e, p, a in itertools.product([None, points[0], points[1]], [None, points[0], points[2]], pads[:3], aligns[:3]):
        lay_specs.append((o, e, p, a))

    def layout(spec):
        o, e, p, a = spec
        return ev("Layout(origin=o, extent=e, padding=p, alignment=a)",
                  o=ev("Point(a, b)", a=size(o[0]), b=size(o[1])) if o else None,
                  e=ev("Stretch(a, b)", a=size(e[0]), b=size(e[1])) if e else None,
                  p=ev("Padding(before=a, after=b, start=c, end=d)", a=size(p[0]), b=size(p[1]), c=size(p[2]), d=size(p[3])) if p else None,
                  a=ev(f"Alignment(HorizontalAlignmentEnum.{a[0]}, VerticalAlignmentEnum.{a[1]})") if a else None)
    families["Layout"] = [(s, lambda s=s: layout(s)) for s in lay_specs]

    def same(sa, sb):
        def norm(x):
            if isinstance(x, tuple):
                return tuple(norm(y) for y in x)
            return float(x) if isinstance(x, (int, float)) and not isinstance(x, bool) else x
        return norm(sa) == norm(sb)

    total = 0
    for name, members in families.items():
        bad_eq, bad_ne, bad_hash = [], [], []
        try:
            objs = [(spec, mk()) for spec, mk in members]
            for (sa, a), (sb, b) in itertools.product(objs, repeat=2):
                total += 1
                eq = bool(ev("a == b", a=a, b=b))
                ne = bool(ev("a != b", a=a, b=b))
                want = same(sa, sb)
                if eq != want:
                    bad_eq.append({"a": str(sa), "b": str(sb), "a == b": eq, "components_equal": want})
                if ne == eq:
                    bad_ne.append({"a": str(sa), "b": str(sb), "a == b": eq, "a != b": ne})
                if eq and ev("hash(a)", a=a) != ev("hash(b)", b=b):
                    bad_hash.append({"a": str(sa), "b": str(sb)})
        except FoldRaise as e:
            bad_eq.append({"raises": f"{e.exc_name}: {e}"[:120]})
        except AnalysisError as e:
            raise AnalysisError(f"geometry values: {name} cannot be folded: {e}")
        site = ctx.index.get_class("pycaption/geometry.py", name).find_method("__eq__") or cls_site
        report.covered(site)
        report.check(not bad_eq, "R-EQHASH", site, f"{name}: two values are equal exactly when all their components are",
                     {"pairs": len(members) ** 2, "mismatches": bad_eq[:3]}, clause_eq)
        report.check(not bad_ne, "R-EQHASH", site, f"{name}: != is the negation of ==",
                     {"pairs": len(members) ** 2, "mismatches": bad_ne[:3]}, clause_eq)
        report.check(not bad_hash, "R-EQHASH", site, f"{name}: equal values have equal hashes",
                     {"pairs": len(members) ** 2, "mismatches": bad_hash[:3]}, clause_eq)
    # values whose hashes collide (found by folding __hash__ over a grid of two-component values): still different values
    grid = [0, 1, 2, 5, 7, 11, 13, 19, 23, 29, 31, 39, 41, 43, 51, 53, 59, 60, 61, 71, 73, 83, 89, 100]
    for name, build in (("Point", "Point(a, b)"), ("Stretch", "Stretch(a, b)")):
        site = ctx.index.get_class("pycaption/geometry.py", name).find_method("__eq__") or cls_site
        buckets, wrong, n_coll = {}, [], 0
        try:
            for x, y in itertools.product(grid, repeat=2):
                o = ev(build, a=size((x, "PERCENT")), b=size((y, "PERCENT")))
                buckets.setdefault(ev("hash(a)", a=o), []).append(((x, y), o))
            for members in buckets.values():
                for (sa, a), (sb, b) in itertools.combinations(members, 2):
                    n_coll += 1
                    total += 1
                    if bool(ev("a == b", a=a, b=b)) or not bool(ev("a != b", a=a, b=b)):
                        wrong.append({"a": f"{name}{sa} (percent)", "b": f"{name}{sb} (percent)", "hashes": "equal", "a == b": True})
        except FoldRaise as e:
            wrong.append({"raises": f"{e.exc_name}: {e}"[:120]})
        except AnalysisError as e:
            raise AnalysisError(f"geometry values: {name} cannot be folded on the collision grid: {e}")
        report.check(not wrong, "R-EQHASH", site, f"{name}: different values whose hashes collide ({n_coll} such pairs among "
                     f"{len(grid) ** 2} grid values) still compare unequal", {"colliding_pairs": n_coll, "mismatches": wrong[:3]}, clause_eq)
    report.count("geometry_value_pairs_folded", total)
    if clause_immut is None:
        return
    # relativizing / fitting leaves the receiver alone
    mutated = []
    lay_cls = ctx.index.get_class("pycaption/geometry.py", "Layout")
    px = [(None, None, None, None)]
    for spec in lay_specs[::3]:
        for meth, args in (("as_percentage_of", [640, 360]), ("fit_to_screen", []), ("is_relative", [])):
            m = lay_cls.find_method(meth)
            if m is None:
                continue
            lay = layout(spec)
            before = _snap(lay)
            try:
                F.call_function(m, list(args), {}, self_value=lay)
            except (FoldRaise, AnalysisError):
                pass          # refusing (absolute units without a dimension, unrelativized fit) is fine; mutating is not
            if _snap(lay) != before:
                mutated.append({"layout": str(spec), "method": meth, "after": str(_snap(lay))[:200]})
    report.check(not mutated, "R-IMMUT", lay_cls.find_method("as_percentage_of"), "relativizing, fitting and testing a Layout "
                 "return values and leave the receiver unchanged", {"layouts": len(lay_specs[::3]), "mismatches": mutated[:3]}, clause_immut)
