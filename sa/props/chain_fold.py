"""C08 (chains of conversions): writers and readers folded back to back along every pair of formats.

Formats whose reader AND writer can be folded: SRT, WebVTT, DFXP (through the BeautifulSoup model of
sa/core/soupmodel.py), MicroDVD; SAMI can only end a chain (its reader drives a second parser that
is outside the evaluator).  For every small caption set of the pool and every ordered pair (A, B):

    set -> write A -> read A -> write B -> read B          (and -> write SAMI, checked for its syncs' text)

the cues of the result are compared with the original: same number, same order, same text
(white-space normalised), same instants (the pool's instants are multiples of 40 ms, so every
format on the chain, MicroDVD's frames included, can carry them exactly); then the chain is run a
second time on its own result and must change nothing further.
"""
import ast
import itertools
import re

from ..core.tree import AnalysisError
from ..core.constfold import Folder, Stub, FoldRaise
from ..core.soupmodel import Soup

S = 1000000
FORMATS = {
    "SRT": ("pycaption/srt.py", "SRTWriter", "SRTReader"),
    "WebVTT": ("pycaption/webvtt.py", "WebVTTWriter", "WebVTTReader"),
    "DFXP": ("pycaption/dfxp/base.py", "DFXPWriter", "DFXPReader"),
    "MicroDVD": ("pycaption/microdvd.py", "MicroDVDWriter", "MicroDVDReader"),
    "SAMI": ("pycaption/sami.py", "SAMIWriter", "SAMIReader"),
}
SETS = {
    "plain": [(S, 2 * S, ["hello"]), (3 * S + 40000, 4 * S + 520000, ["two", "lines"]), (3600 * S, 3601 * S + 80000, ["bye"])],
    "metacharacters": [(S, 2 * S, ["a & b < c > d"]), (5 * S, 6 * S, ["\"quoted\" it's 100%"]), (7 * S, 8 * S, ["é ü 漢"]),
                       (9 * S, 10 * S, ["C:\\new\\table {y:i} 50% {1}{2}"]),
                       # (text that is not in composed normal form: a decomposed accent, the ANGSTROM SIGN - the code points travel)
                       (11 * S, 12 * S, ["Ame\u0301lie is 10 \u212b tall"])],
    "touching cues": [(0, S, ["first"]), (S, 2 * S, ["second", "line 2", "line 3"]), (2 * S, 2 * S + 40000, ["third"])],
    # empty lines: two and three consecutive breaks, and two breaks separated by a style node that has no tag of its own
    "empty lines": [(S, 2 * S, ["one", "", "two"]), (3 * S, 4 * S, ["top", "", "", "bottom"]),
                    (5 * S, 6 * S, ["first", ("style", True, {"color": "red"}), "", "second", ("style", False, {"color": "red"})]),
                    (7 * S, 8 * S, ["last"])],
    "italics": [(S, 2 * S, [("style", True, {"italics": True}), "slanted", ("style", False, {"italics": True}), " plain"]),
                (3 * S, 4 * S, ["after"]),
                # the only blank between a styled run and what follows is the one that ends the run
                (5 * S, 6 * S, [("style", True, {"italics": True}), "Narrator: ", ("style", False, {"italics": True}),
                                ("same-line", "it was a dark night.")])],
    # two text nodes of one line with different layouts (WebVTT writes them as two timing blocks of one cue)
    "layout groups": [(S, 2 * S, [("layout", (10, 10, "LEFT")), "speaker on the left ", ("layout", (60, 10, "RIGHT")), ("same-line", "speaker on the right")]),
                      (3 * S, 4 * S, ["after"])],
}


def visible_lines(lines):
    out, cur = [], ""
    first = True
    for it in lines:
        if isinstance(it, tuple) and it[0] == "same-line":
            cur += it[1]
            continue
        if isinstance(it, tuple):
            continue
        if not first:
            out.append(cur)
            cur = ""
        first = False
        cur += it
    out.append(cur)
    return [re.sub(r"\s+", " ", l).strip() for l in out if l.strip()]


class World:
    def __init__(self, ctx):
        self.ctx = ctx
        self.F = Folder(ctx.index)
        self.F.object_classes = "*"
        from ..core.samimodels import SAMI_MODELS
        self.F.external_models = dict({"bs4.BeautifulSoup": Soup}, **SAMI_MODELS)
        self.n = 0

    def ev(self, text, **local):
        return self.F.eval_in("pycaption.base", ast.parse(text, mode="eval").body, local)

    def caption_set(self, caps):
        cl = []
        for s, e, lines in caps:
            nodes = []
            first = True
            lay = None
            for l in lines:
                if isinstance(l, tuple) and l[0] == "layout":
                    x, y, al = l[1]
                    g = "pycaption.geometry"
                    lay = self.F.eval_in(g, ast.parse(
                        f"Layout(origin=Point(Size({x}, UnitEnum.PERCENT), Size({y}, UnitEnum.PERCENT)), "
                        f"alignment=Alignment(HorizontalAlignmentEnum.{al}, VerticalAlignmentEnum.TOP))", mode="eval").body, {})
                    continue
                if isinstance(l, tuple) and l[0] == "same-line":
                    nodes.append(self.ev("CaptionNode.create_text(t, layout_info=l)", t=l[1], l=lay))
                    continue
                if isinstance(l, tuple):
                    nodes.append(self.ev("CaptionNode.create_style(s, c)", s=l[1], c=dict(l[2])))
                    continue
                if not first:
                    nodes.append(self.ev("CaptionNode.create_break()"))
                first = False
                if l != "":
                    nodes.append(self.ev("CaptionNode.create_text(t, layout_info=l)", t=l, l=lay))
            cl.append(self.ev("Caption(s, e, n)", s=s, e=e, n=nodes))
        return self.ev("CaptionSet({'en-US': CaptionList(c)})", c=cl)

    def _obj(self, path, name):
        cls = self.ctx.index.get_class(path, name)
        me = Stub(name, {}, cls=cls)
        init = cls.find_method("__init__")
        if init is not None:
            self.F.call_function(init, [], {}, self_value=me)
        return cls, me

    def write(self, fmt, cs):
        path, w, _ = FORMATS[fmt]
        cls, me = self._obj(path, w)
        self.n += 1
        return self.F.call_function(cls.find_method("write"), [cs], {}, self_value=me)

    def read(self, fmt, doc):
        path, _, r = FORMATS[fmt]
        cls, me = self._obj(path, r)
        self.n += 1
        return self.F.call_function(cls.find_method("read"), [doc], {}, self_value=me)


def cues(cs):
    from .foldutil import captions_by_language
    by_lang = captions_by_language(cs, what="chain: a reader's result")
    if len(by_lang) != 1:
        raise AnalysisError("chain: a reader's folded result is not a one-language CaptionSet")
    lst = list(by_lang.values())[0]
    out = []
    for c in lst:
        text = ""
        for nd in c.attrs["nodes"]:
            t = nd.attrs.get("type_")
            text += "\n" if t == 3 else (nd.attrs.get("content") if t == 1 else "")
        out.append((c.attrs.get("start"), c.attrs.get("end"),
                    [re.sub(r"\s+", " ", l.replace(" ", " ")).strip() for l in text.split("\n") if l.strip()]))
    return out


def explore(ctx, thorough):
    W = World(ctx)
    bad = {"chain": [], "second": [], "sami": []}
    n = 0
    fns = []
    for (label, caps), (a, b) in itertools.product(SETS.items(), itertools.product(FORMATS, repeat=2)):
        n += 1
        # text is compared white-space normalised, line breaks included (a cue split over layout groups comes back with a
        # line break between the groups; the line structure of single hops is C03's and C04's business)
        want = [(s, e, " ".join(visible_lines(ls))) for s, e, ls in caps]
        if "SAMI" in (a, b):
            # SAMI carries starts and non-final ends: the last cue of a language lasts four seconds
            want[-1] = (want[-1][0], want[-1][0] + 4 * S, want[-1][2])
        case = {"caption_set": label, "chain": f"{a} -> {b}"}
        try:
            cs = W.caption_set(caps)
            r1 = W.read(b, W.write(b, W.read(a, W.write(a, cs))))
            got = [(s_, e_, " ".join(ls_)) for s_, e_, ls_ in cues(r1)]
            r2 = W.read(b, W.write(b, W.read(a, W.write(a, r1))))
            got2 = [(s_, e_, " ".join(ls_)) for s_, e_, ls_ in cues(r2)]
            sami = W.write("SAMI", r1) if thorough or a == b else None
        except FoldRaise as e:
            bad["chain"].append(dict(case, raises=f"{e.exc_name}: {e}"[:160]))
            continue
        except AnalysisError as e:
            raise AnalysisError(f"chain {a} -> {b} cannot be folded on the set '{label}': {e}")
        if got != want:
            bad["chain"].append(dict(case, cues=got[:3], required=want[:3]))
        elif got2 != got:
            bad["second"].append(dict(case, after_one_pass=got[:3], after_two=got2[:3]))
        if sami is not None and got == want:
            texts = [re.sub(r"\s+", " ", html_unescape(re.sub(r"<[^>]+>", " ", t))).strip()
                     for t in re.findall(r"<p [^>]*>\s*(.*?)\s*</p>", sami, re.S)]
            texts = [t for t in texts if t and t != " "]
            if texts != [t_ for _, _, t_ in want]:
                bad["sami"].append(dict(case, paragraphs=texts[:4], required=[t_ for _, _, t_ in want][:4]))
    for path, w, r in FORMATS.values():
        fns.append(ctx.index.get_class(path, w).find_method("write"))
        fns.append(ctx.index.get_class(path, r).find_method("read"))
    return W, fns, bad, n


def reader_reuse(ctx, report, rule="R-DOC-REUSE", clause="1"):
    """C10: one reader object per format reading document A, document B, document A again (the documents are what the folded
    writers give for the caption sets above): every result equals what a fresh reader returns for that document, and two
    results share no caption or node object"""
    W = World(ctx)
    labels = ["plain", "italics", "empty lines", "layout groups"]
    bad = []
    n = 0
    fn0 = None
    for fmt, (path, _, rname) in FORMATS.items():
        cls = ctx.index.get_class(path, rname)
        fn0 = fn0 or cls.find_method("read")
        report.covered(cls.find_method("read"))
        try:
            docs = [W.write(fmt, W.caption_set(SETS[l])) for l in labels]
        except (FoldRaise, AnalysisError) as e:
            raise AnalysisError(f"{fmt}: the writer cannot be folded to make documents for the reader: {e}")
        names = list(labels)
        if fmt == "DFXP":
            # documents no writer of the package produces: no alignment attributes anywhere, regions on div / p / span,
            # a referenced style - the defaults the reader fills in must be the result's own objects too
            from . import dfxp_reader_fold as _drf
            for lab_, doc_, pretty_, _want in _drf.documents(False):
                if lab_ in ("content 0", "regions on div, p and span", "begin + dur", "caption style reference"):
                    docs.append(_drf.serialise(doc_, pretty_))
                    names.append("hand-built: " + lab_)
        for k in range(len(docs)):
            a, b = docs[k], docs[(k + 1) % len(docs)]
            n += 1
            case = {"reader": rname, "documents": [names[k], names[(k + 1) % len(docs)], names[k]]}
            try:
                _, me = W._obj(path, rname)
                read = cls.find_method("read")
                r1 = W.F.call_function(read, [a], {}, self_value=me)
                r2 = W.F.call_function(read, [b], {}, self_value=me)
                r3 = W.F.call_function(read, [a], {}, self_value=me)
                fa, fb = W.read(fmt, a), W.read(fmt, b)
                k1, k2, k3, ka, kb = cues(r1), cues(r2), cues(r3), cues(fa), cues(fb)
            except FoldRaise as e:
                bad.append(dict(case, raises=f"{e.exc_name}: {e}"[:140]))
                continue
            except AnalysisError as e:
                raise AnalysisError(f"{rname}.read (one object, three documents) cannot be folded: {e}")
            if W.F.process_state:
                bad.append(dict(case, why="the read changed a process-wide setting, under which every later read and write runs",
                                settings=dict(W.F.process_state)))
                W.F.process_state.clear()
            elif k1 != ka or k3 != ka:
                bad.append(dict(case, why="a read of the first document differs from a fresh reader's", first=str(k1)[:160],
                                third=str(k3)[:160], fresh=str(ka)[:160]))
            elif k2 != kb:
                bad.append(dict(case, why="the second document read with a used reader differs from a fresh reader's",
                                used=str(k2)[:200], fresh=str(kb)[:200]))
            else:
                from .foldutil import captions_by_language

                from .foldutil import mutable_ids as deep

                def objs(r):
                    out = set()
                    for caps in captions_by_language(r, what="reader reuse").values():
                        for c in caps:
                            out.add(id(c))
                            out.update(id(nd) for nd in c.attrs["nodes"])
                            # the mutable things a caption holds: its style dict, its layout and its nodes' layouts
                            for holder in [c] + list(c.attrs["nodes"]):
                                for k_ in ("style", "layout_info", "content"):
                                    v_ = holder.attrs.get(k_)
                                    deep(v_, out)
                    return out
                if objs(r1) & objs(r3) or objs(r1) & objs(r2):
                    bad.append(dict(case, why="two results share caption / node objects"))
    report.check(not bad, rule, fn0, f"five readers, one object each reading A, B, A over {len(labels)} documents ({n} sequences): every "
                 "result equals a fresh reader's and shares no caption or node object with another result", {"sequences": n, "mismatches": bad[:3]}, clause)


def html_unescape(t):
    import html
    return html.unescape(t)


def run(ctx, report, rules):
    thorough = ctx.tier == "thorough"
    W, fns, bad, n = ctx.memo(("chain_fold", thorough), lambda: explore(ctx, thorough))
    for f in fns:
        report.covered(f)
    report.count("conversion_chains_folded", n)
    texts = {
        "chain": "write A, read A, write B, read B gives the same cues, text (white-space normalised) and instants",
        "second": "running the same chain on its own result changes nothing further",
        "sami": "the SAMI document written from the chain's result carries the same paragraphs in order",
    }
    where = (("pycaption/__init__.py", "<package>"))
    for key, (rule, clause) in rules.items():
        report.check(not bad[key], rule, fns[0], f"all {len(FORMATS)}x{len(FORMATS)} format pairs x {len(SETS)} caption sets "
                     f"({n} chains, {W.n} folded reads and writes): {texts[key]}", {"chains": n, "mismatches": bad[key][:2]}, clause)
