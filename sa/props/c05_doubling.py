"""C05 clause 1 / C16: the duplicate filter of the SCC decoder, decided as a finite-state machine.

`SCCReader._handle_double_command(word)` is a transducer over (last_command, double_starter).
Its source is folded (constant evaluation, nothing imported or run) on a representative
alphabet of code words - two preamble address codes, two tab offsets, cue-starting and other
commands, two special characters, an ordinary character pair - from every state reachable from
the reader's initial state; the state space closes after a few dozen states.  On that exact
finite model the obligations of the property are checked:

  O-PAIR      X X        -> first accepted, second dropped          (every control / special code)
  O-TWICE     X X X X    -> accepted, dropped, accepted, dropped    (non-address commands count twice)
  O-TAB       P T        -> both accepted;   P P T T -> accepted, dropped, accepted, dropped
              P T P T    -> accepted, accepted, dropped, dropped    (the repetition form the code documents)
  O-TEXT      c c        -> both accepted (ordinary characters are never duplicates)
  O-SEPARATED X c X      -> all accepted (only the IMMEDIATELY preceding word counts)

Every obligation is evaluated from every reachable state whose memory is not the first word of the
sequence (so that the first word is a fresh one).
"""
import ast

from ..core.tree import AnalysisError
from ..core.constfold import Folder, Stub, FoldRaise
from ..core.astutil import walk_no_nested, src

SCC = "pycaption/scc/__init__.py"
CONST = "pycaption.scc.constants"


def _alphabet(folder):
    commands = folder.value(CONST, "COMMANDS")
    special = folder.value(CONST, "SPECIAL_CHARS")
    tabs = folder.value(CONST, "PAC_TAB_OFFSET_COMMANDS")
    starters = folder.value(CONST, "CUE_STARTING_COMMAND")
    pacs = folder.value(CONST, "PAC_BYTES_TO_POSITIONING_MAP")
    if not all(isinstance(x, dict) for x in (commands, special, tabs, pacs)):
        raise AnalysisError("doubling: SCC tables do not fold to dictionaries")
    pac_words = sorted(b1 + b2 for b1, row in pacs.items() for b2 in row)
    tab_words = sorted(tabs)
    starter = [w for w in starters if w in commands]
    other = sorted(w for w in commands if w not in starters and w not in tabs and w not in pac_words
                   and w not in ("94a1",))
    spec = sorted(special)
    if len(pac_words) < 2 or len(tab_words) < 2 or not starter or len(other) < 2 or len(spec) < 2:
        raise AnalysisError("doubling: representative alphabet cannot be drawn from the tables")
    pick_other = [w for w in ("94ad", "942c", "942f") if w in other] or other[:2]
    extended = folder.value(CONST, "EXTENDED_CHARS")
    ext = sorted(extended)
    if not isinstance(extended, dict) or len(ext) < 2:
        raise AnalysisError("doubling: EXTENDED_CHARS does not fold")
    return {"P": pac_words[len(pac_words) // 2], "Q": pac_words[1], "T": tab_words[0], "U": tab_words[-1],
            "S": starter[-1], "R": starter[0], "C": pick_other[0], "D": pick_other[-1],
            "M": spec[0], "N": spec[-1], "c": "c1c2", "d": "20c4", "E": ext[0], "F": ext[-1], "X": "94a1"}


class Machine:
    def __init__(self, ctx, folder):
        self.fn = ctx.index.get_function(SCC, "SCCReader._handle_double_command")
        self.rcls = ctx.index.get_class(SCC, "SCCReader")
        self.folder = folder
        init = ctx.index.get_function(SCC, "SCCReader.__init__")
        reset = ctx.index.get_class(SCC, "SCCReader").find_method("_reset")
        self.state_attrs = sorted({n.attr for n in walk_no_nested(self.fn.node)
                                   if isinstance(n, ast.Attribute) and isinstance(n.value, ast.Name)
                                   and n.value.id == "self" and not isinstance(getattr(n, "ctx", None), ast.Del)
                                   and not self._is_method(ctx, n.attr)})
        self.initial = {}
        for f in (init, reset):
            if f is None:
                continue
            for n in walk_no_nested(f.node):
                if isinstance(n, ast.Assign) and len(n.targets) == 1 and isinstance(n.targets[0], ast.Attribute) \
                        and src(n.targets[0].value) == "self" and n.targets[0].attr in self.state_attrs \
                        and isinstance(n.value, ast.Constant):
                    self.initial[n.targets[0].attr] = n.value.value
        missing = [a for a in self.state_attrs if a not in self.initial]
        if missing:
            raise AnalysisError(f"doubling: initial value of {missing} not found in __init__/_reset")

    @staticmethod
    def _is_method(ctx, name):
        return ctx.index.get_class(SCC, "SCCReader").find_method(name) is not None

    def key(self, st):
        return tuple(st[a] for a in self.state_attrs)

    def step(self, st, word):
        """(dropped?, next state)"""
        obj = Stub("reader", dict(st), cls=self.rcls)
        try:
            r = self.folder.call_function(self.fn, [word], self_value=obj)
        except FoldRaise as e:
            raise AnalysisError(f"doubling: the filter raises on {word}: {e}")
        except AnalysisError as e:
            raise AnalysisError(f"doubling: _handle_double_command cannot be folded: {e}")
        return bool(r), {a: obj.attrs[a] for a in self.state_attrs}

    def reachable(self, words, limit=4000):
        start = dict(self.initial)
        seen = {self.key(start): start}
        todo = [start]
        while todo:
            st = todo.pop()
            for w in words:
                _, nx = self.step(st, w)
                k = self.key(nx)
                if k not in seen:
                    seen[k] = nx
                    todo.append(nx)
                    if len(seen) > limit:
                        raise AnalysisError("doubling: state space does not close")
        return list(seen.values())

    def run(self, st, seq):
        out = []
        for w in seq:
            d, st = self.step(st, w)
            out.append(d)
        return out


def run(ctx, report, clause="1", skip=()):
    folder = ctx.memo("folder", lambda: Folder(ctx.index))
    A = _alphabet(folder)
    m = Machine(ctx, folder)
    report.covered(m.fn)
    words = list(A.values())
    states = m.reachable(words)
    report.count("doubling_states", len(states))
    n_eval = 0

    def fresh(st, first):
        """states in which `first` is not remembered in any way"""
        return all(not (isinstance(v, str) and first in v) for v in st.values())

    def obligation(name, label, letters, want, why=None):
        nonlocal n_eval
        if name in skip:
            return
        seq = [A[x] for x in letters]
        bad = []
        for st in states:
            if not fresh(st, seq[0]):
                continue
            n_eval += 1
            got = m.run(st, seq)
            if got != want:
                bad.append({"from_state": {k: v for k, v in st.items()}, "dropped": got})
        report.check(not bad, "R-DOUBLING", m.fn, f"{name}: {label}",
                     {"sequence": seq, "required_dropped": want, "states_tried": sum(1 for s in states if fresh(s, seq[0])),
                      "mismatches": bad[:2], **({"why": why} if why and bad else {})}, clause)

    for x, what in (("P", "preamble address code"), ("T", "tab offset after its address"), ("S", "cue-starting command"),
                    ("C", "command"), ("D", "command"), ("M", "special character"), ("N", "special character")):
        if x == "T":
            obligation("O-PAIR", f"a doubled {what} counts once", "PTT", [False, False, True])
        else:
            obligation("O-PAIR", f"a doubled {what} ({A[x]}) counts once", x + x, [False, True])
    for x in ("C", "D", "M"):
        obligation("O-TWICE", f"{A[x]} sent twice, each time doubled, counts twice", x * 4, [False, True, False, True])
    obligation("O-TAB", "address + tab offset, single codes", "PT", [False, False])
    obligation("O-TAB", "address + tab offset, every code doubled (P P T T)", "PPTT", [False, True, False, True],
               why="the tab offset that follows a DOUBLED preamble address code is swallowed: the caption is placed at "
                   "the address column instead of address + offset")
    obligation("O-TAB", "address + tab offset, the pair repeated (P T P T)", "PTPT", [False, False, True, True])
    obligation("O-TEXT", "ordinary characters are never duplicates", "cc", [False, False])
    obligation("O-TEXT", "ordinary characters after a command", "Ccc", [False, False, False])
    for x in ("M", "C", "P", "S"):
        obligation("O-SEPARATED", f"{A[x]} . text . {A[x]}: only the immediately preceding word counts",
                   x + "c" + x, [False, False, False])
    # extended characters and back-space are transmitted doubled only in streams whose control codes are
    # doubled: the mode-setting code that opens the caption tells which kind of stream this is
    for x, what in (("E", "extended character"), ("F", "extended character"), ("X", "back-space")):
        obligation("O-EXT", f"doubled stream (mode code sent twice): a doubled {what} {A[x]} counts once",
                   "SS" + x + x, [False, True, False, True])
        obligation("O-EXT", f"single-coded stream (mode code sent once): two {what}s {A[x]} in a row are two",
                   "S" + x + x, [False, False, False])
        obligation("O-EXT", f"{what} . text . {what}: only the immediately preceding word counts",
                   "SS" + x + "c" + x, [False, True, False, False, False])
    obligation("O-SEPARATED", "two different special characters in a row", "MN", [False, False])
    obligation("O-SEPARATED", "two different addresses in a row", "PQ", [False, False])
    report.count("doubling_sequences_evaluated", n_eval)
