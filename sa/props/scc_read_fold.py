"""`SCCReader.read` folded on stub readers: what read() itself does around the decoder.

The decoder proper (`_translate_line`, `_flush_implicit_buffers`, the caption stash) is replaced by
recording stubs that hand back a prepared list of captions; what is folded is read()'s own
bookkeeping, which several properties rest on:

  lines     every line but the header goes to the decoder, in order; the flush follows the last line
  length    C15: a row longer than 32 characters anywhere in the stash raises CaptionLineLengthError whose
            message names every such row with its length (and nothing is returned)
  flash     C06/3: a caption with 0 < end - start < 50 ms raises CaptionReadTimingError
  empty     no captions: CaptionReadNoCaptions
  final end C06/3, C16/4: trailing captions without an end get start + 4 s, walking back until one has an end;
            all other captions are returned untouched, in order, under the requested language

Scenario space: every list of up to N captions drawn from a pool that crosses the boundary values
(durations 0 / 1 us / 49 999 / 50 000 us / 2 s / no end; rows of 31 / 32 / 33 characters on the
first, a middle and the last row).
"""
import ast
import itertools

from ..core.tree import AnalysisError
from ..core.constfold import Folder, Stub, FoldRaise

SCC = "pycaption/scc/__init__.py"
S = 1000000
ROW = {31: "A" * 31, 32: "B" * 32, 33: "C" * 33, 40: "D" * 40}
# (name, duration or None for "never ended", rows)
POOL = [
    ("ok", 2 * S, ["hello"]),
    ("open", None, ["still open"]),
    ("zero", 0, ["same instant"]),
    ("flash1", 1, ["flash"]),
    ("flash", 49999, ["flash"]),
    ("edge", 50000, ["just long enough"]),
    ("r32", 2 * S, [ROW[32], "x"]),
    ("r33", 2 * S, [ROW[33]]),
    ("r33mid", 2 * S, ["top", ROW[33], "bottom"]),
    ("r40last", None, ["one", "two", "three", "four", ROW[40]]),
    ("r31", 2 * S, [ROW[31]]),
]


class World:
    def __init__(self, ctx):
        self.F = Folder(ctx.index)
        self.F.object_classes = ("Caption", "CaptionList", "CaptionNode", "CaptionSet")
        self.read = ctx.index.get_function(SCC, "SCCReader.read")
        self.n = 0

    def ev(self, text, **local):
        return self.F.eval_in("pycaption.base", ast.parse(text, mode="eval").body, local)

    def caption(self, k, item):
        name, dur, rows = item
        start = (3 * k + 1) * S
        end = 0 if dur is None else start + dur
        nodes = []
        for i, r in enumerate(rows):
            if i:
                nodes.append(self.ev("CaptionNode.create_break()"))
            nodes.append(self.ev("CaptionNode.create_text(t)", t=r))
        return self.ev("Caption(s, e, nodes)", s=start, e=end, nodes=nodes), start, end

    def run(self, items, lang=None, n_lines=3):
        caps = [self.caption(k, it) for k, it in enumerate(items)]
        log = []
        pre = [Stub("precaption", {}, methods={"to_real_caption": (lambda c=c: c)}) for c, _, _ in caps]
        stash = Stub("caption_stash", {"_collection": pre}, methods={
            "get_all": lambda: self.ev("CaptionList(cs)", cs=[c for c, _, _ in caps])})
        clock = Stub("time_translator", {"offset": 0})
        me = Stub("reader", {"caption_stash": stash, "time_translator": clock,
                             "buffer_dict": Stub("buffer_dict", {"active_key": "pop"})},
                  cls=self.read.cls, methods={
            "_reset": lambda: log.append(("RESET",)),
            "_translate_line": lambda line: log.append(("LINE", line)),
            "_flush_implicit_buffers": lambda *a, **k: log.append(("FLUSH",) + tuple(a))})
        content = "\n".join(["Scenarist_SCC V1.0"] + [f"00:00:0{i}:00\t9420 line{i}" for i in range(n_lines)])
        args = [content] + ([lang] if lang else [])
        self.n += 1
        try:
            r = self.F.call_function(self.read, args, {}, self_value=me)
            out = ("ok", r)
        except FoldRaise as e:
            out = ("raise", e.exc_name, str(e), e.exc_args)
        return out, log, caps, content, me


def expected(items, caps):
    long_rows = [(r, len(r)) for (_, _, rows) in items for r in rows if len(r) > 32]
    if long_rows:
        return ("raise", "CaptionLineLengthError", long_rows)
    for (name, dur, rows) in items:
        if dur is not None and 0 < dur < 50000:
            return ("raise", "CaptionReadTimingError", None)
    if not items:
        return ("raise", "CaptionReadNoCaptions", None)
    times = [(s, e) for _, s, e in caps]
    for i in range(len(times) - 1, -1, -1):
        if times[i][1]:
            break
        times[i] = (times[i][0], times[i][0] + 4 * S)
    return ("ok", times)


def _names_length(msg, row, n):
    """the row is followed (on its line of the message) by its length"""
    i = msg.find(row)
    while i >= 0:
        rest = msg[i + len(row):].split("\n", 1)[0]
        if str(n) in rest:
            return True
        i = msg.find(row, i + 1)
    return False


def _result_times(world, r, lang):
    from .foldutil import captions_by_language
    d = captions_by_language(r, world.F, "SCCReader.read")
    if list(d) != [lang]:
        return ("languages", list(d))
    lst = d[lang]
    return ("ok", [(c.attrs.get("start"), c.attrs.get("end")) for c in lst])


def explore(ctx, max_len):
    W = World(ctx)
    bad = {"lines": [], "length": [], "message": [], "flash": [], "empty": [], "final": [], "routing": []}
    n = 0
    for k in range(0, max_len + 1):
        for items in itertools.product(POOL, repeat=k):
            if k >= 3 and len({it[0] for it in items}) < k and items[0][0] != "open":
                continue           # repeated entries add nothing beyond runs of open captions
            n += 1
            lang = "fr" if n % 5 == 0 else None
            try:
                out, log, caps, content, me = W.run(list(items), lang=lang, n_lines=n % 4)
            except AnalysisError as e:
                raise AnalysisError(f"SCCReader.read cannot be folded on a stub reader: {e}")
            case = {"captions": [it[0] for it in items]}
            lines = content.splitlines()[1:]
            got_lines = [x[1] for x in log if x[0] == "LINE"]
            kinds = [x[0] for x in log]
            if got_lines != lines or kinds.count("FLUSH") != 1 or (lines and kinds.index("FLUSH") < max(
                    i for i, x in enumerate(kinds) if x == "LINE")) or [x for x in log if x[0] == "FLUSH"][0][1:2] != ("pop",):
                bad["lines"].append(dict(case, decoder_calls=[x if x[0] != "LINE" else ("LINE", x[1][:14]) for x in log][:6],
                                         lines=len(lines)))
                continue
            want = expected(list(items), caps)
            if want[0] == "raise":
                key = {"CaptionLineLengthError": "length", "CaptionReadTimingError": "flash",
                       "CaptionReadNoCaptions": "empty"}[want[1]]
                if out[0] != "raise" or out[1] != want[1]:
                    bad[key].append(dict(case, required=f"raises {want[1]}",
                                         got=("returns" if out[0] == "ok" else f"raises {out[1]}")))
                elif key == "length":
                    msg = out[3][0] if out[3] and isinstance(out[3][0], str) else None
                    if msg is None:
                        raise AnalysisError("SCCReader.read: the message of CaptionLineLengthError does not fold")
                    missing = [r for r, ln in want[2] if r not in msg or not _names_length(msg, r, ln)]
                    if missing:
                        bad["message"].append(dict(case, rows_not_named_with_their_length=[(r[:8] + "...", len(r)) for r in missing],
                                                   message=msg[-160:]))
                continue
            if out[0] == "raise":
                bad["final"].append(dict(case, required="returns the captions", got=f"raises {out[1]}: {out[2][:80]}"))
                continue
            got = _result_times(W, out[1], lang or "en-US")
            if got[0] != "ok":
                bad["routing"].append(dict(case, languages=got[1], required=[lang or "en-US"]))
            elif got[1] != want[1]:
                bad["final"].append(dict(case, returned_times=got[1], required=want[1]))
    # many over-long rows at once: every one of them is named, however long the report gets
    many = [(f"long{k}", 2 * S, [("L%02d " % k) + "x" * 36]) for k in range(20)]
    n += 1
    out, log, caps, content, me = W.run(many)
    rows = [r for (_, _, rs) in many for r in rs]
    if out[0] != "raise" or out[1] != "CaptionLineLengthError":
        bad["length"].append({"captions": "20 captions, each with a row of 40 characters", "required": "raises CaptionLineLengthError",
                              "got": "returns" if out[0] == "ok" else f"raises {out[1]}"})
    else:
        msg = out[3][0] if out[3] and isinstance(out[3][0], str) else None
        if msg is None:
            raise AnalysisError("SCCReader.read: the message of CaptionLineLengthError does not fold")
        missing = [r for r in rows if r not in msg]
        if missing:
            bad["message"].append({"captions": "20 captions, each with a row of 40 characters",
                                   "rows_not_named": len(missing), "message_length": len(msg)})
    return W, bad, n


def run(ctx, report, rules, max_len=None):
    """rules: {key: (rule id, clause, text)} - which of the explored obligations this property reports"""
    if max_len is None:
        max_len = 3 if ctx.tier == "thorough" else 2
    W, bad, n = ctx.memo(("scc_read_fold", max_len), lambda: explore(ctx, max_len))
    report.covered(W.read)
    report.count("scc_read_scenarios_folded", n)
    for key, (rule, clause, text) in rules.items():
        report.check(not bad[key], rule, W.read, text, {"scenarios": n, "mismatches": bad[key][:3]}, clause)
